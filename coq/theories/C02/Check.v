(* PV.C02.Check — the comparisons run inside Coq by the correspondence check of C02.
   Four streams, one case type each:
     lcase : lcs.diff                       (verdict_lcs)
     pcase : nmtran_assignment_string       (verdict_print)
     ccase : NMTranPrinter boolean infix    (verdict_cond)
     hcase : translation validation of a whole generated control stream (verdict_hist)
   Correspondence tags < 10, oracle tags 11..99, guard facts >= 200, inconclusive >= 1000. *)
From Coq Require Import QArith List Bool PArith Arith.
From PV Require Import Base.PyData Base.Expr Base.Interp Base.Stmts C02.Model C02.CondPrint C02.Spec C02.Remap C02.IndexDiff C02.Read C02.KRename C02.ScaleTrack.
Import ListNotations.
Local Open Scope nat_scope.

Definition tag (b : bool) (t : nat) : list nat := if b then [] else [t].
Definition tag3 (v : nat) (tfail tinc : nat) : list nat :=
  match v with 0 => [] | 1 => [tfail] | _ => [tinc] end.

(* ================= stream 1: lcs.diff ======================================================== *)
Record lcase := mkL { l_old : list nat; l_new : list nat; l_obs : list (op * nat) }.

Definition opn_eqb (a b : op * nat) : bool := op_eqb (fst a) (fst b) && Nat.eqb (snd a) (snd b).
Definition onl_eqb (a b : option (list nat)) : bool :=
  match a, b with Some x, Some y => list_eqb Nat.eqb x y | None, None => true | _, _ => false end.

Definition verdict_lcs (c : lcase) : list nat :=
  let m := diff Nat.eqb (l_old c) (l_new c) in
  tag (list_eqb opn_eqb m (l_obs c)) 1 ++
  (* the property on the implementation's own script *)
  tag (onl_eqb (apply_script Nat.eqb (l_obs c) (l_old c)) (Some (l_new c))) 11 ++
  tag (list_eqb Nat.eqb (old_of (l_obs c)) (l_old c) && list_eqb Nat.eqb (new_of (l_obs c)) (l_new c)) 12 ++
  tag (Nat.eqb (length (kept (l_obs c))) (lcs_length Nat.eqb (l_old c) (l_new c))) 13 ++
  (* facts for the input distribution *)
  (if Nat.eqb (length (kept m)) 0 then [301] else []) ++
  (if Nat.eqb (length (kept m)) (length m) then [302] else []).

(* ================= comparing NM code by evaluation =========================================== *)
Definition cmp_ob (a b : option bool) : nat :=
  match a, b with Some x, Some y => if Bool.eqb x y then 0 else 1 | _, _ => 2 end.
Definition cond_agree (need : nat) (envs : list env) (a b : cond) : nat :=
  summarize need (map (fun r => cmp_ob (evalc r std_fi a) (evalc r std_fi b)) envs).

Definition worst (a b : nat) : nat :=
  match a, b with 1, _ | _, 1 => 1 | 0, 0 => 0 | _, _ => 2 end.

Definition simple_agree (need : nat) (envs : list env) (a b : simple) : nat :=
  match a, b with
  | SAssign x e, SAssign y f => if Pos.eqb x y then expr_agree need envs e f else 1
  | SIf c x e, SIf d y f =>
      if Pos.eqb x y then worst (cond_agree need envs c d) (expr_agree need envs e f) else 1
  | _, _ => 1
  end.

Fixpoint simples_agree (need : nat) (envs : list env) (a b : list simple) : nat :=
  match a, b with
  | [], [] => 0
  | x :: a', y :: b' => worst (simple_agree need envs x y) (simples_agree need envs a' b')
  | _, _ => 1
  end.

Fixpoint branches_agree (need : nat) (envs : list env) (a b : list (cond * list simple)) : nat :=
  match a, b with
  | [], [] => 0
  | (c, x) :: a', (d, y) :: b' =>
      worst (worst (cond_agree need envs c d) (simples_agree need envs x y)) (branches_agree need envs a' b')
  | _, _ => 1
  end.

Definition nmstmt_agree (need : nat) (envs : list env) (a b : nmstmt) : nat :=
  match a, b with
  | NS x, NS y => simple_agree need envs x y
  | NBlock ba ea, NBlock bb eb =>
      worst (branches_agree need envs ba bb)
            (match ea, eb with
             | None, None => 0
             | Some x, Some y => simples_agree need envs x y
             | _, _ => 1 end)
  | _, _ => 1
  end.

Fixpoint nmstmts_agree (need : nat) (envs : list env) (a b : list nmstmt) : nat :=
  match a, b with
  | [], [] => 0
  | x :: a', y :: b' => worst (nmstmt_agree need envs x y) (nmstmts_agree need envs a' b')
  | _, _ => 1
  end.

(* ================= stream 2: nmtran_assignment_string ======================================== *)
Record pcase := mkP {
  p_defined : list id;                    (* defined_symbols *)
  p_sym : id; p_expr : expr;              (* the Assignment *)
  p_toks : option (list tok);             (* tokens of the printed text; None = the printer raised / not tokenizable *)
  p_envs : list (list (id * Q))
}.

Definition value_after (r : env) (l : list nmstmt) (x : id) : option Q :=
  match nm_exec std_fi r l with Some r' => r' x | None => None end.

(* the printed text is read by the Coq reader C02.Read.read *)
Definition p_impl (c : pcase) : option (list nmstmt) :=
  match p_toks c with Some ts => read ts | None => None end.

Definition verdict_print (c : pcase) : list nat :=
  let D := p_defined c in let x := p_sym c in let e := p_expr c in
  let envs := map env_of (p_envs c) in
  let m := print_stmt D x e in
  (* correspondence *)
  match m, p_impl c with
  | None, None => []
  | Some a, Some b => tag3 (nmstmts_agree 2 envs a b) 2 1002
  | _, _ => [2]
  end ++
  (* oracle: the text the implementation printed, run by nm_exec, against the value of the IR *)
  match p_impl c with
  | None => [14]
  | Some b =>
      let res := map (fun r => (cmp_oq (value_after r b x) (eval r std_fi e),
                                (g_wf e, g_self_free D x e, g_disjoint std_fi r D x e, g_zero_fresh r D x e))) envs in
      let bad := filter (fun p => Nat.eqb (fst p) 1) res in
      (if existsb (fun p => let '(_, (w, s, d, z)) := p in w && s && d && z) bad then [11] else []) ++
      (if existsb (fun p => let '(_, (w, s, d, z)) := p in negb d) bad then [21] else []) ++
      (if existsb (fun p => let '(_, (w, s, d, z)) := p in negb s) bad then [22] else []) ++
      (if existsb (fun p => let '(_, (w, s, d, z)) := p in negb z) bad then [23] else []) ++
      (if 2 <=? count_eq 0 (map fst res) then [] else if existsb (fun p => Nat.eqb (fst p) 1) res then [] else [1011])
  end ++
  (* guard facts and the form chosen *)
  tag (forallb (fun r => g_disjoint std_fi r D x e) envs) 201 ++
  tag (g_self_free D x e) 202 ++
  tag (forallb (fun r => g_zero_fresh r D x e) envs) 203 ++
  tag (g_wf e) 204 ++
  [300 + print_form D x e].

(* ================= stream 3: boolean conditions ============================================== *)
Record ccase := mkC {
  c_cond : scond;
  c_toks : option (list tok);              (* tokens of the printed text *)
  c_envs : list (list (id * Q))
}.

Definition read_cond (ts : list tok) : option cond :=
  match p_cor (6 * S (length ts)) ts with Ok c [] => Some c | _ => None end.
Definition c_impl (c : ccase) : option cond :=
  match c_toks c with Some ts => read_cond ts | None => None end.

Definition verdict_cond (c : ccase) : list nat :=
  let envs := map env_of (c_envs c) in
  match printed_cond (c_cond c), c_impl c with
  | None, None => []
  | Some a, Some b => tag3 (cond_agree 2 envs a b) 4 1004
  | _, _ => [4]
  end ++
  match c_impl c with
  | None => [18]
  | Some b =>
      match cond_agree 2 envs b (sem (c_cond c)) with
      | 0 => []
      | 1 => [17]
      | _ => [1017]
      end
  end ++
  tag (shape_binary (c_cond c)) 205 ++ tag (shape_no_or_under_and (c_cond c)) 206 ++ tag (guard_cond (c_cond c)) 210.

(* ================= stream 4: a whole generated control stream ================================ *)
Record hcase := mkH {
  h_advan : nat; h_trans : nat;
  h_pk : list nmstmt; h_des : list nmstmt; h_err : list nmstmt;     (* generated code, reference parser *)
  h_before : list stmt; h_after : list stmt;                         (* in-memory statements (NM names) *)
  h_fexpr : option expr;                                             (* IR:  F = <this> *)
  h_flows : list flow;                                               (* IR compartmental system *)
  h_ode : list (id * expr);                                          (* IR:  (DADT(i), right-hand side over A(k)) *)
  h_kparams : list flow;                                             (* ADVAN5/7: (i, j, Sym K<i><j>) found in $PK *)
  h_obs_amt : id; h_obs_scale : id;                                  (* A(n), S<n> of the NM observation compartment *)
  h_index : list (nat * nat * nat);                                  (* (kind, index in the IR symbol, NM number) *)
  h_cmp : list id; h_cmp_err : list id;                              (* symbols compared after $PK / $ERROR *)
  h_zero : list id;                                                  (* user variables: zero-initialised by NM-TRAN *)
  h_rr_before : list stmt; h_rr_after : list stmt; h_rr_flows : list flow;   (* the re-read model *)
  h_rr_fexpr : option expr;
  h_rr_ok : bool;
  h_par : list (Q * option Q * option Q * bool);                     (* init, lower, upper, fix of every parameter *)
  h_rr_par : list (Q * option Q * option Q * bool);
  h_rvs_ok : bool;                                                   (* names, levels, variance expressions equal *)
  h_envs : list (list (id * Q))
}.

Definition oq_eqb' (a b : option Q) : bool :=
  match a, b with Some x, Some y => Qeq_bool x y | None, None => true | _, _ => false end.
Definition par_eqb (a b : Q * option Q * option Q * bool) : bool :=
  let '(i, l, u, f) := a in let '(i', l', u', f') := b in
  Qeq_bool i i' && oq_eqb' l l' && oq_eqb' u u' && Bool.eqb f f'.

Definition zero_init (zs : list id) (r : env) : env :=
  fun x => match r x with Some v => Some v | None => if memp x zs then Some 0%Q else None end.

Definition irun (l : list stmt) (r : env) : env := exec std_fi std_ode r l.

Definition flow_value (r : env) (fl : list flow) (i j : nat) : option Q :=
  (* sum of the rates of all entries i -> j; no entry = 0 *)
  fold_left (fun acc f => let '(a, b, e) := f in
                          if Nat.eqb a i && Nat.eqb b j
                          then match acc, eval r std_fi e with
                               | Some x, Some y => Some (Qred (x + y)) | _, _ => None end
                          else acc) fl (Some 0%Q).

Definition flow_keys (fl : list flow) : list (nat * nat) := map (fun f => (fst (fst f), snd (fst f))) fl.

Definition flows_cmp (ra : env) (fa : list flow) (rb : env) (fb : list flow) : list nat :=
  map (fun k => cmp_oq (flow_value ra fa (fst k) (snd k)) (flow_value rb fb (fst k) (snd k)))
      (flow_keys fa ++ flow_keys fb).

Definition any1 (l : list nat) : bool := existsb (Nat.eqb 1) l.
Definition verdict3 (need : nat) (per_env : list (list nat)) (tfail tinc : nat) : list nat :=
  (* per environment a list of comparison codes; an environment is usable when no code is 2 *)
  if existsb any1 per_env then [tfail]
  else if need <=? length (filter (fun l => forallb (Nat.eqb 0) l) per_env) then [] else [tinc].

Definition nm_flows (c : hcase) : option (list flow) :=
  if is_general_linear (h_advan c) then Some (h_kparams c)
  else advan_flows (h_advan c) (h_trans c).

Definition scale_value (r : env) (s : id) : option Q :=
  match r s with Some v => Some v | None => Some 1%Q end.

Definition f_nm (c : hcase) (r1 : env) : option Q :=
  match r1 (h_obs_amt c), scale_value r1 (h_obs_scale c) with
  | Some a, Some s => if Qeq_bool s 0 then None else Some (Qred (a / s))
  | _, _ => None
  end.

Definition simple_lhs (s : simple) : id := match s with SAssign x _ | SIf _ x _ => x end.
Definition nm_assigned (l : list nmstmt) : list id :=
  flat_map (fun s => match s with
                     | NS x => [simple_lhs x]
                     | NBlock brs els => flat_map (fun b => map simple_lhs (snd b)) brs ++
                                         match els with Some e => map simple_lhs e | None => [] end
                     end) l.

(* explanation facts (known classes of failures) *)
Definition missing_pk_param (c : hcase) : bool :=
  existsb (fun p => negb (memp p (nm_assigned (h_pk c)))) (param_names (h_advan c) (h_trans c)).
Definition all_assigned (c : hcase) (t : nat) : bool :=
  match param_names (h_advan c) t with
  | [] => false
  | ps => forallb (fun p => memp p (nm_assigned (h_pk c))) ps
  end.
(* the parameters of the declared TRANS are not all defined, but those of another TRANS of the ADVAN are *)
Definition other_trans_defined (c : hcase) : bool :=
  missing_pk_param c &&
  existsb (fun t => negb (Nat.eqb t (h_trans c)) && valid_trans (h_advan c) t && all_assigned c t) [1; 2; 3; 4].
(* a volume parameter is assigned the literal 1 in the in-memory statements *)
Definition volume_is_one (c : hcase) : bool :=
  existsb (fun st => match st with
                     | Assign x (Num q) => Qeq_bool q 1 && memp x [P_V; P_V1; P_V2; P_V3; P_V4]
                     | _ => false end) (h_before c).
(* every parameter of the declared TRANS is assigned in $PK, yet a rate of the in-memory system is
   written with other symbols than the ADVAN's parameter names (add_parameters_ratio does nothing
   when the reserved names are already assigned, whatever they are assigned to) *)
Definition names_taken (c : hcase) : bool :=
  all_assigned c (h_trans c) &&
  existsb (fun f => negb (forallb (fun x => memp x (param_names (h_advan c) (h_trans c))) (free_syms (snd f))))
          (h_flows c).
Definition des_missing (c : hcase) : bool :=
  is_des_advan (h_advan c) && match h_des c with [] => true | _ => false end.

Definition verdict_hist (c : hcase) : list nat :=
  let envs := map env_of (h_envs c) in
  let runs := map (fun r =>
      let r0 := zero_init (h_zero c) r in
      let r1 := nm_exec std_fi r0 (h_pk c) in
      let q1 := irun (h_before c) r in
      (r, r1, q1)) envs in
  (* 31: $PK / $PRED code against the statements before the ODE system *)
  verdict3 2 (map (fun t => let '(r, r1, q1) := t in
                   match r1 with
                   | Some r1 => map (fun x => cmp_oq (r1 x) (q1 x)) (h_cmp c)
                   | None => [2] end) runs) 31 1031 ++
  (* 32: the compartmental system the ADVAN/TRANS (or the K parameters of ADVAN5/7) denotes *)
  match nm_flows c with
  | Some nf =>
      verdict3 2 (map (fun t => let '(r, r1, q1) := t in
                       match r1 with
                       | Some r1 => flows_cmp r1 nf q1 (h_flows c)
                       | None => [2] end) runs) 32 1032
  | None => if is_des_advan (h_advan c) then [] else [1032]
  end ++
  (* 33: $DES against the differential equations of the in-memory system *)
  (if is_des_advan (h_advan c)
   then verdict3 2 (map (fun t => let '(r, r1, q1) := t in
                         match r1 with
                         | Some r1 => match nm_exec std_fi r1 (h_des c) with
                                      | Some r2 => map (fun de => cmp_oq (r2 (fst de)) (eval q1 std_fi (snd de))) (h_ode c)
                                      | None => [2] end
                         | None => [2] end) runs) 33 1033
   else []) ++
  (* 34: F = A(obs)/S(obs) *)
  match h_fexpr c with
  | Some fe =>
      verdict3 2 (map (fun t => let '(r, r1, q1) := t in
                       match r1 with
                       | Some r1 => [cmp_oq (f_nm c r1) (eval q1 std_fi fe)]
                       | None => [2] end) runs) 34 1034
  | None => []
  end ++
  (* 35: $ERROR against the statements after the ODE system *)
  verdict3 2 (map (fun t => let '(r, r1, q1) := t in
                   match r1 with
                   | Some r1 =>
                       let fv := match h_fexpr c with Some fe => eval q1 std_fi fe | None => r P_F end in
                       match nm_exec std_fi (upd r1 P_F fv) (h_err c) with
                       | Some r3 => let q3 := irun (h_after c) (upd q1 P_F fv) in
                                    map (fun x => cmp_oq (r3 x) (q3 x)) (h_cmp_err c)
                       | None => [2] end
                   | None => [2] end) runs) 35 1035 ++
  (* 36: S<n> / F<n> / ALAG<n> / R<n> / D<n> / A(n) carry the NM compartment number *)
  tag (forallb (fun t => let '(kind, used, expected) := t in (9 <? kind) || Nat.eqb used expected) (h_index c)) 36 ++
  (* 48 / 49: the CMT value of the dose records is the number of the in-memory dosing compartment
     (kind 10: (CMT value, dosing compartment); kind 11: (CMT value, central compartment)) *)
  (let bad := existsb (fun t => let '(kind, used, expected) := t in Nat.eqb kind 10 && negb (Nat.eqb used expected)) (h_index c) in
   let all_central := forallb (fun t => let '(kind, used, expected) := t in negb (Nat.eqb kind 11) || Nat.eqb used expected) (h_index c) in
   if bad then (if all_central then [49] else [48]) else []) ++
  (* 37..39: reading the generated code back gives an equivalent model *)
  (if h_rr_ok c then
     verdict3 2 (map (fun t => let '(r, _, q1) := t in
                      let p1 := irun (h_rr_before c) r in
                      map (fun x => cmp_oq (p1 x) (q1 x)) (h_cmp c)) runs) 37 1037 ++
     verdict3 2 (map (fun t => let '(r, _, q1) := t in
                      let p1 := irun (h_rr_before c) r in
                      flows_cmp p1 (h_rr_flows c) q1 (h_flows c)) runs) 38 1038 ++
     verdict3 2 (map (fun t => let '(r, _, q1) := t in
                      let p1 := irun (h_rr_before c) r in
                      let fv := r P_F in
                      let q3 := irun (h_after c) (upd q1 P_F fv) in
                      let p3 := irun (h_rr_after c) (upd p1 P_F fv) in
                      map (fun x => cmp_oq (p3 x) (q3 x)) (h_cmp_err c)) runs) 39 1039 ++
     match h_fexpr c, h_rr_fexpr c with
     | Some fe, Some fr =>
         verdict3 2 (map (fun t => let '(r, _, q1) := t in
                          let p1 := irun (h_rr_before c) r in
                          [cmp_oq (eval p1 std_fi fr) (eval q1 std_fi fe)]) runs) 43 1043
     | None, None => []
     | _, _ => [43]
     end
   else [40]) ++
  (if missing_pk_param c && negb (other_trans_defined c) then [28] else []) ++
  (if other_trans_defined c then [44] else []) ++ (if names_taken c then [47] else []) ++ (if volume_is_one c then [46] else []) ++
  (if des_missing c then [30] else []) ++
  (* 41: parameters and random variables of the re-read model *)
  (if h_rr_ok c then tag (list_eqb par_eqb (h_par c) (h_rr_par c) && h_rvs_ok c) 41 else []).

(* the generated code arrives as token lists and is read here; 42 = not readable abbreviated code *)
(* the compartment names of the start model and after every applied step, the central compartment, OUTPUT, the
   S index of the start model's and of the final model's F statement *)
Record scase := mkS { s_out : id; s_central : id; s_names0 : list id; s_hist : list (list id);
                      s_k0 : option nat; s_used : option nat }.
Definition verdict_scale (c : scase) : list nat :=
  match s_k0 c, s_used c with
  | Some k0, Some used =>
      if names_ok (s_out c) (s_central c) (s_names0 c) && forallb (names_ok (s_out c) (s_central c)) (s_hist c) &&
         match number_of (s_names0 c) (s_central c) with Some k => Nat.eqb k k0 | None => false end
      then tag (Nat.eqb (snd (scale_run true (s_out c) (new_compartmental_map (s_names0 c), k0) (s_hist c))) used) 50 ++ [212]
      else []
  | _, _ => []
  end.

Record hcase_t := mkHt {
  t_scale : scase;
  t_pk : list tok; t_des : list tok; t_err : list tok;
  t_mk : list nmstmt -> list nmstmt -> list nmstmt -> list id -> hcase    (* pk, des, err, zero-initialised variables *)
}.
Definition verdict_hist_t (c : hcase_t) : list nat :=
  match read (t_pk c), read (t_des c), read (t_err c) with
  | Some pk, Some des, Some err => verdict_hist (t_mk c pk des err (nm_assigned (pk ++ des ++ err))) ++ verdict_scale (t_scale c)
  | _, _, _ => [42]
  end.

(* ================= stream 5: compartment renumbering ======================================== *)
Record rcase := mkR {
  r_names : list id;                       (* compartment_names of the new system *)
  r_oldmap : cmap;
  r_newmap_obs : cmap;                     (* new_compartmental_map(cs) as the implementation returns it *)
  r_remap_obs : list (nat * nat)           (* create_compartment_remap(oldmap, newmap_obs) *)
}.
Definition idn_eqb (a b : id * nat) : bool := Pos.eqb (fst a) (fst b) && Nat.eqb (snd a) (snd b).
Definition nn_eqb (a b : nat * nat) : bool := Nat.eqb (fst a) (fst b) && Nat.eqb (snd a) (snd b).
Fixpoint nat_nodup (l : list nat) : bool :=
  match l with [] => true | x :: tl => negb (existsb (Nat.eqb x) tl) && nat_nodup tl end.

Definition verdict_remap (c : rcase) : list nat :=
  tag (list_eqb idn_eqb (new_compartmental_map (r_names c)) (r_newmap_obs c)) 5 ++
  tag (list_eqb nn_eqb (create_compartment_remap (r_oldmap c) (r_newmap_obs c)) (r_remap_obs c)) 6 ++
  (* the property on the implementation's own answers *)
  (if nat_nodup (map snd (r_oldmap c))
   then tag (forallb (fun p => match alookup (r_newmap_obs c) (fst p) with
                               | Some n' => match nlookup (r_remap_obs c) (snd p) with
                                            | Some m => Nat.eqb m n' | None => false end
                               | None => match nlookup (r_remap_obs c) (snd p) with
                                         | Some _ => false | None => true end
                               end) (r_oldmap c)) 15
   else [208]).

(* ================= stream 6: _index_statements_diff ========================================== *)
Record icase := mkI {
  i_last : nat; i_index : list ientry; i_script : list (op * nat);
  i_obs : option (list (op * list nat * nat * nat))       (* None = the generator raised *)
}.
Definition oentry_eqb (a b : op * list nat * nat * nat) : bool :=
  let '(o, l, ni, nj) := a in let '(o', l', ni', nj') := b in
  op_eqb o o' && list_eqb Nat.eqb l l' && Nat.eqb ni ni' && Nat.eqb nj nj'.
Definition verdict_isd (c : icase) : list nat :=
  let m := index_statements_diff (i_last c) (i_index c) (i_script c) in
  match m, i_obs c with
  | None, None => []
  | Some a, Some b => tag (list_eqb oentry_eqb a b) 7
  | _, _ => [7]
  end ++
  let wf := index_wf (i_index c) && Nat.eqb (index_total (i_index c)) (length (old_of (i_script c))) in
  match i_obs c with
  | Some es => tag (list_eqb Nat.eqb (new_side es) (new_of (i_script c)) &&
                    list_eqb Nat.eqb (old_side es) (old_of (i_script c))) 16
  | None => if wf then [19] else []
  end ++ tag wf 209.

(* ================= stream 7: the ADVAN5/7 renaming loop of pk_param_conversion =============== *)
Record kcase := mkK {
  k_n : nat;                                   (* len(oldmap), OUTPUT included *)
  k_remap : list (nat * nat); k_ncs : nat;
  k_flows : list (nat * nat);                  (* pairs of NEW compartment numbers with a non-zero flow *)
  k_advan3 : bool;
  k_obs : option (list (kkey * kval))          (* entries of d in insertion order (T-spelling); None = raised *)
}.
Definition kval_eqb (a b : kval) : bool :=
  match a, b with
  | Some x, Some y => Nat.eqb (fst x) (fst y) && Nat.eqb (snd x) (snd y)
  | None, None => true | _, _ => false end.
Definition kentry_eqb (a b : kkey * kval) : bool := kkey_eqb (fst a) (fst b) && kval_eqb (snd a) (snd b).
Definition verdict_krename (c : kcase) : list nat :=
  let flow := fun a b => existsb (fun p => Nat.eqb (fst p) a && Nat.eqb (snd p) b) (k_flows c) in
  let m := k_rename (k_n c) (k_remap c) (k_ncs c) flow (k_advan3 c) in
  match k_obs c with
  | Some o => tag (list_eqb kentry_eqb m o) 8 ++
              tag (forallb (fun e => match snd e with
                                     | Some _ => entry_ok (k_remap c) (k_ncs c) flow (fst e) (snd e)
                                     | None => k_advan3 c end) o) 20
  | None => [8]
  end.
