(* PV.C02.Model — executable models for C02 (IR -> NM-TRAN).  No proofs here.
   (1) re-exports the model of lcs.diff (C02/Lcs.v);
   (2) abstract syntax and REFERENCE SEMANTICS of NM-TRAN abbreviated code ([nmstmt], [nm_exec]):
       sequential execution, logical IF, block IF / ELSE IF / ELSE / END IF.  Expressions and
       conditions of abbreviated code are the shared [PV.Base.Expr] trees (the concrete syntax is
       handled by the reference parser of the harness);
   (3) [print_stmt]: code_record.nmtran_assignment_string / _translate_sympy_piecewise /
       _translate_sympy_single / _translate_sympy_block, statement by statement;
   (4) the n-ary boolean conditions of sympy and NMTranPrinter._do_infix / _print_Not are in
       C02/CondPrint.v. *)
From Coq Require Import QArith List Bool PArith Arith Lia.
From PV Require Import Base.PyData Base.Expr Base.Stmts.
From PV Require Export C02.Lcs.
Import ListNotations.
Local Open Scope nat_scope.

(* ================= (2) NM-TRAN abbreviated code ============================================ *)
Inductive simple :=
| SAssign (x : id) (e : expr)                 (*  X = e            *)
| SIf (c : cond) (x : id) (e : expr).         (*  IF (c) X = e     *)

Inductive nmstmt :=
| NS (s : simple)
| NBlock (branches : list (cond * list simple)) (els : option (list simple)).
   (* IF (c1) THEN body1 ELSE IF (c2) THEN body2 ... [ELSE bodyE] END IF *)

Section NmExec.
  Variable fi : finterp.

  (* None = the run aborts: a condition cannot be evaluated.  An assignment whose right-hand side
     is undefined makes the variable undefined (as in the IR's [exec]). *)
  Definition exec_simple (r : env) (s : simple) : option env :=
    match s with
    | SAssign x e => Some (upd r x (eval r fi e))
    | SIf c x e =>
        match evalc r fi c with
        | Some true => Some (upd r x (eval r fi e))
        | Some false => Some r
        | None => None
        end
    end.

  Fixpoint exec_simples (r : env) (l : list simple) : option env :=
    match l with
    | [] => Some r
    | s :: tl => match exec_simple r s with Some r' => exec_simples r' tl | None => None end
    end.

  (* the first branch whose condition holds is executed, the conditions are evaluated in order in
     the state BEFORE the block; no branch and no ELSE: nothing happens *)
  Fixpoint exec_branches (r : env) (brs : list (cond * list simple)) (els : option (list simple))
    : option env :=
    match brs with
    | [] => match els with Some l => exec_simples r l | None => Some r end
    | (c, body) :: tl =>
        match evalc r fi c with
        | Some true => exec_simples r body
        | Some false => exec_branches r tl els
        | None => None
        end
    end.

  Definition nm_exec1 (r : env) (s : nmstmt) : option env :=
    match s with
    | NS s => exec_simple r s
    | NBlock brs els => exec_branches r brs els
    end.

  Fixpoint nm_exec (r : env) (l : list nmstmt) : option env :=
    match l with
    | [] => Some r
    | s :: tl => match nm_exec1 r s with Some r' => nm_exec r' tl | None => None end
    end.
End NmExec.

(* ================= (3) nmtran_assignment_string ============================================ *)
(* the (value, condition) pairs of a sympy Piecewise, in order *)
Fixpoint pieces (e : expr) : list (cond * expr) :=
  match e with
  | PwCons c v rest => (c, v) :: pieces rest
  | _ => []
  end.
Fixpoint of_pieces (l : list (cond * expr)) : expr :=
  match l with [] => PwNil | (c, v) :: tl => PwCons c v (of_pieces tl) end.

Definition is_pw (e : expr) : bool := match e with PwCons _ _ _ => true | _ => false end.
Definition is_ctrue (c : cond) : bool := match c with CTrue => true | _ => false end.
(* len(e.args) == 0 : a Symbol or a Number *)
Definition is_atom (e : expr) : bool := match e with Num _ | Sym _ => true | _ => false end.
Definition is_sym (x : id) (e : expr) : bool := match e with Sym y => Pos.eqb y x | _ => false end.
Definition is_zero (e : expr) : bool := match e with Num q => Qeq_bool q 0 | _ => false end.

Fixpoint last_opt {A} (l : list A) : option A :=
  match l with [] => None | [a] => Some a | _ :: tl => last_opt tl end.

(* has_added_else = expression[-1][1] is true and
                    (expression[-1][0] == symbol or (expression[-1][0] == 0 and symbol not in defined)) *)
Definition has_added_else (D : list id) (x : id) (ps : list (cond * expr)) : bool :=
  match last_opt ps with
  | Some (c, v) => is_ctrue c && (is_sym x v || (is_zero v && negb (memp x D)))
  | None => false
  end.

(* _translate_sympy_block: IF (c0) THEN / ELSE IF (ci) THEN / ELSE (when the condition prints as
   'True') / END IF.  The text is well formed only when a True condition is the last piece and not
   the first; otherwise (never the case for a sympy Piecewise) the result is None. *)
Fixpoint block_tail (x : id) (ps : list (cond * expr))
  : option (list (cond * list simple) * option (list simple)) :=
  match ps with
  | [] => Some ([], None)
  | (c, v) :: tl =>
      if is_ctrue c then match tl with [] => Some ([], Some [SAssign x v]) | _ => None end
      else match block_tail x tl with
           | Some (brs, els) => Some ((c, [SAssign x v]) :: brs, els)
           | None => None
           end
  end.
Definition print_block (x : id) (ps : list (cond * expr)) : option (list nmstmt) :=
  match ps with
  | (c0, v0) :: tl =>
      if is_ctrue c0 then None
      else match block_tail x tl with
           | Some (brs, els) => Some [NBlock ((c0, [SAssign x v0]) :: brs) els]
           | None => None
           end
  | [] => None
  end.

(* _translate_sympy_single: one logical IF per piece *)
Definition print_single (x : id) (ps : list (cond * expr)) : list nmstmt :=
  map (fun cv => NS (SIf (fst cv) x (snd cv))) ps.

(* has_else = expression[-1][1] is true   (after the stripping) *)
Definition has_else (ps : list (cond * expr)) : bool :=
  match last_opt ps with Some (c, _) => is_ctrue c | None => false end.
(* all(len(e.args) == 0 for e in expressions) and not has_else *)
Definition single_form (ps : list (cond * expr)) : bool :=
  forallb (fun cv => is_atom (snd cv)) ps && negb (has_else ps).

Definition stripped_ps (D : list id) (x : id) (ps0 : list (cond * expr)) : list (cond * expr) :=
  if has_added_else D x ps0 then removelast ps0 else ps0.

Definition print_piecewise (D : list id) (x : id) (ps0 : list (cond * expr)) : option (list nmstmt) :=
  let ps := stripped_ps D x ps0 in
  match ps with
  | [] => None                                     (* expression[-1] : IndexError *)
  | [(c, v)] => if is_ctrue c then None            (* 'IF (True) X = ..' does not parse *)
                else Some [NS (SIf c x v)]
  | _ => if single_form ps then Some (print_single x ps) else print_block x ps
  end.

(* nmtran_assignment_string(assignment, defined_symbols, rvs, trans), for an Assignment X = e.
   None = the text is not readable NM-TRAN (only for shapes sympy never builds).  Expressions are printed
   by NMTranPrinter / sympy's StrPrinter, an engine validated by the reference reader on every output
   (fixes 08b5390, 09fcba7: two-argument functions and 1/f(x) are printed like everything else).
   (The `sign` special case is not modelled: expressions containing sign() are outside the model.) *)
Definition print_stmt (D : list id) (x : id) (e : expr) : option (list nmstmt) :=
  if is_pw e then print_piecewise D x (pieces e) else Some [NS (SAssign x e)].

(* ---- guards ------------------------------------------------------------------------------- *)
Definition conds_of (ps : list (cond * expr)) : list cond := map fst ps.
Definition stripped (D : list id) (x : id) (e : expr) : list (cond * expr) := stripped_ps D x (pieces e).

(* the printer chooses the several-logical-IFs form *)
Definition several_ifs (D : list id) (x : id) (e : expr) : bool :=
  is_pw e && (2 <=? length (stripped D x e)) && single_form (stripped D x e).

(* which form the printer chooses: 0 plain, 1 one logical IF, 2 several logical IFs, 3 block, 4 none *)
Definition print_form (D : list id) (x : id) (e : expr) : nat :=
  match print_stmt D x e with
  | Some [NS (SAssign _ _)] => 0
  | Some [NS (SIf _ _ _)] => 1
  | Some [NBlock _ _] => 3
  | Some _ => 2
  | None => 4
  end.

(* number of conditions that hold at r; None if one of them cannot be evaluated *)
Fixpoint count_true (fi : finterp) (r : env) (cs : list cond) : option nat :=
  match cs with
  | [] => Some 0
  | c :: tl =>
      match evalc r fi c, count_true fi r tl with
      | Some b, Some n => Some (if b then S n else n)
      | _, _ => None
      end
  end.

(* g_wf: the expression is a sympy Piecewise as sym2coq exports it (the chain ends in PwNil) or
   not a Piecewise at all — a fact about the representation, not about the code. *)
Fixpoint pw_tail_nil (e : expr) : bool :=
  match e with PwCons _ _ rest => pw_tail_nil rest | PwNil => true | _ => false end.
Definition g_wf (e : expr) : bool := if is_pw e then pw_tail_nil e else true.

(* g_self_free: in the several-logical-IFs form the assigned symbol does not occur in a condition
   (a later IF would otherwise see the value assigned by an earlier one). *)
Definition g_self_free (D : list id) (x : id) (e : expr) : bool :=
  if several_ifs D x e then negb (memp x (flat_map free_symsc (conds_of (stripped D x e)))) else true.

(* g_disjoint: in the several-logical-IFs form all conditions can be evaluated at the point and at
   most one of them holds (NM-TRAN executes every IF: the LAST true one wins; Piecewise: the FIRST). *)
Definition g_disjoint (fi : finterp) (r : env) (D : list id) (x : id) (e : expr) : bool :=
  if several_ifs D x e
  then match count_true fi r (conds_of (stripped D x e)) with
       | Some n => n <=? 1
       | None => false
       end
  else true.

(* g_zero_fresh: when the printer drops a final (0, True) piece because the symbol is "not defined"
   (not in D), the variable must really be zero at this point (NM-TRAN: a variable that is only
   conditionally assigned is 0 when no condition holds).  [D] is what the printer believes is
   defined — the symbols assigned earlier IN THE SAME RECORD; the conjunct compares that belief
   with the actual state. *)
Definition drops_zero_else (D : list id) (x : id) (e : expr) : bool :=
  is_pw e &&
  match last_opt (pieces e) with
  | Some (c, v) => is_ctrue c && negb (is_sym x v) && is_zero v && negb (memp x D)
  | None => false
  end.
Definition oq_is_zero (v : option Q) : bool := match v with Some q => Qeq_bool q 0 | None => false end.
Definition g_zero_fresh (r : env) (D : list id) (x : id) (e : expr) : bool :=
  if drops_zero_else D x e then oq_is_zero (r x) else true.

Definition guard_print (fi : finterp) (r : env) (D : list id) (x : id) (e : expr) : bool :=
  g_wf e && g_self_free D x e && g_disjoint fi r D x e && g_zero_fresh r D x e.

(* g_sympy: what sympy guarantees about a Piecewise it has constructed (a True condition only in the
   last piece and never alone) — a fact about inputs, used to show the printer total *)
Definition g_sympy (e : expr) : bool :=
  if is_pw e then
    let ps := pieces e in
    pw_tail_nil e && forallb (fun cv => negb (is_ctrue (fst cv))) (removelast ps) &&
    ((2 <=? length ps) || match ps with (c, _) :: _ => negb (is_ctrue c) | [] => false end)
  else true.

(* A syntactic sufficient condition for g_disjoint at EVERY point: all conditions are equalities of
   one and the same symbol with pairwise different numbers (what categorical covariate effects
   generate). *)
Definition eq_const (c : cond) : option (id * Q) :=
  match c with
  | CRel OEq (Sym s) (Num q) => Some (s, q)
  | _ => None
  end.
Fixpoint all_eq_consts (s : id) (cs : list cond) : option (list Q) :=
  match cs with
  | [] => Some []
  | c :: tl => match eq_const c, all_eq_consts s tl with
               | Some (s', q), Some l => if Pos.eqb s' s then Some (q :: l) else None
               | _, _ => None
               end
  end.
Fixpoint q_nodup (l : list Q) : bool :=
  match l with
  | [] => true
  | q :: tl => negb (existsb (Qeq_bool q) tl) && q_nodup tl
  end.
Definition syn_disjoint (cs : list cond) : bool :=
  match cs with
  | [] => true
  | c :: _ => match eq_const c with
              | Some (s, _) => match all_eq_consts s cs with Some l => q_nodup l | None => false end
              | None => false
              end
  end.

