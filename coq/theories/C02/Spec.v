(* PV.C02.Spec — the part of NONMEM's PREDPP definitions the translation validation needs, written
   from the NONMEM Users Guide (ADVAN / TRANS definitions, $MODEL defaults).  These tables are
   SPECIFICATION (trusted, short, to be audited by the reader); nothing here is derived from pharmpy.

   Reserved PK-parameter symbols have fixed identifiers (mirrored by RESERVED in harness/props/c02.py). *)
From Coq Require Import QArith List Bool PArith Arith.
From PV Require Import Base.Expr.
Import ListNotations.
Local Open Scope nat_scope.

Definition P_K : id := 1%positive.    Definition P_KA : id := 2%positive.
Definition P_CL : id := 3%positive.   Definition P_V : id := 4%positive.
Definition P_Q : id := 5%positive.    Definition P_VSS : id := 6%positive.
Definition P_V1 : id := 7%positive.   Definition P_V2 : id := 8%positive.
Definition P_V3 : id := 9%positive.   Definition P_V4 : id := 10%positive.
Definition P_Q2 : id := 11%positive.  Definition P_Q3 : id := 12%positive.
Definition P_Q4 : id := 13%positive.
Definition P_K12 : id := 14%positive. Definition P_K21 : id := 15%positive.
Definition P_K13 : id := 16%positive. Definition P_K31 : id := 17%positive.
Definition P_K23 : id := 18%positive. Definition P_K32 : id := 19%positive.
Definition P_K24 : id := 20%positive. Definition P_K42 : id := 21%positive.
Definition P_F : id := 22%positive.   Definition P_T : id := 23%positive.
Definition P_ALPHA : id := 24%positive. Definition P_BETA : id := 25%positive.
Definition P_GAMMA : id := 26%positive. Definition P_AOB : id := 27%positive.

Definition flow := (nat * nat * expr)%type.     (* from compartment, to compartment (0 = output), rate constant *)
Definition Sy (x : id) := Sym x.
Definition over (a b : id) := Div (Sym a) (Sym b).

(* ADVAN1: one compartment (1 = central).  ADVAN2: 1 = depot, 2 = central.
   ADVAN3: 1 = central, 2 = peripheral.  ADVAN4: 1 = depot, 2 = central, 3 = peripheral.
   ADVAN11: 1 = central, 2, 3 = peripherals.  ADVAN12: 1 = depot, 2 = central, 3, 4 = peripherals.
   TRANS1: micro constants.  TRANS2: CL, V.  TRANS3: CL, V, Q, VSS.  TRANS4: CL, V1.., Q... *)
Definition advan_flows (advan trans : nat) : option (list flow) :=
  match advan, trans with
  | 1, 1 => Some [(1, 0, Sy P_K)]
  | 1, 2 => Some [(1, 0, over P_CL P_V)]
  | 2, 1 => Some [(1, 2, Sy P_KA); (2, 0, Sy P_K)]
  | 2, 2 => Some [(1, 2, Sy P_KA); (2, 0, over P_CL P_V)]
  | 3, 1 => Some [(1, 0, Sy P_K); (1, 2, Sy P_K12); (2, 1, Sy P_K21)]
  | 3, 3 => Some [(1, 0, over P_CL P_V); (1, 2, over P_Q P_V);
                  (2, 1, Div (Sy P_Q) (Add (Sy P_VSS) (Neg (Sy P_V))))]
  | 3, 4 => Some [(1, 0, over P_CL P_V1); (1, 2, over P_Q P_V1); (2, 1, over P_Q P_V2)]
  | 4, 1 => Some [(1, 2, Sy P_KA); (2, 0, Sy P_K); (2, 3, Sy P_K23); (3, 2, Sy P_K32)]
  | 4, 3 => Some [(1, 2, Sy P_KA); (2, 0, over P_CL P_V); (2, 3, over P_Q P_V);
                  (3, 2, Div (Sy P_Q) (Add (Sy P_VSS) (Neg (Sy P_V))))]
  | 4, 4 => Some [(1, 2, Sy P_KA); (2, 0, over P_CL P_V2); (2, 3, over P_Q P_V2); (3, 2, over P_Q P_V3)]
  | 11, 1 => Some [(1, 0, Sy P_K); (1, 2, Sy P_K12); (2, 1, Sy P_K21); (1, 3, Sy P_K13); (3, 1, Sy P_K31)]
  | 11, 4 => Some [(1, 0, over P_CL P_V1); (1, 2, over P_Q2 P_V1); (2, 1, over P_Q2 P_V2);
                   (1, 3, over P_Q3 P_V1); (3, 1, over P_Q3 P_V3)]
  | 12, 1 => Some [(1, 2, Sy P_KA); (2, 0, Sy P_K); (2, 3, Sy P_K23); (3, 2, Sy P_K32);
                   (2, 4, Sy P_K24); (4, 2, Sy P_K42)]
  | 12, 4 => Some [(1, 2, Sy P_KA); (2, 0, over P_CL P_V2); (2, 3, over P_Q3 P_V2); (3, 2, over P_Q3 P_V3);
                   (2, 4, over P_Q4 P_V2); (4, 2, over P_Q4 P_V4)]
  | _, _ => None
  end.

Definition advan_ncomp (advan : nat) : option nat :=
  match advan with
  | 1 => Some 1 | 2 => Some 2 | 3 => Some 2 | 4 => Some 3 | 10 => Some 1 | 11 => Some 3 | 12 => Some 4
  | _ => None end.

(* default dose / observation compartments of the specific ADVANs *)
Definition advan_defdose (advan : nat) : option nat :=
  match advan with 1 | 2 | 3 | 4 | 10 | 11 | 12 => Some 1 | _ => None end.
Definition advan_defobs (advan : nat) : option nat :=
  match advan with 1 | 3 | 10 | 11 => Some 1 | 2 | 4 | 12 => Some 2 | _ => None end.

(* general linear / general nonlinear models need $MODEL ($DES for the nonlinear ones) *)
Definition is_general_linear (advan : nat) : bool := match advan with 5 | 7 => true | _ => false end.
Definition is_des_advan (advan : nat) : bool :=
  match advan with 6 | 8 | 9 | 13 | 14 | 15 | 16 | 17 | 18 => true | _ => false end.

(* the PK parameters each ADVAN/TRANS reads (besides S<n>, F<n>, ALAG<n>, R<n>, D<n>) *)
Definition param_names (advan trans : nat) : list id :=
  match advan, trans with
  | 1, 1 => [P_K]
  | 1, 2 => [P_CL; P_V]
  | 2, 1 => [P_K; P_KA]
  | 2, 2 => [P_CL; P_V; P_KA]
  | 3, 1 => [P_K; P_K12; P_K21]
  | 3, 3 => [P_CL; P_V; P_Q; P_VSS]
  | 3, 4 => [P_CL; P_V1; P_Q; P_V2]
  | 4, 1 => [P_K; P_K23; P_K32; P_KA]
  | 4, 3 => [P_CL; P_V; P_Q; P_VSS; P_KA]
  | 4, 4 => [P_CL; P_V2; P_Q; P_V3; P_KA]
  | 11, 1 => [P_K; P_K12; P_K21; P_K13; P_K31]
  | 11, 4 => [P_CL; P_V1; P_Q2; P_V2; P_Q3; P_V3]
  | 12, 1 => [P_K; P_K23; P_K32; P_K24; P_K42; P_KA]
  | 12, 4 => [P_CL; P_V2; P_Q3; P_V3; P_Q4; P_V4; P_KA]
  (* TRANS5: AOB, ALPHA, BETA; TRANS6: ALPHA, BETA(, GAMMA) and the peripheral-to-central constants *)
  | 3, 5 => [P_AOB; P_ALPHA; P_BETA]
  | 3, 6 => [P_ALPHA; P_BETA; P_K21]
  | 4, 5 => [P_AOB; P_ALPHA; P_BETA; P_KA]
  | 4, 6 => [P_ALPHA; P_BETA; P_K32; P_KA]
  | 11, 6 => [P_ALPHA; P_BETA; P_GAMMA; P_K21; P_K31]
  | 12, 6 => [P_ALPHA; P_BETA; P_GAMMA; P_K32; P_K42; P_KA]
  | _, _ => []
  end.

(* the TRANS values each ADVAN accepts (TRANS5/6 exist for ADVAN3/4/11/12 but are outside the tables above) *)
Definition valid_trans (advan trans : nat) : bool :=
  match advan, trans with
  | (1 | 2), (1 | 2) => true
  | (3 | 4), (1 | 3 | 4 | 5 | 6) => true
  | (11 | 12), (1 | 4 | 6) => true
  | (5 | 7), 1 => true
  | _, _ => false
  end.

(* the role a parameter name plays, independent of the compartment numbering:
   what a rename across ADVANs has to preserve *)
Inductive role :=
| RCl | RVc | RVp (k : nat) | RQp (k : nat) | RKel | RKa | RKcp (k : nat) | RKpc (k : nat) | RVss
| RAlpha | RBeta | RGamma | RAob.

Definition role_eqb (a b : role) : bool :=
  match a, b with
  | RCl, RCl | RVc, RVc | RKel, RKel | RKa, RKa | RVss, RVss
  | RAlpha, RAlpha | RBeta, RBeta | RGamma, RGamma | RAob, RAob => true
  | RVp i, RVp j | RQp i, RQp j | RKcp i, RKcp j | RKpc i, RKpc j => Nat.eqb i j
  | _, _ => false
  end.

Definition ideq (a b : id) : bool := Pos.eqb a b.

Definition role_of (advan trans : nat) (x : id) : option role :=
  let has_depot := match advan with 2 | 4 | 12 => true | _ => false end in
  if ideq x P_CL then Some RCl
  else if ideq x P_KA then Some RKa
  else if ideq x P_K then Some RKel
  else if ideq x P_VSS then Some RVss
  else if ideq x P_ALPHA then Some RAlpha else if ideq x P_BETA then Some RBeta
  else if ideq x P_GAMMA then Some RGamma else if ideq x P_AOB then Some RAob
  else if ideq x P_V then Some RVc
  else if ideq x P_Q then Some (RQp 1)
  else match advan with
       | 3 | 11 =>
           if ideq x P_V1 then Some RVc
           else if ideq x P_V2 then Some (RVp 1) else if ideq x P_V3 then Some (RVp 2)
           else if ideq x P_Q2 then Some (RQp 1) else if ideq x P_Q3 then Some (RQp 2)
           else if ideq x P_K12 then Some (RKcp 1) else if ideq x P_K21 then Some (RKpc 1)
           else if ideq x P_K13 then Some (RKcp 2) else if ideq x P_K31 then Some (RKpc 2)
           else None
       | 4 | 12 =>
           if ideq x P_V2 then Some RVc
           else if ideq x P_V3 then Some (RVp 1) else if ideq x P_V4 then Some (RVp 2)
           else if ideq x P_Q3 then Some (RQp 1) else if ideq x P_Q4 then Some (RQp 2)
           else if ideq x P_K23 then Some (RKcp 1) else if ideq x P_K32 then Some (RKpc 1)
           else if ideq x P_K24 then Some (RKcp 2) else if ideq x P_K42 then Some (RKpc 2)
           else None
       | _ => None
       end.
