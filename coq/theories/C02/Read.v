(* PV.C02.Read — the reference READER of NM-TRAN abbreviated code, in Coq: from the token sequence of
   $PK / $PRED / $ERROR / $DES text to the [nmstmt] AST run by [nm_exec]; and a reference EMITTER
   (fully parenthesised) used to state that the reader inverts printing.  No proofs here.
   The tokens are produced by the tokenizer of harness/props/c02_nm.py (lexical work only: comments,
   continuation lines, case folding, numbers, names -> identifiers, THETA(1)-style subscripted variables,
   keywords, operator spelling .GT. / >, one KNl per logical line).
   Fortran rules implemented here: ** binds tighter than unary minus and is right associative; * / and
   + - are left associative; relational operators bind looser than arithmetic; .NOT. > .AND. > .OR.;
   IF (c) X = e is a logical IF; IF (c) THEN ... [ELSE IF (c) THEN ...] [ELSE ...] END IF a block. *)
From Coq Require Import QArith List Bool PArith Arith.
From PV Require Import Base.Expr C02.Model.
Import ListNotations.
Local Open Scope nat_scope.

Inductive tok :=
| KNum (q : Q) | KSym (x : id) | KFn (g : id)
| KPlus | KMinus | KTimes | KDiv | KPow | KLp | KRp | KComma
| KRel (o : relop) | KAnd | KOr | KNot
| KIf | KThen | KElse | KElseIf | KEndIf | KEq | KNl.

(* Ok value rest | Fail (not in the language) | Fuel (recursion budget exhausted: never a verdict) *)
Inductive res (A : Type) := Ok (a : A) (rest : list tok) | Fail | Fuel.
Arguments Ok {A} a rest. Arguments Fail {A}. Arguments Fuel {A}.
Definition bind {A B} (r : res A) (k : A -> list tok -> res B) : res B :=
  match r with Ok a rest => k a rest | Fail => Fail | Fuel => Fuel end.

Definition F_POW : id := 5%positive.

(* ---- arithmetic ---- *)
Fixpoint p_expr (f : nat) (ts : list tok) : res expr :=
  match f with
  | 0 => Fuel
  | S f' =>
      match ts with
      | KMinus :: tl => bind (p_term f' tl) (fun t rest => p_eloop f' (Neg t) rest)
      | KPlus :: tl => bind (p_term f' tl) (fun t rest => p_eloop f' t rest)
      | _ => bind (p_term f' ts) (fun t rest => p_eloop f' t rest)
      end
  end
with p_eloop (f : nat) (acc : expr) (ts : list tok) : res expr :=
  match f with
  | 0 => Fuel
  | S f' =>
      match ts with
      | KPlus :: tl => bind (p_term f' tl) (fun t rest => p_eloop f' (Add acc t) rest)
      | KMinus :: tl => bind (p_term f' tl) (fun t rest => p_eloop f' (Add acc (Neg t)) rest)
      | _ => Ok acc ts
      end
  end
with p_term (f : nat) (ts : list tok) : res expr :=
  match f with
  | 0 => Fuel
  | S f' => bind (p_factor f' ts) (fun a rest => p_tloop f' a rest)
  end
with p_tloop (f : nat) (acc : expr) (ts : list tok) : res expr :=
  match f with
  | 0 => Fuel
  | S f' =>
      match ts with
      | KTimes :: tl => bind (p_factor f' tl) (fun t rest => p_tloop f' (Mul acc t) rest)
      | KDiv :: tl => bind (p_factor f' tl) (fun t rest => p_tloop f' (Div acc t) rest)
      | _ => Ok acc ts
      end
  end
with p_factor (f : nat) (ts : list tok) : res expr :=
  match f with
  | 0 => Fuel
  | S f' =>
      bind (p_primary f' ts) (fun b rest =>
        match rest with
        | KPow :: KMinus :: tl => bind (p_factor f' tl) (fun e rest' => Ok (Fn2 F_POW b (Neg e)) rest')
        | KPow :: KPlus :: tl => bind (p_factor f' tl) (fun e rest' => Ok (Fn2 F_POW b e) rest')
        | KPow :: tl => bind (p_factor f' tl) (fun e rest' => Ok (Fn2 F_POW b e) rest')
        | _ => Ok b rest
        end)
  end
with p_primary (f : nat) (ts : list tok) : res expr :=
  match f with
  | 0 => Fuel
  | S f' =>
      match ts with
      | KNum q :: tl => Ok (Num q) tl
      | KSym x :: tl => Ok (Sym x) tl
      | KLp :: tl => bind (p_expr f' tl) (fun e rest => match rest with KRp :: r => Ok e r | _ => Fail end)
      | KFn g :: KLp :: tl =>
          bind (p_expr f' tl) (fun a rest =>
            match rest with
            | KRp :: r => Ok (Fn1 g a) r
            | KComma :: r => bind (p_expr f' r) (fun b rest2 =>
                               match rest2 with KRp :: r2 => Ok (Fn2 g a b) r2 | _ => Fail end)
            | _ => Fail
            end)
      | _ => Fail
      end
  end.

(* ---- conditions ---- *)
Definition p_rel (f : nat) (ts : list tok) : res cond :=
  bind (p_expr f ts) (fun a rest =>
    match rest with
    | KRel o :: tl => bind (p_expr f tl) (fun b r => Ok (CRel o a b) r)
    | _ => Fail
    end).

Fixpoint p_cor (f : nat) (ts : list tok) : res cond :=
  match f with
  | 0 => Fuel
  | S f' => bind (p_cand f' ts) (fun c rest =>
              match rest with
              | KOr :: tl => bind (p_cor f' tl) (fun d r => Ok (COr c d) r)
              | _ => Ok c rest
              end)
  end
with p_cand (f : nat) (ts : list tok) : res cond :=
  match f with
  | 0 => Fuel
  | S f' => bind (p_cnot f' ts) (fun c rest =>
              match rest with
              | KAnd :: tl => bind (p_cand f' tl) (fun d r => Ok (CAnd c d) r)
              | _ => Ok c rest
              end)
  end
with p_cnot (f : nat) (ts : list tok) : res cond :=
  match f with
  | 0 => Fuel
  | S f' =>
      match ts with
      | KNot :: tl => bind (p_cnot f' tl) (fun c r => Ok (CNot c) r)
      | _ =>
          match p_rel f' ts with
          | Ok c r => Ok c r
          | Fuel => Fuel
          | Fail =>          (* not a relation: a parenthesised condition *)
              match ts with
              | KLp :: tl => bind (p_cor f' tl) (fun c rest => match rest with KRp :: r => Ok c r | _ => Fail end)
              | _ => Fail
              end
          end
      end
  end.

(* ---- statements ---- *)
Definition p_simple (f : nat) (ts : list tok) : res simple :=
  match ts with
  | KSym x :: KEq :: tl =>
      bind (p_expr f tl) (fun e rest => match rest with KNl :: r => Ok (SAssign x e) r | _ => Fail end)
  | KIf :: KLp :: tl =>
      bind (p_cor f tl) (fun c rest =>
        match rest with
        | KRp :: KSym x :: KEq :: tl2 =>
            bind (p_expr f tl2) (fun e rest2 => match rest2 with KNl :: r => Ok (SIf c x e) r | _ => Fail end)
        | _ => Fail
        end)
  | _ => Fail
  end.

Definition ends_body (ts : list tok) : bool :=
  match ts with (KElse | KElseIf | KEndIf) :: _ => true | _ => false end.

Fixpoint p_body (n f : nat) (ts : list tok) : res (list simple) :=
  if ends_body ts then Ok [] ts
  else match n with
       | 0 => Fuel
       | S n' => bind (p_simple f ts) (fun s rest => bind (p_body n' f rest) (fun l r => Ok (s :: l) r))
       end.

Definition branches := (list (cond * list simple) * option (list simple))%type.

Fixpoint p_branches (n f : nat) (ts : list tok) : res branches :=
  match n with
  | 0 => Fuel
  | S n' =>
      match ts with
      | KEndIf :: KNl :: r => Ok ([], None) r
      | KElse :: KNl :: tl =>
          bind (p_body n' f tl) (fun b rest =>
            match rest with KEndIf :: KNl :: r => Ok ([], Some b) r | _ => Fail end)
      | KElseIf :: KLp :: tl =>
          bind (p_cor f tl) (fun c rest =>
            match rest with
            | KRp :: KThen :: KNl :: tl2 =>
                bind (p_body n' f tl2) (fun b rest2 =>
                  bind (p_branches n' f rest2) (fun be r => Ok ((c, b) :: fst be, snd be) r))
            | _ => Fail
            end)
      | _ => Fail
      end
  end.

Definition p_stmt (n f : nat) (ts : list tok) : res nmstmt :=
  match ts with
  | KIf :: KLp :: tl =>
      match p_cor f tl with
      | Ok c (KRp :: KThen :: KNl :: tl2) =>
          bind (p_body n f tl2) (fun b rest =>
            bind (p_branches n f rest) (fun be r => Ok (NBlock ((c, b) :: fst be) (snd be)) r))
      | Ok _ _ => bind (p_simple f ts) (fun s r => Ok (NS s) r)
      | Fail => Fail
      | Fuel => Fuel
      end
  | _ => bind (p_simple f ts) (fun s r => Ok (NS s) r)
  end.

Fixpoint p_prog (n f : nat) (ts : list tok) : res (list nmstmt) :=
  match ts with
  | [] => Ok [] []
  | _ => match n with
         | 0 => Fuel
         | S n' => bind (p_stmt n' f ts) (fun s rest => bind (p_prog n' f rest) (fun l r => Ok (s :: l) r))
         end
  end.

(* the reader: None = not abbreviated code of the supported language (or budget exhausted, which the
   budget below excludes for every input — see read_emit for the direction that is proved) *)
Definition read (ts : list tok) : option (list nmstmt) :=
  let n := S (length ts) in
  match p_prog n (6 * n) ts with
  | Ok l [] => Some l
  | _ => None
  end.

(* ---- reference emitter: every compound expression in parentheses ---- *)
Fixpoint emit_e (e : expr) : list tok :=
  match e with
  | Num q => [KNum q]
  | Sym x => [KSym x]
  | Neg a => KLp :: KMinus :: emit_e a ++ [KRp]
  | Add a b => KLp :: emit_e a ++ KPlus :: emit_e b ++ [KRp]
  | Mul a b => KLp :: emit_e a ++ KTimes :: emit_e b ++ [KRp]
  | Div a b => KLp :: emit_e a ++ KDiv :: emit_e b ++ [KRp]
  | Fn1 g a => KFn g :: KLp :: emit_e a ++ [KRp]
  | Fn2 g a b =>
      if Pos.eqb g F_POW then KLp :: emit_e a ++ KPow :: emit_e b ++ [KRp]
      else KFn g :: KLp :: emit_e a ++ KComma :: emit_e b ++ [KRp]
  | PwNil | PwCons _ _ _ => []          (* not expressions of abbreviated code *)
  end.

Fixpoint emit_c (c : cond) : list tok :=
  match c with
  | CRel o a b => emit_e a ++ KRel o :: emit_e b
  | CAnd a b => KLp :: emit_c a ++ [KRp] ++ KAnd :: KLp :: emit_c b ++ [KRp]
  | COr a b => KLp :: emit_c a ++ [KRp] ++ KOr :: KLp :: emit_c b ++ [KRp]
  | CNot a => KNot :: KLp :: emit_c a ++ [KRp]
  | CTrue | CFalse => []                (* not abbreviated code *)
  end.

Definition emit_simple (s : simple) : list tok :=
  match s with
  | SAssign x e => KSym x :: KEq :: emit_e e ++ [KNl]
  | SIf c x e => KIf :: KLp :: emit_c c ++ KRp :: KSym x :: KEq :: emit_e e ++ [KNl]
  end.
Definition emit_body (l : list simple) : list tok := flat_map emit_simple l.

Fixpoint emit_branches (brs : list (cond * list simple)) (els : option (list simple)) : list tok :=
  match brs with
  | [] => match els with
          | Some b => KElse :: KNl :: emit_body b ++ [KEndIf; KNl]
          | None => [KEndIf; KNl]
          end
  | (c, b) :: tl => KElseIf :: KLp :: emit_c c ++ KRp :: KThen :: KNl :: emit_body b ++ emit_branches tl els
  end.

Definition emit_stmt (s : nmstmt) : list tok :=
  match s with
  | NS x => emit_simple x
  | NBlock [] _ => []                   (* a block has at least one branch *)
  | NBlock ((c, b) :: tl) els =>
      KIf :: KLp :: emit_c c ++ KRp :: KThen :: KNl :: emit_body b ++ emit_branches tl els
  end.
Definition emit (l : list nmstmt) : list tok := flat_map emit_stmt l.

(* what can be emitted: expressions of abbreviated code (no Piecewise, non-negative numerals, the
   function symbol of a two-argument call is not the power operator's), conditions without literals,
   blocks with at least one branch *)
Fixpoint wf_e (e : expr) : bool :=
  match e with
  | Num q => (0 <=? Qnum q)%Z
  | Sym _ => true
  | Neg a | Fn1 _ a => wf_e a
  | Add a b | Mul a b | Div a b | Fn2 _ a b => wf_e a && wf_e b
  | PwNil | PwCons _ _ _ => false
  end.
Fixpoint wf_c (c : cond) : bool :=
  match c with
  | CRel _ a b => wf_e a && wf_e b
  | CAnd a b | COr a b => wf_c a && wf_c b
  | CNot a => wf_c a
  | CTrue | CFalse => false
  end.
Definition wf_simple (s : simple) : bool :=
  match s with SAssign _ e => wf_e e | SIf c _ e => wf_c c && wf_e e end.
Definition wf_stmt (s : nmstmt) : bool :=
  match s with
  | NS x => wf_simple x
  | NBlock brs els =>
      match brs with [] => false | _ => true end &&
      forallb (fun cb => wf_c (fst cb) && forallb wf_simple (snd cb)) brs &&
      match els with Some b => forallb wf_simple b | None => true end
  end.
Definition wf_prog (l : list nmstmt) : bool := forallb wf_stmt l.
