(* PV.C02.ProofsPrintSeq — a whole list of freshly printed assignments runs like the statement list. *)
From Coq Require Import QArith List Bool PArith Arith ZArith Lia.
From PV Require Import Base.PyData Base.Expr Base.Stmts C02.Model C02.ProofsPrint C02.PrintSeq.
Import ListNotations.
Local Open Scope nat_scope.

Definition env_eq (a b : env) : Prop := forall y, a y = b y.

Lemma q_same_eq a b : q_same a b = true -> a = b.
Proof.
  unfold q_same. intro H. apply andb_prop in H. destruct H as [H1 H2].
  apply Z.eqb_eq in H1. apply Pos.eqb_eq in H2. destruct a, b; cbn in *; subst; reflexivity.
Qed.

Section P.
  Variable fi : finterp.

  Lemma eval_ext r1 r2 e : env_eq r1 r2 -> eval r1 fi e = eval r2 fi e.
  Proof. intro H. apply eval_coincidence. intros y _. apply H. Qed.
  Lemma evalc_ext r1 r2 c : env_eq r1 r2 -> evalc r1 fi c = evalc r2 fi c.
  Proof. intro H. apply (proj2 (coincidence fi r1 r2)). intros y _. apply H. Qed.
  Lemma upd_ext r1 r2 x v : env_eq r1 r2 -> env_eq (upd r1 x v) (upd r2 x v).
  Proof. intros H y. unfold upd. destruct (Pos.eqb y x); [reflexivity | apply H]. Qed.

  (* results of running the same code in pointwise equal states *)
  Definition res_eq (a b : option env) : Prop :=
    match a, b with Some x, Some y => env_eq x y | None, None => True | _, _ => False end.

  Lemma exec_simple_ext r1 r2 s : env_eq r1 r2 -> res_eq (exec_simple fi r1 s) (exec_simple fi r2 s).
  Proof.
    intro H. destruct s as [x e | c x e]; cbn [exec_simple].
    - cbn [res_eq]. rewrite (eval_ext r1 r2 e H). apply upd_ext. exact H.
    - rewrite (evalc_ext r1 r2 c H). destruct (evalc r2 fi c) as [[|]|]; cbn [res_eq]; try exact I; try exact H.
      rewrite (eval_ext r1 r2 e H). apply upd_ext. exact H.
  Qed.

  Lemma exec_simples_ext l : forall r1 r2, env_eq r1 r2 -> res_eq (exec_simples fi r1 l) (exec_simples fi r2 l).
  Proof.
    induction l as [|s tl IH]; intros r1 r2 H; cbn [exec_simples]; [exact H|].
    pose proof (exec_simple_ext r1 r2 s H) as Hs.
    destruct (exec_simple fi r1 s) as [a|], (exec_simple fi r2 s) as [b|]; cbn [res_eq] in Hs; try contradiction.
    - apply IH. exact Hs.
    - exact I.
  Qed.

  Lemma exec_branches_ext brs els : forall r1 r2, env_eq r1 r2 ->
    res_eq (exec_branches fi r1 brs els) (exec_branches fi r2 brs els).
  Proof.
    induction brs as [|[c body] tl IH]; intros r1 r2 H; cbn [exec_branches].
    - destruct els; [apply exec_simples_ext; exact H | exact H].
    - rewrite (evalc_ext r1 r2 c H). destruct (evalc r2 fi c) as [[|]|]; [apply exec_simples_ext; exact H | apply IH; exact H | exact I].
  Qed.

  Lemma nm_exec_ext l : forall r1 r2, env_eq r1 r2 -> res_eq (nm_exec fi r1 l) (nm_exec fi r2 l).
  Proof.
    induction l as [|s tl IH]; intros r1 r2 H; cbn [nm_exec]; [exact H|].
    assert (Hs : res_eq (nm_exec1 fi r1 s) (nm_exec1 fi r2 s)).
    { destruct s; cbn [nm_exec1]; [apply exec_simple_ext | apply exec_branches_ext]; exact H. }
    destruct (nm_exec1 fi r1 s) as [a|], (nm_exec1 fi r2 s) as [b|]; cbn [res_eq] in Hs; try contradiction.
    - apply IH. exact Hs.
    - exact I.
  Qed.

  Lemma nm_exec_app a : forall r b,
    nm_exec fi r (a ++ b) = match nm_exec fi r a with Some r' => nm_exec fi r' b | None => None end.
  Proof.
    induction a as [|s tl IH]; intros r b; cbn [app nm_exec]; [reflexivity|].
    destruct (nm_exec1 fi r s); [apply IH | reflexivity].
  Qed.

  (* one statement, exact version of print_sound *)
  Lemma print_sound_exact D x e r l v :
    print_stmt D x e = Some l -> guard_print_exact fi r D x e = true -> eval r fi e = Some v ->
    exists r', nm_exec fi r l = Some r' /\ env_eq r' (upd r x (Some v)).
  Proof.
    intros Hp Hg He. unfold guard_print_exact in Hg.
    apply andb_prop in Hg; destruct Hg as [Hg Hz].
    apply andb_prop in Hg; destruct Hg as [Hg Hd].
    apply andb_prop in Hg; destruct Hg as [Hw Hs].
    destruct (is_pw e) eqn:Hpw.
    - unfold g_wf in Hw. rewrite Hpw in Hw.
      pose proof (print_stripped_exec fi r D x e l Hpw Hp Hs Hd) as Hx.
      rewrite <- (of_pieces_pieces e Hw), eval_of_pieces in He.
      unfold stripped, stripped_ps in Hx.
      destruct (has_added_else D x (pieces e)) eqn:Ha.
      + unfold has_added_else in Ha.
        destruct (last_opt (pieces e)) as [[cl w]|] eqn:El; [|discriminate].
        apply andb_prop in Ha; destruct Ha as [Hc Hv].
        destruct cl; try discriminate.
        rewrite (last_opt_split _ _ El), pw_sel_snoc in He.
        destruct (pw_sel fi r (removelast (pieces e))) as [[w'|]|] eqn:Esel.
        * cbn [sel_value] in He. cbn [after] in Hx. eexists; split; [exact Hx|]. rewrite He. intro y; reflexivity.
        * cbn [sel_value] in He. cbn [after] in Hx. exists r; split; [exact Hx|].
          assert (Hrx : r x = Some v).
          { destruct (is_sym x w) eqn:Esym.
            - destruct w; try discriminate. cbn [is_sym] in Esym. apply Pos.eqb_eq in Esym; subst. exact He.
            - cbn [orb] in Hv. apply andb_prop in Hv; destruct Hv as [Hz0 HD].
              unfold g_zero_exact, drops_zero_else in Hz. rewrite Hpw, El in Hz.
              cbn [is_ctrue andb] in Hz. rewrite Esym, Hz0, HD in Hz. cbn [negb andb] in Hz.
              destruct (r x) as [q|] eqn:Erx; [|discriminate].
              destruct w; try discriminate. apply q_same_eq in Hz. subst. cbn [eval] in He. exact He. }
          intro y. unfold upd. destruct (Pos.eqb y x) eqn:E; [|reflexivity].
          apply Pos.eqb_eq in E; subst. exact Hrx.
        * discriminate.
      + destruct (pw_sel fi r (pieces e)) as [[w'|]|] eqn:Esel; try discriminate.
        cbn [sel_value] in He. cbn [after] in Hx. eexists; split; [exact Hx|]. rewrite He. intro y; reflexivity.
    - unfold print_stmt in Hp. rewrite Hpw in Hp. inversion Hp; subst.
      cbn [nm_exec nm_exec1 exec_simple]. eexists; split; [reflexivity|]. rewrite He. intro y; reflexivity.
  Qed.

  (* the whole list *)
  Lemma print_all_sound_lemma (ode : id -> list (option Q) -> option Q) : forall l D r code,
    print_all D l = Some code -> guards_all fi r D l = true ->
    exists r', nm_exec fi r code = Some r' /\ env_eq r' (exec fi ode r l).
  Proof.
    induction l as [|st tl IH]; intros D r code Hp Hg.
    - cbn in Hp. inversion Hp; subst. exists r. split; [reflexivity | intro y; reflexivity].
    - destruct st as [x e | am rh]; [|discriminate Hp].
      cbn [print_all] in Hp. destruct (print_stmt D x e) as [a|] eqn:Ea; [|discriminate].
      destruct (print_all (x :: D) tl) as [b|] eqn:Eb; [|discriminate]. inversion Hp; subst code.
      cbn [guards_all] in Hg. apply andb_prop in Hg. destruct Hg as [Hg Htl].
      apply andb_prop in Hg. destruct Hg as [Hg1 Hdef].
      destruct (eval r fi e) as [v|] eqn:Ev; [|discriminate Hdef].
      destruct (print_sound_exact D x e r a v Ea Hg1 Ev) as [r1 [H1 E1]].
      destruct (IH (x :: D) (upd r x (Some v)) b Eb Htl) as [r2 [H2 E2]].
      rewrite nm_exec_app, H1.
      pose proof (nm_exec_ext b r1 (upd r x (Some v)) E1) as Hext. rewrite H2 in Hext.
      destruct (nm_exec fi r1 b) as [r3|]; cbn [res_eq] in Hext; [|contradiction].
      exists r3. split; [reflexivity|]. intro y. rewrite (Hext y), (E2 y).
      cbn [exec exec1]. rewrite Ev. reflexivity.
  Qed.
End P.
