(* PV.C02.KeepText — executable model of the node bookkeeping of CodeRecord.update_statements:
   which parse-tree nodes (source text) of the record survive an update.  No proofs here. *)
From Coq Require Import List Bool Arith Lia.
From PV Require Import C02.Lcs C02.IndexDiff.
Import ListNotations.
Local Open Scope nat_scope.

Section KT.
  Variable A : Type.      (* statements *)
  Variable N : Type.      (* parse-tree nodes of the record (statement nodes, comments, blank lines) *)
  Variable gen : A -> list N.     (* _statement_to_nodes: nodes of the freshly printed statement *)

  Definition slice (l : list N) (i j : nat) : list N := firstn (j - i) (skipn i l).   (* l[i:j] *)

  (* for op, statements, ni, nj in _index_statements_diff(...):
         new_children.extend(children[last_node_index:ni])
         op == 1: generated nodes of every statement; op == 0: children[ni:nj]; op == -1: nothing
         last_node_index = nj
     new_children.extend(children[last_node_index:]) *)
  Fixpoint build (children : list N) (last : nat) (es : list (oentry A)) : list N :=
    match es with
    | [] => skipn last children
    | (o, stmts, ni, nj) :: tl =>
        slice children last ni ++
        match o with Ins => flat_map gen stmts | Keep => slice children ni nj | Del => [] end ++
        build children nj tl
    end.

  Definition new_children (children : list N) (es : list (oentry A)) : list N := build children 0 es.

  Definition infix (a l : list N) : Prop := exists p s, l = p ++ a ++ s.

  (* which entries are Keep: exactly the index groups all of whose statements the diff keeps *)
  Definition keep_entries (es : list (oentry A)) : list (oentry A) :=
    filter (fun e => let '(o, _, _, _) := e in is_keep o) es.
  Definition kept_statements (es : list (oentry A)) : list A :=
    flat_map (fun e => let '(_, st, _, _) := e in st) (keep_entries es).

  (* when every statement has its own node group, the statements that keep their nodes are exactly the
     Keep operations of the script *)
  Definition singleton_index (index : list ientry) : bool :=
    forallb (fun e => let '(_, _, si, sj) := e in sj =? S si) index.

End KT.

Arguments build {A N}. Arguments new_children {A N}. Arguments infix {N}. Arguments slice {N}.
Arguments kept_statements {A}. Arguments keep_entries {A}.
