(* PV.C02.Properties — the property theorems of C02 and nothing else. *)
From Coq Require Import QArith List Bool PArith Arith Lia.
From PV Require Import Base.PyData Base.Expr Base.Stmts C02.Model C02.CondPrint C02.ProofsLcs C02.ProofsLcsOpt
  C02.ProofsPrint C02.ProofsPrint2 C02.ProofsCond C02.Remap C02.ProofsRemap C02.PrintSeq C02.ProofsPrintSeq
  C02.IndexDiff C02.ProofsIndexDiff C02.KeepText C02.ProofsKeepText C02.Read C02.ProofsRead
  C02.ProofsReadE C02.ProofsReadC C02.ProofsReadS C02.KRename C02.ProofsKRename C02.ScaleTrack C02.ProofsScaleTrack.

(* ---------------- lcs.diff (used by CodeRecord.update_statements) ---------------------------- *)
(* Applying the edit script computed for (old, new) to old gives new — for all lists over any type
   with a decidable equality, whatever their length. *)
Theorem diff_correct :
  forall (A : Type) (eqb : A -> A -> bool), (forall x y, eqb x y = true <-> x = y) ->
  forall old new : list A, apply_script eqb (diff eqb old new) old = Some new.
Proof. exact diff_correct_lemma. Qed.

(* The script spells both lists: its Keep+Del entries are old, its Keep+Ins entries are new, in order. *)
Theorem diff_spells_both :
  forall (A : Type) (eqb : A -> A -> bool), (forall x y, eqb x y = true <-> x = y) ->
  forall old new : list A, old_of (diff eqb old new) = old /\ new_of (diff eqb old new) = new.
Proof. exact diff_spells. Qed.

(* The kept elements (the statements whose source text update_statements preserves) are a common
   subsequence of old and new. *)
Theorem diff_kept_common_subsequence :
  forall (A : Type) (eqb : A -> A -> bool), (forall x y, eqb x y = true <-> x = y) ->
  forall old new : list A,
    subseq (kept (diff eqb old new)) old /\ subseq (kept (diff eqb old new)) new.
Proof. exact diff_kept_common. Qed.

(* ... of MAXIMAL length: as many statements as possible keep their source text.  [lcs_length] is the
   specification (structural recursion on the heads); the two theorems after this one say that it is
   the length of a longest common subsequence. *)
Theorem diff_kept_longest :
  forall (A : Type) (eqb : A -> A -> bool), (forall x y, eqb x y = true <-> x = y) ->
  forall old new : list A, length (kept (diff eqb old new)) = lcs_length eqb old new.
Proof. exact diff_kept_optimal. Qed.

Theorem lcs_length_upper_bound :
  forall (A : Type) (eqb : A -> A -> bool), (forall x y, eqb x y = true <-> x = y) ->
  forall a b c : list A, subseq c a -> subseq c b -> (length c <= lcs_length eqb a b)%nat.
Proof. exact lcs_upper. Qed.

Theorem lcs_length_attained :
  forall (A : Type) (eqb : A -> A -> bool), (forall x y, eqb x y = true <-> x = y) ->
  forall a b : list A, exists c, subseq c a /\ subseq c b /\ length c = lcs_length eqb a b.
Proof. exact lcs_attained. Qed.

(* ---------------- _index_statements_diff (CodeRecord.update_statements) ------------------------- *)
(* Regrouping the diff along the node index loses nothing: whatever the index and the script, when the
   generator finishes, the statements of its entries with op 0 / +1 (kept nodes, freshly printed
   statements) are the new statements in order, those with op 0 / -1 the old ones. *)
Theorem index_diff_sides :
  forall (A : Type) (last : nat) (index : list ientry) (s : list (op * A)) (es : list (oentry A)),
    index_statements_diff last index s = Some es ->
    new_side es = new_of s /\ old_side es = old_of s.
Proof. intros A last index s es. exact (isd_sides A (length s) last index s es). Qed.

(* With the script of lcs.diff: update_statements regenerates exactly [new]. *)
Theorem update_statements_new_side :
  forall (A : Type) (eqb : A -> A -> bool), (forall x y, eqb x y = true <-> x = y) ->
  forall (last : nat) (index : list ientry) (old new : list A) (es : list (oentry A)),
    index_statements_diff last index (diff eqb old new) = Some es -> new_side es = new.
Proof.
  intros A eqb Hs last index old new es H.
  destruct (isd_sides A _ last index _ es H) as [H1 _]. rewrite H1. exact (proj2 (diff_spells A eqb Hs old new)).
Qed.

(* ... and never fails when the index covers the old statements: every group non-empty, as many
   statements as [old] has. *)
Theorem index_diff_total :
  forall (A : Type) (eqb : A -> A -> bool), (forall x y, eqb x y = true <-> x = y) ->
  forall (last : nat) (index : list ientry) (old new : list A),
    index_wf index = true -> index_total index = length old ->
    exists es, index_statements_diff last index (diff eqb old new) = Some es.
Proof.
  intros A eqb Hs last index old new Hw Ht. apply isd_total; [lia | exact Hw |].
  unfold count_nonins. rewrite (proj1 (diff_spells A eqb Hs old new)). symmetry; exact Ht.
Qed.

(* Unchanged statements keep their source text: for every record (list of parse-tree nodes of any type),
   every node index, every old and new statement list and every printer of new statements, each group of
   statements that update_statements keeps (an op-0 entry of the regrouped lcs diff) has its nodes
   children[ni:nj] — the original text including comments and layout — verbatim and contiguous in the new
   record. *)
Theorem update_statements_keeps_text :
  forall (A N : Type) (gen : A -> list N) (eqb : A -> A -> bool), (forall x y, eqb x y = true <-> x = y) ->
  forall (children : list N) (first : nat) (index : list ientry) (old new : list A) (es : list (oentry A)),
    index_statements_diff first index (diff eqb old new) = Some es ->
    forall stmts ni nj, In (Keep, stmts, ni, nj) es ->
      infix (slice children ni nj) (new_children gen children es).
Proof. intros A N gen eqb _ children first index old new es _ stmts ni nj. apply build_keeps. Qed.

(* ... and as many as possible do: when every statement has its own node group (the normal case: one
   statement per line), the statements whose nodes are kept are exactly the Keep operations of the diff,
   and their number is the length of a longest common subsequence of old and new. *)
Theorem update_statements_keeps_most :
  forall (A : Type) (eqb : A -> A -> bool), (forall x y, eqb x y = true <-> x = y) ->
  forall (first : nat) (index : list ientry) (old new : list A) (es : list (oentry A)),
    singleton_index index = true ->
    index_statements_diff first index (diff eqb old new) = Some es ->
    kept_statements es = kept (diff eqb old new) /\
    length (kept_statements es) = lcs_length eqb old new.
Proof.
  intros A eqb Hs first index old new es Hi H.
  pose proof (isd_singleton_kept A _ first index _ es Hi H) as E. split; [exact E|].
  rewrite E. exact (diff_kept_optimal A eqb Hs old new).
Qed.

(* ---------------- nmtran_assignment_string --------------------------------------------------- *)
(* The NM-TRAN statements printed for the assignment  x = e  give x the value of e, and change no
   other variable — for every expression (plain or Piecewise of any length), every set D of
   "defined symbols", every interpretation of the function symbols and every state r at which the
   guard holds and e has a value.
   guard_print = g_wf (representation) && g_self_free && g_disjoint && g_zero_fresh; the last three
   are there because the CODE fails without them (Refuted.v).  No condition on the expressions
   themselves is left: since fixes 08b5390 / 09fcba7 every expression is printed. *)
Theorem print_sound :
  forall (fi : finterp) (D : list id) (x : id) (e : expr) (r : env) (l : list nmstmt) (v : Q),
    print_stmt D x e = Some l ->
    guard_print fi r D x e = true ->
    eval r fi e = Some v ->
    exists r', nm_exec fi r l = Some r' /\
               (exists v', r' x = Some v' /\ Qeq v' v) /\
               (forall y, y <> x -> r' y = r y).
Proof. exact print_sound_lemma. Qed.

(* A whole list of assignments printed as CodeRecord.update_statements prints new statements (each
   with the symbols assigned before it as defined_symbols): running the generated code leaves every
   variable with the value sequential execution of the statement list gives it — for all lists, all
   initial states and interpretations, provided each statement's guard holds at the state in which it
   runs and its right-hand side is defined there (guards_all). *)
Theorem print_all_sound :
  forall (fi : finterp) (ode : id -> list (option Q) -> option Q) (l : list stmt) (D : list id) (r : env)
         (code : list nmstmt),
    print_all D l = Some code -> guards_all fi r D l = true ->
    exists r', nm_exec fi r code = Some r' /\ forall y, r' y = exec fi ode r l y.
Proof. exact print_all_sound_lemma. Qed.

(* The printer is total on what sympy can hand it: for a Piecewise as sympy builds it (g_sympy: a True
   condition only in the last piece, never alone; a fact about inputs) and for every plain expression,
   print_stmt returns code — so print_sound is not vacuous.  (Before fixes 08b5390 / 09fcba7 the
   expressions additionally had to avoid two-argument functions and 1/f(x).) *)
Theorem print_total :
  forall (D : list id) (x : id) (e : expr),
    g_sympy e = true -> exists l, print_stmt D x e = Some l.
Proof. exact print_total_lemma. Qed.

(* A syntactic criterion for the two state-dependent conjuncts: when the several-logical-IFs form is
   chosen and all its conditions compare one and the same symbol s (not the assigned one) with pairwise
   different numbers — what categorical covariate effects produce — g_self_free and g_disjoint hold at
   EVERY state in which s has a value. *)
Theorem categorical_guard :
  forall (fi : finterp) (D : list id) (x : id) (e : expr) (s : id) (q0 : Q) (c0 : cond) (tl : list cond)
         (r : env) (v : Q),
    conds_of (stripped D x e) = c0 :: tl -> eq_const c0 = Some (s, q0) ->
    syn_disjoint (conds_of (stripped D x e)) = true -> s <> x -> r s = Some v ->
    g_self_free D x e = true /\ g_disjoint fi r D x e = true.
Proof. exact categorical_guard_lemma. Qed.

(* ---------------- NMTranPrinter: boolean conditions ------------------------------------------- *)
(* The text printed for a sympy condition (And/Or/Not over relations), read with Fortran's operator
   precedence, has the truth value of the condition at every state and under every interpretation —
   for And/Or of ANY number of arguments and any nesting; guard_cond only excludes the literals
   True/False (g_nobool: not NM-TRAN syntax, folded away by sympy — a fact about inputs).
   (Before fix 5cd6b91 the theorem needed g_binary and g_prec.) *)
Theorem cond_print_sound :
  forall c : scond, guard_cond c = true ->
    exists c' : cond, printed_cond c = Some c' /\ forall r fi, evalc r fi c' = evalc r fi (sem c).
Proof. exact cond_print_sound_lemma. Qed.

(* ---------------- compartment renumbering (update.py) ------------------------------------------ *)
(* create_compartment_remap(oldmap, newmap): a compartment that exists before and after (same name)
   has its old number sent to its new number — for all maps whose old numbers are pairwise different;
   and the remap contains nothing else.  (S<n>, A(n) and the CMT column are renumbered with it.) *)
Theorem remap_consistent :
  forall (oldmap newmap : cmap), NoDup (map snd oldmap) ->
  forall name n n', In (name, n) oldmap -> alookup newmap name = Some n' ->
    nlookup (create_compartment_remap oldmap newmap) n = Some n'.
Proof. intros oldmap newmap ND name n n'. exact (remap_consistent_lemma oldmap newmap ND name n n' nil). Qed.

Theorem remap_only_survivors :
  forall (oldmap newmap : cmap) n n', nlookup (create_compartment_remap oldmap newmap) n = Some n' ->
    exists name, In (name, n) oldmap /\ alookup newmap name = Some n'.
Proof.
  intros oldmap newmap n n' H. destruct (remap_only_survivors_lemma newmap oldmap nil n n' H) as [H1|H1];
    [discriminate H1 | exact H1].
Qed.

(* new_compartmental_map: the k-th compartment name (0-based, names pairwise different) gets number k + 1 *)
Theorem new_compartmental_map_numbers :
  forall names k name, NoDup names -> nth_error names k = Some name ->
    alookup (new_compartmental_map names) name = Some (S k).
Proof. intros names k name ND H. exact (new_cmap_from_spec names 1 nil k name ND H). Qed.

(* ---------------- the reference reader (C02/Read.v) ------------------------------------------- *)
(* The arithmetic reader never changes its verdict when given more fuel: once p_expr has answered
   (a value with the remaining tokens, or "not in the language"), every larger budget gives the same
   answer — for all token lists.  (Out-of-fuel is a separate outcome, never a verdict.) *)
Theorem read_expr_fuel_monotone :
  forall (f f' : nat) (ts : list tok) (v : expr) (rest : list tok),
    p_expr f ts = Ok v rest -> (f <= f')%nat -> p_expr f' ts = Ok v rest.
Proof. intros f f' ts v rest H L. exact (lift_expr f ts v rest f' H L). Qed.

(* The reader inverts the reference emitter: for EVERY program of abbreviated code (assignments, logical
   IFs, IF / ELSE IF / ELSE / END IF blocks of any length, expressions and conditions of any depth) that
   can be emitted at all (wf_prog: no Piecewise inside expressions, non-negative numerals, no literal
   True/False, blocks with at least one branch), reading the emitted token sequence gives the program
   back — with the fixed fuel budget of [read], so out-of-fuel never happens on emitted code. *)
Theorem read_emit : forall l : list nmstmt, wf_prog l = true -> read (emit l) = Some l.
Proof. exact read_emit_lemma. Qed.

(* Composition with print_sound: the code printed for an assignment, written out as tokens and read back
   by the reader, runs to the value of the assignment (all D, states, interpretations, under guard_print). *)
Theorem roundtrip_stmt :
  forall (fi : finterp) (D : list id) (x : id) (e : expr) (r : env) (l : list nmstmt) (v : Q),
    print_stmt D x e = Some l -> wf_prog l = true ->
    guard_print fi r D x e = true -> eval r fi e = Some v ->
    exists code r', read (emit l) = Some code /\ nm_exec fi r code = Some r' /\
                    (exists v', r' x = Some v' /\ Qeq v' v) /\ (forall y, y <> x -> r' y = r y).
Proof.
  intros fi D x e r l v Hp Hw Hg He.
  destruct (print_sound_lemma fi D x e r l v Hp Hg He) as [r' [H1 [H2 H3]]].
  exists l, r'. split; [exact (read_emit_lemma l Hw) | repeat split; assumption].
Qed.

(* ---------------- ADVAN5 / ADVAN7: renaming of the rate constants --------------------------------- *)
(* Every entry the renaming loop of pk_param_conversion produces for a general linear model moves the
   rate constant with BOTH of its compartments: K{i}{j} (and K{i}T{j}) becomes K{remap i}{remap j}
   (j = 0, the output, stays 0), only for i <> j, only when i is remapped and j is remapped or the output,
   and only when the new system has a flow between the renumbered compartments — for every number of
   compartments, every remap and every flow relation; the loop never produces the plain name K. *)
Theorem k_rename_consistent :
  forall (n : nat) (remap : list (nat * nat)) (ncs : nat) (flow : nat -> nat -> bool) (k : kkey) (v : kval),
    klookup (k_rename_loop n remap ncs flow) k = Some v -> entry_ok remap ncs flow k v = true.
Proof. intros n remap ncs flow k v. apply k_rename_loop_ok. Qed.

(* ---------------- the scale parameter through a history of renumberings -------------------------- *)
(* update_ode_system renames S<old> -> S<new> with the remap from the STORED compartment map to the new one and
   then stores the new map (update_model_record on the ADVAN path, to_des on the $DES path).  With that refresh,
   for EVERY history of compartmental systems (any length; names pairwise different, the central compartment
   present, OUTPUT not a compartment name) the index of the scale parameter equals the number of the central
   compartment after the last update, and the stored map is the map of the last system. *)
Theorem scale_follows_central :
  forall (out central : id) (hist : list (list id)) (cur : list id) (k : nat),
    names_ok out central cur = true -> forallb (names_ok out central) hist = true ->
    number_of cur central = Some k ->
    exists k', scale_run true out (new_compartmental_map cur, k) hist =
               (new_compartmental_map (last hist cur), k') /\ number_of (last hist cur) central = Some k'.
Proof. exact run_follows. Qed.
