(* PV.C02.ProofsIndexDiff — regrouping the statement diff along the node index loses nothing: the
   entries handed to update_statements spell the new statements (and the old ones) in order, and the
   regrouping never fails when the index covers the old statements. *)
From Coq Require Import List Bool Arith Lia.
From PV Require Import C02.Lcs C02.ProofsLcs C02.IndexDiff.
Import ListNotations.
Local Open Scope nat_scope.

Section P.
  Variable A : Type.
  Notation script := (list (op * A)).

  Lemma take_group_split e : forall (s g rest : script), take_group e s = Some (g, rest) -> s = g ++ rest.
  Proof.
    induction e as [e IH] using (well_founded_induction lt_wf).
    intros s. induction s as [|[o v] tl IHs]; intros g rest H.
    - destruct e; cbn in H; [inversion H; reflexivity | discriminate].
    - destruct e as [|e']; cbn [take_group] in H; [inversion H; reflexivity|].
      destruct (is_ins o) eqn:Eo.
      + destruct (take_group (S e') tl) as [[g' r']|] eqn:E; [|discriminate]. inversion H; subst.
        cbn [app]. f_equal. exact (IHs _ _ eq_refl).
      + destruct (take_group e' tl) as [[g' r']|] eqn:E; [|discriminate]. inversion H; subst.
        cbn [app]. f_equal. exact (IH e' ltac:(lia) _ _ _ E).
  Qed.

  Lemma new_of_filter (s : script) : new_of s = map snd (filter (fun p => negb (is_del (fst p))) s).
  Proof. induction s as [|[[] v] tl IH]; cbn; rewrite ?IH; reflexivity. Qed.
  Lemma old_of_filter (s : script) : old_of s = map snd (filter (fun p => negb (is_ins (fst p))) s).
  Proof. induction s as [|[[] v] tl IH]; cbn; rewrite ?IH; reflexivity. Qed.
  Lemma all_keep_sides (s : script) : forallb (fun p => is_keep (fst p)) s = true ->
    new_of s = map snd s /\ old_of s = map snd s.
  Proof.
    induction s as [|[[] v] tl IH]; cbn; intro H; try discriminate; [split; reflexivity|].
    destruct (IH H) as [H1 H2]. rewrite H1, H2. split; reflexivity.
  Qed.

  Lemma group_entries_sides (ops : script) ni nj :
    new_side (group_entries ops ni nj) = new_of ops /\ old_side (group_entries ops ni nj) = old_of ops.
  Proof.
    unfold group_entries. destruct (forallb (fun p => is_keep (fst p)) ops) eqn:E.
    - destruct (all_keep_sides ops E) as [H1 H2]. cbn. rewrite app_nil_r, H1, H2. split; reflexivity.
    - rewrite new_of_filter, old_of_filter.
      destruct (map snd (filter (fun p => negb (is_del (fst p))) ops)) as [|a l] eqn:En; cbn; rewrite ?app_nil_r;
        split; reflexivity.
  Qed.

  Lemma side_app (a b : list (oentry A)) :
    new_side (a ++ b) = new_side a ++ new_side b /\ old_side (a ++ b) = old_side a ++ old_side b.
  Proof. unfold new_side, old_side. rewrite !flat_map_app. split; reflexivity. Qed.

  Lemma isd_sides fuel : forall last index (s : script) es,
    isd fuel last index s = Some es -> new_side es = new_of s /\ old_side es = old_of s.
  Proof.
    induction fuel as [|f IH]; intros last index s es H.
    - destruct s as [|[o v] tl]; cbn in H; [inversion H; split; reflexivity | discriminate].
    - destruct s as [|[o v] tl]; cbn [isd] in H; [inversion H; split; reflexivity|].
      destruct (is_ins o) eqn:Eo.
      + destruct (isd f last index tl) as [es'|] eqn:E; [|discriminate]. cbn in H. inversion H; subst.
        destruct (IH _ _ _ _ E) as [H1 H2]. destruct o; try discriminate.
        unfold new_side, old_side in *. cbn [flat_map is_del is_ins app new_of old_of].
        rewrite H1, H2. split; reflexivity.
      + destruct index as [|[[[ni nj] si] sj] itl]; [discriminate|].
        destruct (take_group (sj - si - 1) tl) as [[g rest]|] eqn:Eg; [|discriminate].
        destruct (isd f nj itl rest) as [es'|] eqn:E; [|discriminate]. cbn in H. inversion H; subst.
        destruct (IH _ _ _ _ E) as [H1 H2].
        destruct (group_entries_sides ((o, v) :: g) ni nj) as [G1 G2].
        destruct (side_app (group_entries ((o, v) :: g) ni nj) es') as [S1 S2].
        rewrite S1, S2, G1, G2, H1, H2, (take_group_split _ _ _ _ Eg).
        change ((o, v) :: g ++ rest) with (((o, v) :: g) ++ rest).
        rewrite new_of_app, old_of_app. split; reflexivity.
  Qed.

  (* ---- totality ---- *)
  Definition count_nonins (s : script) : nat := length (old_of s).

  Lemma take_group_total e : forall (s : script), e <= count_nonins s ->
    exists g rest, take_group e s = Some (g, rest) /\ count_nonins rest = count_nonins s - e /\ length rest <= length s.
  Proof.
    induction e as [e IH] using (well_founded_induction lt_wf).
    intros s. induction s as [|[o v] tl IHs]; intro H.
    - unfold count_nonins in H. cbn in H. assert (e = 0) by lia. subst. exists [], []. cbn. repeat split; lia.
    - destruct e as [|e']; [exists [], ((o, v) :: tl); cbn; repeat split; lia|].
      cbn [take_group]. destruct o; cbn [is_ins].
      + unfold count_nonins in *. cbn [old_of length] in *.
        destruct (IH e' ltac:(lia) tl ltac:(lia)) as [g [rest [E [C L]]]]. rewrite E.
        exists ((Keep, v) :: g), rest. repeat split; [exact C | cbn [length]; lia].
      + unfold count_nonins in *. cbn [old_of] in *.
        destruct (IHs H) as [g [rest [E [C L]]]]. rewrite E.
        exists ((Ins, v) :: g), rest. repeat split; [exact C | cbn [length]; lia].
      + unfold count_nonins in *. cbn [old_of length] in *.
        destruct (IH e' ltac:(lia) tl ltac:(lia)) as [g [rest [E [C L]]]]. rewrite E.
        exists ((Del, v) :: g), rest. repeat split; [exact C | cbn [length]; lia].
  Qed.

  Lemma isd_total fuel : forall last index (s : script),
    length s <= fuel -> index_wf index = true -> count_nonins s = index_total index ->
    exists es, isd fuel last index s = Some es.
  Proof.
    induction fuel as [|f IH]; intros last index s Hf Hw Hc.
    - destruct s; [eexists; reflexivity | cbn in Hf; lia].
    - destruct s as [|[o v] tl]; [eexists; reflexivity|]. cbn [isd length] in *.
      destruct (is_ins o) eqn:Eo.
      + destruct o; try discriminate. unfold count_nonins in Hc. cbn [old_of] in Hc.
        destruct (IH last index tl ltac:(lia) Hw Hc) as [es E]. rewrite E. eexists; reflexivity.
      + assert (Hc' : count_nonins ((o, v) :: tl) = S (count_nonins tl)).
        { unfold count_nonins. destruct o; try discriminate; reflexivity. }
        destruct index as [|[[[ni nj] si] sj] itl]; [cbn [index_total] in Hc; lia|].
        cbn [index_wf forallb] in Hw. apply andb_prop in Hw. destruct Hw as [Hlt Hw]. apply Nat.ltb_lt in Hlt.
        cbn [index_total] in Hc.
        destruct (take_group_total (sj - si - 1) tl ltac:(lia)) as [g [rest [E [C L]]]]. rewrite E.
        destruct (IH nj itl rest ltac:(lia) Hw ltac:(lia)) as [es E2]. rewrite E2. eexists; reflexivity.
  Qed.
End P.
