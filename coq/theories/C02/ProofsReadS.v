(* PV.C02.ProofsReadS — the reader inverts the emitter on statements and programs: read (emit l) = Some l. *)
From Coq Require Import QArith List Bool PArith Arith Lia.
From PV Require Import Base.Expr C02.Model C02.Read C02.ProofsReadE C02.ProofsReadC.
Import ListNotations.
Local Open Scope nat_scope.

(* ---- simple statements ---- *)
Lemma simple_emit s f rest : wf_simple s = true -> 6 * length (emit_simple s) <= f ->
  p_simple f (emit_simple s ++ rest) = Ok s rest.
Proof.
  destruct s as [x e | c x e]; cbn [wf_simple emit_simple]; intros Hw Hf.
  - cbn [app length] in *. rewrite app_length in Hf. cbn [length] in Hf. pose proof (kf_bound e).
    unfold p_simple. rewrite <- app_assoc. cbn [app].
    rewrite (expr_emit e f _ Hw) by (try lia; reflexivity). rewrite bind_ok. reflexivity.
  - apply andb_prop in Hw. destruct Hw as [Hc He].
    cbn [app length] in *. rewrite app_length in Hf. cbn [length] in Hf. rewrite app_length in Hf. cbn [length] in Hf.
    pose proof (kf_bound e). pose proof (kc_bound c Hc).
    unfold p_simple. rewrite <- !app_assoc. cbn [app]. rewrite <- ?app_assoc. cbn [app].
    rewrite (cond_emit c Hc) by lia. rewrite bind_ok. cbv beta iota.
    rewrite (expr_emit e f _ He) by (try lia; reflexivity). rewrite bind_ok. reflexivity.
Qed.

Lemma emit_simple_head s : exists t l, emit_simple s = t :: l /\ (t = KIf \/ exists x, t = KSym x).
Proof. destruct s; cbn [emit_simple]; eexists; eexists; split; try reflexivity; eauto. Qed.

(* ---- bodies ---- *)
Lemma p_body_eq n f ts : p_body n f ts =
  if ends_body ts then Ok [] ts
  else match n with
       | 0 => Fuel
       | S n' => bind (p_simple f ts) (fun s rest => bind (p_body n' f rest) (fun l r => Ok (s :: l) r))
       end.
Proof. destruct n; reflexivity. Qed.

Lemma body_emit : forall l n f rest, forallb wf_simple l = true -> length l <= n ->
  6 * length (emit_body l) <= f -> ends_body rest = true ->
  p_body n f (emit_body l ++ rest) = Ok l rest.
Proof.
  induction l as [|s tl IH]; intros n f rest Hw Hn Hf Hr.
  - cbn [emit_body flat_map app]. rewrite p_body_eq, Hr. reflexivity.
  - cbn [forallb] in Hw. apply andb_prop in Hw. destruct Hw as [Hs Ht].
    unfold emit_body in *. cbn [flat_map] in *. rewrite app_length in Hf. cbn [length] in Hn.
    rewrite <- app_assoc. rewrite p_body_eq.
    destruct (emit_simple_head s) as [t [l0 [E Ht0]]].
    assert (He : ends_body (emit_simple s ++ flat_map emit_simple tl ++ rest) = false).
    { rewrite E. cbn [app]. destruct Ht0 as [->|[x ->]]; reflexivity. }
    rewrite He. destruct n as [|n]; [lia|].
    rewrite (simple_emit s f _ Hs) by lia. rewrite bind_ok.
    rewrite (IH n f rest Ht) by (try lia; assumption). rewrite bind_ok. reflexivity.
Qed.

(* ---- ELSE IF / ELSE / END IF ---- *)
Fixpoint nb (brs : list (cond * list simple)) (els : option (list simple)) : nat :=
  match brs with
  | [] => 1 + match els with Some b => length b | None => 0 end
  | (_, b) :: tl => 1 + Nat.max (length b) (nb tl els)
  end.

Definition wf_branch (cb : cond * list simple) : bool := wf_c (fst cb) && forallb wf_simple (snd cb).
Definition wf_else (els : option (list simple)) : bool :=
  match els with Some b => forallb wf_simple b | None => true end.

Lemma emit_branches_ends brs els rest : ends_body (emit_branches brs els ++ rest) = true.
Proof. destruct brs as [|[c b] tl]; cbn [emit_branches]; [destruct els|]; reflexivity. Qed.

Lemma p_branches_S n f ts : p_branches (S n) f ts =
  match ts with
  | KEndIf :: KNl :: r => Ok ([], None) r
  | KElse :: KNl :: tl =>
      bind (p_body n f tl) (fun b rest =>
        match rest with KEndIf :: KNl :: r => Ok ([], Some b) r | _ => Fail end)
  | KElseIf :: KLp :: tl =>
      bind (p_cor f tl) (fun c rest =>
        match rest with
        | KRp :: KThen :: KNl :: tl2 =>
            bind (p_body n f tl2) (fun b rest2 =>
              bind (p_branches n f rest2) (fun be r => Ok ((c, b) :: fst be, snd be) r))
        | _ => Fail
        end)
  | _ => Fail
  end.
Proof. reflexivity. Qed.

Lemma branches_emit : forall brs els n f rest,
  forallb wf_branch brs = true -> wf_else els = true -> nb brs els <= n ->
  6 * length (emit_branches brs els) <= f ->
  p_branches n f (emit_branches brs els ++ rest) = Ok (brs, els) rest.
Proof.
  induction brs as [|[c b] tl IH]; intros els n f rest Hw He Hn Hf; cbn [nb] in Hn.
  - destruct n as [|n]; [lia|]. rewrite p_branches_S. destruct els as [b|]; cbn [emit_branches app].
    + cbn [wf_else] in He. cbn [emit_branches length] in Hf. rewrite app_length in Hf. cbn [length] in Hf.
      rewrite <- app_assoc. cbn [app].
      rewrite (body_emit b n f _ He) by (try lia; reflexivity). rewrite bind_ok. reflexivity.
    + reflexivity.
  - cbn [forallb] in Hw. apply andb_prop in Hw. destruct Hw as [Hb Ht].
    unfold wf_branch in Hb. cbn [fst snd] in Hb. apply andb_prop in Hb. destruct Hb as [Hc Hbb].
    destruct n as [|n]; [lia|]. rewrite p_branches_S. cbn [emit_branches app].
    cbn [emit_branches length] in Hf. rewrite app_length in Hf. cbn [length] in Hf. rewrite app_length in Hf.
    pose proof (kc_bound c Hc).
    rewrite <- !app_assoc. cbn [app]. rewrite <- ?app_assoc.
    rewrite (cond_emit c Hc) by lia. rewrite bind_ok. cbv beta iota.
    rewrite (body_emit b n f _ Hbb) by (try lia; apply emit_branches_ends). rewrite bind_ok.
    rewrite (IH els n f rest Ht He) by lia. rewrite bind_ok. reflexivity.
Qed.

(* ---- statements ---- *)
Definition ns (s : nmstmt) : nat :=
  match s with
  | NS _ => 0
  | NBlock [] _ => 0
  | NBlock ((_, b) :: tl) els => Nat.max (length b) (nb tl els)
  end.

Lemma wf_stmt_block c b tl els : wf_stmt (NBlock ((c, b) :: tl) els) = true ->
  wf_c c = true /\ forallb wf_simple b = true /\ forallb wf_branch tl = true /\ wf_else els = true.
Proof.
  cbn [wf_stmt]. intro H. apply andb_prop in H. destruct H as [H He].
  apply andb_prop in H. destruct H as [_ H]. cbn [forallb fst snd] in H.
  apply andb_prop in H. destruct H as [H Ht]. apply andb_prop in H. destruct H as [Hc Hb].
  repeat split; assumption.
Qed.

Lemma stmt_emit s n f rest : wf_stmt s = true -> ns s <= n -> 6 * length (emit_stmt s) <= f ->
  p_stmt n f (emit_stmt s ++ rest) = Ok s rest.
Proof.
  destruct s as [x | brs els]; intros Hw Hn Hf.
  - cbn [wf_stmt emit_stmt] in *. destruct x as [x e | c x e].
    + unfold p_stmt. cbn [emit_simple app]. change (KSym x :: KEq :: (emit_e e ++ [KNl]) ++ rest) with (emit_simple (SAssign x e) ++ rest).
      rewrite (simple_emit _ f rest Hw Hf). rewrite bind_ok. reflexivity.
    + pose proof Hw as Hw'. cbn [wf_simple] in Hw'. apply andb_prop in Hw'. destruct Hw' as [Hc He].
      pose proof (kc_bound c Hc).
      assert (E : emit_simple (SIf c x e) ++ rest =
                  KIf :: KLp :: emit_c c ++ KRp :: KSym x :: KEq :: emit_e e ++ KNl :: rest).
      { cbn [emit_simple app]. rewrite <- !app_assoc. cbn [app]. rewrite <- !app_assoc. reflexivity. }
      assert (L : length (emit_c c) <= length (emit_simple (SIf c x e))).
      { cbn [emit_simple length]. rewrite app_length. lia. }
      rewrite E. unfold p_stmt. rewrite (cond_emit c Hc) by lia. cbv beta iota.
      rewrite <- E. rewrite (simple_emit _ f rest Hw Hf). rewrite bind_ok. reflexivity.
  - destruct brs as [|[c b] tl]; [discriminate Hw|].
    destruct (wf_stmt_block _ _ _ _ Hw) as [Hc [Hb [Ht He]]].
    cbn [ns] in Hn. cbn [emit_stmt length] in Hf. rewrite app_length in Hf. cbn [length] in Hf. rewrite app_length in Hf.
    pose proof (kc_bound c Hc).
    unfold p_stmt. cbn [emit_stmt app]. rewrite <- !app_assoc. cbn [app]. rewrite <- ?app_assoc.
    rewrite (cond_emit c Hc) by lia. cbv beta iota.
    rewrite (body_emit b n f _ Hb) by (try lia; apply emit_branches_ends). rewrite bind_ok.
    rewrite (branches_emit tl els n f rest Ht He) by lia. rewrite bind_ok. reflexivity.
Qed.

(* ---- programs ---- *)
Fixpoint np (l : list nmstmt) : nat :=
  match l with [] => 0 | s :: tl => 1 + Nat.max (ns s) (np tl) end.

Lemma emit_stmt_nonempty s : wf_stmt s = true -> exists t l, emit_stmt s = t :: l.
Proof.
  destruct s as [x | brs els]; intro H.
  - destruct x; cbn [emit_stmt emit_simple]; eauto.
  - destruct brs as [|[c b] tl]; [discriminate H|]. cbn [emit_stmt]. eauto.
Qed.

Lemma p_prog_cons n f t ts : p_prog (S n) f (t :: ts) =
  bind (p_stmt n f (t :: ts)) (fun s rest => bind (p_prog n f rest) (fun l r => Ok (s :: l) r)).
Proof. reflexivity. Qed.

Lemma prog_emit : forall l n f, wf_prog l = true -> np l <= n -> 6 * length (emit l) <= f ->
  p_prog n f (emit l) = Ok l [].
Proof.
  induction l as [|s tl IH]; intros n f Hw Hn Hf.
  - destruct n; reflexivity.
  - unfold wf_prog in Hw. cbn [forallb] in Hw. apply andb_prop in Hw. destruct Hw as [Hs Ht].
    cbn [np] in Hn. unfold emit in *. cbn [flat_map] in *. rewrite app_length in Hf.
    destruct (emit_stmt_nonempty s Hs) as [t [l0 E]].
    destruct n as [|n]; [lia|].
    assert (Hc : p_prog (S n) f (emit_stmt s ++ flat_map emit_stmt tl) =
                 bind (p_stmt n f (emit_stmt s ++ flat_map emit_stmt tl)) (fun s0 rest => bind (p_prog n f rest) (fun l r => Ok (s0 :: l) r))).
    { rewrite E. cbn [app]. apply p_prog_cons. }
    rewrite Hc. rewrite (stmt_emit s n f _ Hs) by lia. rewrite bind_ok.
    rewrite (IH n f Ht) by lia. rewrite bind_ok. reflexivity.
Qed.

(* ---- the line budget of [read] is enough ---- *)
Lemma emit_simple_len s : 1 <= length (emit_simple s).
Proof. destruct s; cbn [emit_simple length]; lia. Qed.

Lemma body_len l : length l <= length (emit_body l).
Proof.
  induction l as [|s tl IH]; [cbn; lia|]. unfold emit_body in *. cbn [flat_map length]. rewrite app_length.
  pose proof (emit_simple_len s). lia.
Qed.

Lemma nb_len brs els : nb brs els <= length (emit_branches brs els).
Proof.
  induction brs as [|[c b] tl IH]; cbn [nb emit_branches].
  - destruct els as [b|]; cbn [length]; [rewrite app_length; cbn [length]; pose proof (body_len b)|]; lia.
  - cbn [length]. rewrite ?app_length. cbn [length]. rewrite ?app_length. pose proof (body_len b). lia.
Qed.

Lemma ns_len s : wf_stmt s = true -> S (ns s) <= length (emit_stmt s).
Proof.
  destruct s as [x | brs els]; cbn [ns]; intro Hw.
  - cbn [emit_stmt]. pose proof (emit_simple_len x). lia.
  - destruct brs as [|[c b] tl]; [discriminate Hw|].
    cbn [emit_stmt length]. rewrite ?app_length. cbn [length]. rewrite ?app_length.
    pose proof (body_len b). pose proof (nb_len tl els). lia.
Qed.

Lemma np_len l : wf_prog l = true -> np l <= length (emit l).
Proof.
  induction l as [|s tl IH]; intro Hw; [cbn; lia|].
  unfold wf_prog in Hw. cbn [forallb] in Hw. apply andb_prop in Hw. destruct Hw as [Hs Ht].
  cbn [np]. unfold emit in *. cbn [flat_map]. rewrite app_length.
  destruct (emit_stmt_nonempty s Hs) as [t [l0 E]]. pose proof (ns_len s Hs). rewrite E in *. cbn [length] in *.
  specialize (IH Ht). lia.
Qed.

Lemma read_emit_lemma l : wf_prog l = true -> read (emit l) = Some l.
Proof.
  intro Hw. unfold read. rewrite (prog_emit l _ _ Hw); [reflexivity | pose proof (np_len l Hw); lia | lia].
Qed.
