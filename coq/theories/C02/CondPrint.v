(* PV.C02.CondPrint — executable model of how NMTranPrinter prints boolean conditions
   (code_record.py: _print_And, _print_Or, _print_Not; _do_infix for relations) and of what the printed text
   means to a Fortran reader.  No proofs here.

   sympy And / Or are n-ary (flattened, at least two arguments): [SAnd a b more].
   Relations are atomic tokens (arithmetic binds tighter than every logical operator). *)
From Coq Require Import QArith List Bool PArith Arith.
From PV Require Import Base.Expr.
Import ListNotations.
Local Open Scope nat_scope.

Inductive scond :=
| SRel (o : relop) (a b : expr)
| STrue | SFalse
| SAnd (a b : scond) (more : sclist)
| SOr (a b : scond) (more : sclist)
| SNot (a : scond)
with sclist :=
| SNil
| SCons (c : scond) (tl : sclist).

Scheme scond_mut := Induction for scond Sort Prop
with sclist_mut := Induction for sclist Sort Prop.
Combined Scheme scond_sclist_mut from scond_mut, sclist_mut.

(* what the sympy object means *)
Fixpoint sem (c : scond) : cond :=
  match c with
  | SRel o a b => CRel o a b
  | STrue => CTrue
  | SFalse => CFalse
  | SAnd a b more => sem_and (CAnd (sem a) (sem b)) more
  | SOr a b more => sem_or (COr (sem a) (sem b)) more
  | SNot a => CNot (sem a)
  end
with sem_and (acc : cond) (l : sclist) : cond :=
  match l with SNil => acc | SCons c tl => sem_and (CAnd acc (sem c)) tl end
with sem_or (acc : cond) (l : sclist) : cond :=
  match l with SNil => acc | SCons c tl => sem_or (COr acc (sem c)) tl end.

Inductive ctok :=
| TRel (o : relop) (a b : expr)
| TBad                    (* 'True' / 'False': not NM-TRAN *)
| TAnd | TOr | TNot | TLp | TRp.

Definition is_or (c : scond) : bool := match c with SOr _ _ _ => true | _ => false end.

(* NMTranPrinter (after fix 5cd6b91): _print_And / _print_Or join ALL arguments with the operator; an
   argument of an And that is itself an Or is put in parentheses.  _print_Not prints .NOT. (arg). *)
Fixpoint print_cond (c : scond) : list ctok :=
  match c with
  | SRel o a b => [TRel o a b]
  | STrue | SFalse => [TBad]
  | SAnd a b more =>
      (if is_or a then TLp :: print_cond a ++ [TRp] else print_cond a) ++
      TAnd :: (if is_or b then TLp :: print_cond b ++ [TRp] else print_cond b) ++ print_and_more more
  | SOr a b more => print_cond a ++ TOr :: print_cond b ++ print_or_more more
  | SNot a => TNot :: TLp :: print_cond a ++ [TRp]
  end
with print_and_more (l : sclist) : list ctok :=
  match l with
  | SNil => []
  | SCons c tl => TAnd :: (if is_or c then TLp :: print_cond c ++ [TRp] else print_cond c) ++ print_and_more tl
  end
with print_or_more (l : sclist) : list ctok :=
  match l with
  | SNil => []
  | SCons c tl => TOr :: print_cond c ++ print_or_more tl
  end.

(* Reference reader of Fortran logical expressions: .NOT. binds tighter than .AND., .AND. tighter
   than .OR.  (Operators of equal precedence are grouped to the right here; Fortran groups them to
   the left, which denotes the same truth value since .AND. / .OR. are associative and evaluation
   has no side effects.)  Recursive descent on fuel.
     or_e  ::= and_e [.OR. or_e]      and_e ::= not_e [.AND. and_e]
     not_e ::= .NOT. not_e | ( or_e ) | relation *)
Fixpoint p_or (f : nat) (ts : list ctok) : option (cond * list ctok) :=
  match f with
  | 0 => None
  | S f' =>
      match p_and f' ts with
      | Some (c, TOr :: rest) =>
          match p_or f' rest with Some (d, rest') => Some (COr c d, rest') | None => None end
      | r => r
      end
  end
with p_and (f : nat) (ts : list ctok) : option (cond * list ctok) :=
  match f with
  | 0 => None
  | S f' =>
      match p_not f' ts with
      | Some (c, TAnd :: rest) =>
          match p_and f' rest with Some (d, rest') => Some (CAnd c d, rest') | None => None end
      | r => r
      end
  end
with p_not (f : nat) (ts : list ctok) : option (cond * list ctok) :=
  match f with
  | 0 => None
  | S f' =>
      match ts with
      | TRel o a b :: rest => Some (CRel o a b, rest)
      | TNot :: rest =>
          match p_not f' rest with Some (c, rest') => Some (CNot c, rest') | None => None end
      | TLp :: rest =>
          match p_or f' rest with Some (c, TRp :: rest') => Some (c, rest') | _ => None end
      | _ => None
      end
  end.

Definition parse_cond (ts : list ctok) : option cond :=
  match p_or (3 * S (length ts)) ts with
  | Some (c, []) => Some c
  | _ => None
  end.

(* the condition NM-TRAN reads in the text pharmpy prints for the sympy condition c *)
Definition printed_cond (c : scond) : option cond := parse_cond (print_cond c).

(* ---- guard ---------------------------------------------------------------------------------
   g_nobool: no literal True / False inside (not NM-TRAN syntax; sympy folds them away).
   (Before fix 5cd6b91 two more conjuncts were needed: every And/Or binary, no Or under an And.) *)
Fixpoint g_nobool (c : scond) : bool :=
  match c with
  | STrue | SFalse => false
  | SAnd a b more | SOr a b more => g_nobool a && g_nobool b && g_nobool_l more
  | SNot a => g_nobool a
  | SRel _ _ _ => true
  end
with g_nobool_l (l : sclist) : bool :=
  match l with SNil => true | SCons c tl => g_nobool c && g_nobool_l tl end.
Definition guard_cond (c : scond) : bool := g_nobool c.

(* shape facts used only for the input distribution of the check *)
Definition is_nil (l : sclist) : bool := match l with SNil => true | _ => false end.
Fixpoint shape_binary (c : scond) : bool :=
  match c with
  | SAnd a b more | SOr a b more => is_nil more && shape_binary a && shape_binary b
  | SNot a => shape_binary a
  | _ => true
  end.
Fixpoint shape_no_or_under_and (c : scond) : bool :=
  match c with
  | SAnd a b _ => negb (is_or a) && negb (is_or b) && shape_no_or_under_and a && shape_no_or_under_and b
  | SOr a b _ => shape_no_or_under_and a && shape_no_or_under_and b
  | SNot a => shape_no_or_under_and a
  | _ => true
  end.
