(* PV.C02.ProofsPrint — the printed NM-TRAN statements mean what the IR assignment means. *)
From Coq Require Import QArith List Bool PArith Arith Lia.
From PV Require Import Base.PyData Base.Expr Base.Stmts C02.Model.
Import ListNotations.
Local Open Scope nat_scope.

Section P.
  Variable fi : finterp.

  (* which piece a Piecewise selects at r: None = a condition cannot be evaluated,
     Some None = no condition holds, Some (Some v) = value expression of the first true one *)
  Fixpoint pw_sel (r : env) (ps : list (cond * expr)) : option (option expr) :=
    match ps with
    | [] => Some None
    | (c, v) :: tl =>
        match evalc r fi c with
        | Some true => Some (Some v)
        | Some false => pw_sel r tl
        | None => None
        end
    end.

  Definition sel_value (r : env) (s : option (option expr)) : option Q :=
    match s with Some (Some v) => eval r fi v | _ => None end.

  Lemma eval_of_pieces r ps : eval r fi (of_pieces ps) = sel_value r (pw_sel r ps).
  Proof.
    induction ps as [|[c v] tl IH]; cbn [of_pieces eval pw_sel sel_value]; [reflexivity|].
    destruct (evalc r fi c) as [[|]|]; cbn [obind]; [reflexivity | exact IH | reflexivity].
  Qed.

  Lemma of_pieces_pieces e : pw_tail_nil e = true -> of_pieces (pieces e) = e.
  Proof.
    induction e; cbn [pw_tail_nil pieces of_pieces]; intro H; try discriminate; try reflexivity.
    rewrite IHe2 by exact H. reflexivity.
  Qed.

  Lemma pw_sel_snoc r ps w :
    pw_sel r (ps ++ [(CTrue, w)]) =
    match pw_sel r ps with Some None => Some (Some w) | o => o end.
  Proof.
    induction ps as [|[c v] tl IH]; cbn [app pw_sel evalc]; [reflexivity|].
    destruct (evalc r fi c) as [[|]|]; [reflexivity | exact IH | reflexivity].
  Qed.

  (* ---- lists: last / removelast ---- *)
  Lemma last_opt_snoc {A} (l : list A) a : last_opt (l ++ [a]) = Some a.
  Proof.
    induction l as [|b l IH]; [reflexivity|]. cbn [app last_opt].
    destruct (l ++ [a]) eqn:E; [destruct l; discriminate | exact IH].
  Qed.

  Lemma last_opt_split {A} (l : list A) a : last_opt l = Some a -> l = removelast l ++ [a].
  Proof.
    induction l as [|b l IH]; [discriminate|]. intro H. destruct l as [|b' l'].
    - cbn in H. inversion H. reflexivity.
    - change (last_opt (b :: b' :: l')) with (last_opt (b' :: l')) in H.
      change (removelast (b :: b' :: l')) with (b :: removelast (b' :: l')).
      cbn [app]. rewrite <- (IH H). reflexivity.
  Qed.

  (* ---- the state after the printed code, as a function of the selected piece ---- *)
  Definition after (r : env) (x : id) (s : option (option expr)) : option env :=
    match s with
    | Some (Some v) => Some (upd r x (eval r fi v))
    | Some None => Some r
    | None => None
    end.

  (* block form *)
  Lemma block_tail_exec r x ps brs els :
    block_tail x ps = Some (brs, els) ->
    exec_branches fi r brs els = after r x (pw_sel r ps).
  Proof.
    revert brs els. induction ps as [|[c v] tl IH]; intros brs els H; cbn [block_tail] in H.
    - inversion H; subst. reflexivity.
    - destruct (is_ctrue c) eqn:Ec.
      + destruct c; try discriminate. destruct tl; [|discriminate]. inversion H; subst.
        cbn. reflexivity.
      + destruct (block_tail x tl) as [[brs' els']|] eqn:Et; [|discriminate].
        inversion H; subst. cbn [exec_branches pw_sel].
        destruct (evalc r fi c) as [[|]|]; cbn [exec_simples exec_simple after]; try reflexivity.
        exact (IH _ _ eq_refl).
  Qed.

  Lemma print_block_exec r x ps l :
    print_block x ps = Some l -> nm_exec fi r l = after r x (pw_sel r ps).
  Proof.
    unfold print_block. destruct ps as [|[c0 v0] tl]; [discriminate|].
    destruct (is_ctrue c0) eqn:E0; [discriminate|].
    destruct (block_tail x tl) as [[brs els]|] eqn:Et; [|discriminate].
    intro H; inversion H; subst. cbn [nm_exec nm_exec1 exec_branches pw_sel].
    destruct (evalc r fi c0) as [[|]|]; cbn [exec_simples exec_simple after]; try reflexivity.
    rewrite (block_tail_exec r x tl brs els Et).
    destruct (after r x (pw_sel r tl)); reflexivity.
  Qed.

  (* several logical IFs *)
  Lemma count_true_cons r c cs n :
    count_true fi r (c :: cs) = Some n ->
    exists b m, evalc r fi c = Some b /\ count_true fi r cs = Some m /\ n = (if b then S m else m).
  Proof.
    cbn [count_true]. destruct (evalc r fi c) as [b|]; [|discriminate].
    destruct (count_true fi r cs) as [m|]; [|discriminate].
    intro H; inversion H. eauto.
  Qed.

  Lemma evalc_upd_irrelevant r x v c :
    ~ In x (free_symsc c) -> evalc (upd r x v) fi c = evalc r fi c.
  Proof.
    intro H. apply (proj2 (coincidence fi (upd r x v) r)).
    intros y Hy. unfold upd. destruct (Pos.eqb y x) eqn:E; [|reflexivity].
    apply Pos.eqb_eq in E; subst. contradiction.
  Qed.

  (* when no condition holds (in a state that differs from r only at x), nothing happens *)
  Lemma single_all_false r x w ps :
    ~ In x (flat_map free_symsc (conds_of ps)) ->
    count_true fi r (conds_of ps) = Some 0 ->
    nm_exec fi (upd r x w) (print_single x ps) = Some (upd r x w).
  Proof.
    induction ps as [|[c v] tl IH]; intros Hx Hc; [reflexivity|].
    cbn [conds_of map fst flat_map] in Hx, Hc.
    destruct (count_true_cons _ _ _ _ Hc) as [b [m [Eb [Em En]]]].
    destruct b; [lia|]. subst m.
    cbn [print_single map nm_exec nm_exec1 exec_simple fst snd].
    rewrite evalc_upd_irrelevant, Eb by (intro; apply Hx, in_or_app; left; assumption).
    apply IH; [intro; apply Hx, in_or_app; right; assumption | exact Em].
  Qed.

  Lemma single_exec r x ps n :
    ~ In x (flat_map free_symsc (conds_of ps)) ->
    count_true fi r (conds_of ps) = Some n -> n <= 1 ->
    nm_exec fi r (print_single x ps) = after r x (pw_sel r ps).
  Proof.
    revert n. induction ps as [|[c v] tl IH]; intros n Hx Hc Hn; [reflexivity|].
    cbn [conds_of map fst flat_map] in Hx, Hc.
    destruct (count_true_cons _ _ _ _ Hc) as [b [m [Eb [Em En]]]].
    cbn [print_single map nm_exec nm_exec1 exec_simple fst snd pw_sel]. rewrite Eb.
    destruct b.
    - assert (m = 0) by lia. subst m. cbn [after].
      apply single_all_false; [intro; apply Hx, in_or_app; right; assumption | exact Em].
    - subst n. apply (IH m); [intro; apply Hx, in_or_app; right; assumption | exact Em | exact Hn].
  Qed.

  (* one logical IF *)
  Lemma one_if_exec r x c v :
    nm_exec fi r [NS (SIf c x v)] = after r x (pw_sel r [(c, v)]).
  Proof.
    cbn [nm_exec nm_exec1 exec_simple pw_sel]. destruct (evalc r fi c) as [[|]|]; reflexivity.
  Qed.

  (* ---- print_piecewise on the stripped pieces ---- *)
  Lemma print_stripped_exec r D x e l :
    is_pw e = true ->
    print_stmt D x e = Some l ->
    g_self_free D x e = true -> g_disjoint fi r D x e = true ->
    nm_exec fi r l = after r x (pw_sel r (stripped D x e)).
  Proof.
    intros Hpw Hp Hs Hd. unfold print_stmt in Hp. rewrite Hpw in Hp.
    unfold print_piecewise in Hp. fold (stripped D x e) in Hp.
    unfold g_self_free, g_disjoint, several_ifs in Hs, Hd. rewrite Hpw in Hs, Hd.
    destruct (stripped D x e) as [|[c v] [|p2 tl]] eqn:Es; [discriminate| |].
    - destruct (is_ctrue c); [discriminate|]. inversion Hp; subst. apply one_if_exec.
    - cbn [length] in Hs, Hd. change (2 <=? S (S (length tl))) with true in Hs, Hd.
      cbn [andb] in Hs, Hd.
      destruct (single_form ((c, v) :: p2 :: tl)) eqn:Esf.
      + assert (Hl : l = print_single x ((c, v) :: p2 :: tl)) by congruence. rewrite Hl. clear Hp Hl.
        destruct (count_true fi r (conds_of ((c, v) :: p2 :: tl))) as [n|] eqn:Ec; [|discriminate].
        apply (single_exec r x ((c, v) :: p2 :: tl) n).
        * intro Hin. apply memp_In in Hin. rewrite Hin in Hs. discriminate.
        * exact Ec.
        * apply Nat.leb_le. exact Hd.
      + apply print_block_exec. exact Hp.
  Qed.

  (* ---- main lemma ---- *)
  Lemma is_zero_eval r e : is_zero e = true -> exists q, eval r fi e = Some q /\ Qeq q 0.
  Proof.
    destruct e; cbn [is_zero]; try discriminate. intro H. exists q. split; [reflexivity|].
    apply Qeq_bool_iff. exact H.
  Qed.

  Lemma print_sound_lemma D x e r l v :
    print_stmt D x e = Some l ->
    guard_print fi r D x e = true ->
    eval r fi e = Some v ->
    exists r', nm_exec fi r l = Some r' /\
               (exists v', r' x = Some v' /\ Qeq v' v) /\
               (forall y, y <> x -> r' y = r y).
  Proof.
    intros Hp Hg He. unfold guard_print in Hg.
    apply andb_prop in Hg; destruct Hg as [Hg Hz].
    apply andb_prop in Hg; destruct Hg as [Hg Hd].
    apply andb_prop in Hg; destruct Hg as [Hw Hs].
    destruct (is_pw e) eqn:Hpw.
    - (* Piecewise *)
      unfold g_wf in Hw. rewrite Hpw in Hw.
      pose proof (print_stripped_exec r D x e l Hpw Hp Hs Hd) as Hx.
      rewrite <- (of_pieces_pieces e Hw), eval_of_pieces in He.
      unfold stripped, stripped_ps in Hx.
      destruct (has_added_else D x (pieces e)) eqn:Ha.
      + (* the final (w, True) piece was dropped *)
        unfold has_added_else in Ha.
        destruct (last_opt (pieces e)) as [[cl w]|] eqn:El; [|discriminate].
        apply andb_prop in Ha; destruct Ha as [Hc Hv].
        destruct cl; try discriminate.
        rewrite (last_opt_split _ _ El), pw_sel_snoc in He.
        destruct (pw_sel r (removelast (pieces e))) as [[w'|]|] eqn:Esel.
        * cbn [sel_value] in He. cbn [after] in Hx. eexists; split; [exact Hx|]. split.
          -- exists v. unfold upd. rewrite Pos.eqb_refl. split; [exact He | reflexivity].
          -- intros y Hy. unfold upd. apply Pos.eqb_neq in Hy. rewrite Hy. reflexivity.
        * cbn [sel_value] in He. cbn [after] in Hx. exists r; split; [exact Hx|]. split; [|reflexivity].
          destruct (is_sym x w) eqn:Esym.
          -- destruct w; try discriminate. cbn [is_sym] in Esym. apply Pos.eqb_eq in Esym; subst.
             cbn [eval] in He. exists v. split; [exact He | reflexivity].
          -- cbn [orb] in Hv. apply andb_prop in Hv; destruct Hv as [Hz0 HD].
             unfold g_zero_fresh, drops_zero_else in Hz. rewrite Hpw, El in Hz.
             cbn [is_ctrue andb] in Hz. rewrite Esym, Hz0, HD in Hz. cbn [negb andb] in Hz.
             destruct (r x) as [q|] eqn:Erx; [|discriminate]. cbn [oq_is_zero] in Hz.
             apply Qeq_bool_iff in Hz.
             destruct (is_zero_eval r w Hz0) as [q0 [E0 Hq0]]. rewrite E0 in He. inversion He; subst.
             exists q. split; [reflexivity|]. rewrite Hz, Hq0. reflexivity.
        * discriminate.
      + destruct (pw_sel r (pieces e)) as [[w'|]|] eqn:Esel; try discriminate.
        cbn [sel_value] in He. cbn [after] in Hx. eexists; split; [exact Hx|]. split.
        * exists v. unfold upd. rewrite Pos.eqb_refl. split; [exact He | reflexivity].
        * intros y Hy. unfold upd. apply Pos.eqb_neq in Hy. rewrite Hy. reflexivity.
    - (* plain assignment *)
      unfold print_stmt in Hp. rewrite Hpw in Hp. inversion Hp; subst.
      cbn [nm_exec nm_exec1 exec_simple]. eexists; split; [reflexivity|]. split.
      + exists v. unfold upd. rewrite Pos.eqb_refl. split; [exact He | reflexivity].
      + intros y Hy. unfold upd. apply Pos.eqb_neq in Hy. rewrite Hy. reflexivity.
  Qed.

  (* the printer never fails on a well-formed sympy Piecewise: conditions True only in last place,
     at least one piece before it *)
End P.
