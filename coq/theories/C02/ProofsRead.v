(* PV.C02.ProofsRead — more fuel never changes a verdict of the arithmetic reader. *)
From Coq Require Import QArith List Bool PArith Arith Lia.
From PV Require Import Base.Expr C02.Model C02.Read.
Import ListNotations.
Local Open Scope nat_scope.

Lemma bind_mono {A B} (r r' : res A) (k k' : A -> list tok -> res B) :
  (r <> Fuel -> r' = r) -> (forall a rest, k a rest <> Fuel -> k' a rest = k a rest) ->
  bind r k <> Fuel -> bind r' k' = bind r k.
Proof.
  intros Hr Hk H. destruct r as [a rest| |]; cbn [bind] in *.
  - rewrite Hr by discriminate. cbn [bind]. apply Hk. exact H.
  - rewrite Hr by discriminate. reflexivity.
  - contradiction H; reflexivity.
Qed.

Ltac mono_tac :=
  repeat first
    [ reflexivity
    | solve [auto]
    | match goal with H : Fuel <> Fuel |- _ => contradiction H; reflexivity end
    | apply bind_mono; [ solve [auto] | intros ? ? ? | assumption ]
    | match goal with |- context [match ?x with _ => _ end] => is_var x; destruct x end
    | match goal with H : context [match ?x with _ => _ end] |- _ => is_var x; destruct x end ].

(* more fuel never changes a verdict *)
Lemma e_mono f :
  (forall ts, p_expr f ts <> Fuel -> p_expr (S f) ts = p_expr f ts) /\
  (forall acc ts, p_eloop f acc ts <> Fuel -> p_eloop (S f) acc ts = p_eloop f acc ts) /\
  (forall ts, p_term f ts <> Fuel -> p_term (S f) ts = p_term f ts) /\
  (forall acc ts, p_tloop f acc ts <> Fuel -> p_tloop (S f) acc ts = p_tloop f acc ts) /\
  (forall ts, p_factor f ts <> Fuel -> p_factor (S f) ts = p_factor f ts) /\
  (forall ts, p_primary f ts <> Fuel -> p_primary (S f) ts = p_primary f ts).
Proof.
  induction f as [|f [IHe [IHl [IHt [IHtl [IHf IHp]]]]]].
  - repeat split; intros; cbn in *; contradiction.
  - repeat split.
    + intros ts H. change (p_expr (S (S f)) ts) with
        (match ts with
         | KMinus :: tl => bind (p_term (S f) tl) (fun t rest => p_eloop (S f) (Neg t) rest)
         | KPlus :: tl => bind (p_term (S f) tl) (fun t rest => p_eloop (S f) t rest)
         | _ => bind (p_term (S f) ts) (fun t rest => p_eloop (S f) t rest) end).
      change (p_expr (S f) ts) with
        (match ts with
         | KMinus :: tl => bind (p_term f tl) (fun t rest => p_eloop f (Neg t) rest)
         | KPlus :: tl => bind (p_term f tl) (fun t rest => p_eloop f t rest)
         | _ => bind (p_term f ts) (fun t rest => p_eloop f t rest) end) in *.
      destruct ts as [|[] tl]; mono_tac.
    + intros acc ts H. change (p_eloop (S (S f)) acc ts) with
        (match ts with
         | KPlus :: tl => bind (p_term (S f) tl) (fun t rest => p_eloop (S f) (Add acc t) rest)
         | KMinus :: tl => bind (p_term (S f) tl) (fun t rest => p_eloop (S f) (Add acc (Neg t)) rest)
         | _ => Ok acc ts end).
      change (p_eloop (S f) acc ts) with
        (match ts with
         | KPlus :: tl => bind (p_term f tl) (fun t rest => p_eloop f (Add acc t) rest)
         | KMinus :: tl => bind (p_term f tl) (fun t rest => p_eloop f (Add acc (Neg t)) rest)
         | _ => Ok acc ts end) in *.
      destruct ts as [|[] tl]; mono_tac.
    + intros ts H. change (p_term (S (S f)) ts) with (bind (p_factor (S f) ts) (fun a rest => p_tloop (S f) a rest)).
      change (p_term (S f) ts) with (bind (p_factor f ts) (fun a rest => p_tloop f a rest)) in *. mono_tac.
    + intros acc ts H. change (p_tloop (S (S f)) acc ts) with
        (match ts with
         | KTimes :: tl => bind (p_factor (S f) tl) (fun t rest => p_tloop (S f) (Mul acc t) rest)
         | KDiv :: tl => bind (p_factor (S f) tl) (fun t rest => p_tloop (S f) (Div acc t) rest)
         | _ => Ok acc ts end).
      change (p_tloop (S f) acc ts) with
        (match ts with
         | KTimes :: tl => bind (p_factor f tl) (fun t rest => p_tloop f (Mul acc t) rest)
         | KDiv :: tl => bind (p_factor f tl) (fun t rest => p_tloop f (Div acc t) rest)
         | _ => Ok acc ts end) in *.
      destruct ts as [|[] tl]; mono_tac.
    + intros ts H. change (p_factor (S (S f)) ts) with
        (bind (p_primary (S f) ts) (fun b rest =>
          match rest with
          | KPow :: KMinus :: tl => bind (p_factor (S f) tl) (fun e rest' => Ok (Fn2 F_POW b (Neg e)) rest')
          | KPow :: KPlus :: tl => bind (p_factor (S f) tl) (fun e rest' => Ok (Fn2 F_POW b e) rest')
          | KPow :: tl => bind (p_factor (S f) tl) (fun e rest' => Ok (Fn2 F_POW b e) rest')
          | _ => Ok b rest end)).
      change (p_factor (S f) ts) with
        (bind (p_primary f ts) (fun b rest =>
          match rest with
          | KPow :: KMinus :: tl => bind (p_factor f tl) (fun e rest' => Ok (Fn2 F_POW b (Neg e)) rest')
          | KPow :: KPlus :: tl => bind (p_factor f tl) (fun e rest' => Ok (Fn2 F_POW b e) rest')
          | KPow :: tl => bind (p_factor f tl) (fun e rest' => Ok (Fn2 F_POW b e) rest')
          | _ => Ok b rest end)) in *.
      apply bind_mono; [auto | | exact H]. intros b rest Hk.
      destruct rest as [|[] [|[] tl]]; mono_tac.
    + intros ts H. change (p_primary (S (S f)) ts) with
        (match ts with
         | KNum q :: tl => Ok (Num q) tl
         | KSym x :: tl => Ok (Sym x) tl
         | KLp :: tl => bind (p_expr (S f) tl) (fun e rest => match rest with KRp :: r => Ok e r | _ => Fail end)
         | KFn g :: KLp :: tl =>
             bind (p_expr (S f) tl) (fun a rest =>
               match rest with
               | KRp :: r => Ok (Fn1 g a) r
               | KComma :: r => bind (p_expr (S f) r) (fun b rest2 =>
                                  match rest2 with KRp :: r2 => Ok (Fn2 g a b) r2 | _ => Fail end)
               | _ => Fail end)
         | _ => Fail end).
      change (p_primary (S f) ts) with
        (match ts with
         | KNum q :: tl => Ok (Num q) tl
         | KSym x :: tl => Ok (Sym x) tl
         | KLp :: tl => bind (p_expr f tl) (fun e rest => match rest with KRp :: r => Ok e r | _ => Fail end)
         | KFn g :: KLp :: tl =>
             bind (p_expr f tl) (fun a rest =>
               match rest with
               | KRp :: r => Ok (Fn1 g a) r
               | KComma :: r => bind (p_expr f r) (fun b rest2 =>
                                  match rest2 with KRp :: r2 => Ok (Fn2 g a b) r2 | _ => Fail end)
               | _ => Fail end)
         | _ => Fail end) in *.
      destruct ts as [|[] [|[] tl]]; mono_tac.
Qed.

(* ---- lifting a verdict to any larger fuel ---- *)
Lemma lift_gen {A} (g : nat -> res A) :
  (forall f, g f <> Fuel -> g (S f) = g f) -> forall f r, g f = r -> r <> Fuel -> forall f', f <= f' -> g f' = r.
Proof.
  intros Hs f r Hg Hr f' Hle. induction Hle as [|m Hle IH]; [exact Hg|].
  rewrite Hs; [exact IH | rewrite IH; exact Hr].
Qed.

Lemma lift_primary f ts v R f' : p_primary f ts = Ok v R -> f <= f' -> p_primary f' ts = Ok v R.
Proof. intros H L. apply (lift_gen (fun f => p_primary f ts)) with (f := f); auto; [intros; apply e_mono; assumption | discriminate]. Qed.
Lemma lift_factor f ts v R f' : p_factor f ts = Ok v R -> f <= f' -> p_factor f' ts = Ok v R.
Proof. intros H L. apply (lift_gen (fun f => p_factor f ts)) with (f := f); auto; [intros; apply e_mono; assumption | discriminate]. Qed.
Lemma lift_term f ts v R f' : p_term f ts = Ok v R -> f <= f' -> p_term f' ts = Ok v R.
Proof. intros H L. apply (lift_gen (fun f => p_term f ts)) with (f := f); auto; [intros; apply e_mono; assumption | discriminate]. Qed.
Lemma lift_expr f ts v R f' : p_expr f ts = Ok v R -> f <= f' -> p_expr f' ts = Ok v R.
Proof. intros H L. apply (lift_gen (fun f => p_expr f ts)) with (f := f); auto; [intros; apply e_mono; assumption | discriminate]. Qed.

