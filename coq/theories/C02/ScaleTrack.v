(* PV.C02.ScaleTrack — executable model of how the index of the scale parameter S<k> of the central compartment is
   carried through a HISTORY of compartment renumberings by update_ode_system: at every update of the ODE system
   pk_param_conversion renames S<old> -> S<new> with create_compartment_remap(stored map + OUTPUT, new map + OUTPUT),
   and the stored compartment map is then replaced by the new one (update_model_record on the ADVAN path, to_des on
   the $DES path since fix 4524793).  [refresh = false] is the behaviour without that replacement.  No proofs here. *)
From Coq Require Import List Bool PArith Arith.
From PV Require Import Base.Expr C02.Remap.
Import ListNotations.
Local Open Scope nat_scope.

Definition with_output (out : id) (m : cmap) : cmap := m ++ [(out, S (length m))].

(* one update: names = compartment_names of the new system *)
Definition scale_step (refresh : bool) (out : id) (st : cmap * nat) (names : list id) : cmap * nat :=
  let '(stored, k) := st in
  let newmap := new_compartmental_map names in
  let remap := create_compartment_remap (with_output out stored) (with_output out newmap) in
  let k' := match nlookup remap k with Some x => x | None => k end in      (* statements.subs({S<old>: S<new>}) *)
  (if refresh then newmap else stored, k').

Definition scale_run (refresh : bool) (out : id) (st : cmap * nat) (hist : list (list id)) : cmap * nat :=
  fold_left (scale_step refresh out) hist st.

(* the number of a compartment in a system *)
Definition number_of (names : list id) (c : id) : option nat := alookup (new_compartmental_map names) c.

(* input well-formedness: compartment names pairwise different, the central compartment present, OUTPUT not a name *)
Fixpoint id_nodup (l : list id) : bool :=
  match l with [] => true | x :: tl => negb (existsb (Pos.eqb x) tl) && id_nodup tl end.
Definition names_ok (out central : id) (names : list id) : bool :=
  id_nodup names && existsb (Pos.eqb central) names && negb (existsb (Pos.eqb out) names).
