(* PV.C02.ProofsRemap — create_compartment_remap sends the old number of every surviving compartment
   to its new number, and nothing else. *)
From Coq Require Import List Bool PArith Arith Lia.
From PV Require Import Base.Expr C02.Remap.
Import ListNotations.
Local Open Scope nat_scope.

Lemma nlookup_set_same {V} (d : list (nat * V)) k v : nlookup (ndict_set d k v) k = Some v.
Proof.
  induction d as [|[k' v'] tl IH]; cbn [ndict_set nlookup].
  - rewrite Nat.eqb_refl. reflexivity.
  - destruct (Nat.eqb k' k) eqn:E; cbn [nlookup]; rewrite E; [reflexivity | exact IH].
Qed.

Lemma nlookup_set_other {V} (d : list (nat * V)) k v k2 : k2 <> k -> nlookup (ndict_set d k v) k2 = nlookup d k2.
Proof.
  intro H. induction d as [|[k' v'] tl IH]; cbn [ndict_set nlookup].
  - destruct (Nat.eqb k k2) eqn:E; [apply Nat.eqb_eq in E; congruence | reflexivity].
  - destruct (Nat.eqb k' k) eqn:E; cbn [nlookup].
    + apply Nat.eqb_eq in E; subst k'. destruct (Nat.eqb k k2) eqn:E2; [apply Nat.eqb_eq in E2; congruence | reflexivity].
    + destruct (Nat.eqb k' k2); [reflexivity | exact IH].
Qed.

(* fold invariant: entries outside the numbers still to be processed are final *)
Lemma remap_fold_other newmap l : forall acc n,
  ~ In n (map snd l) -> nlookup (fold_left (remap_step newmap) l acc) n = nlookup acc n.
Proof.
  induction l as [|[name num] tl IH]; intros acc n Hn; cbn [fold_left]; [reflexivity|].
  cbn [map snd In] in Hn. rewrite IH by tauto.
  unfold remap_step; cbn [fst snd]. destruct (alookup newmap name); [|reflexivity].
  apply nlookup_set_other. intro; subst; tauto.
Qed.

Lemma remap_consistent_lemma oldmap newmap : NoDup (map snd oldmap) ->
  forall name n n' acc, In (name, n) oldmap -> alookup newmap name = Some n' ->
    nlookup (fold_left (remap_step newmap) oldmap acc) n = Some n'.
Proof.
  induction oldmap as [|[nm num] tl IH]; intros ND name n n' acc Hin Hl; [destruct Hin|].
  cbn [map snd] in ND. inversion ND as [|? ? Hnot ND']; subst.
  cbn [fold_left]. destruct Hin as [Heq|Hin].
  - inversion Heq; subst. rewrite remap_fold_other by exact Hnot.
    unfold remap_step; cbn [fst snd]. rewrite Hl. apply nlookup_set_same.
  - apply (IH ND' name n n' _ Hin Hl).
Qed.

Lemma remap_only_survivors_lemma newmap : forall oldmap acc n n',
  nlookup (fold_left (remap_step newmap) oldmap acc) n = Some n' ->
  nlookup acc n = Some n' \/ exists name, In (name, n) oldmap /\ alookup newmap name = Some n'.
Proof.
  induction oldmap as [|[nm num] tl IH]; intros acc n n' H; cbn [fold_left] in H; [left; exact H|].
  destruct (IH _ _ _ H) as [H1|[name [Hin Hl]]].
  - unfold remap_step in H1; cbn [fst snd] in H1. destruct (alookup newmap nm) as [v|] eqn:E.
    + destruct (Nat.eq_dec n num) as [->|Hne].
      * rewrite nlookup_set_same in H1. inversion H1; subst. right. exists nm. split; [left; reflexivity | exact E].
      * rewrite nlookup_set_other in H1 by exact Hne. left; exact H1.
    + left; exact H1.
  - right. exists name. split; [right; exact Hin | exact Hl].
Qed.

(* new_compartmental_map numbers the names 1, 2, ... in order *)
Lemma alookup_dict_set_same {V} (d : list (id * V)) k v : alookup (dict_set d k v) k = Some v.
Proof.
  induction d as [|[k' v'] tl IH]; cbn [dict_set alookup].
  - rewrite Pos.eqb_refl. reflexivity.
  - destruct (Pos.eqb k' k) eqn:E; cbn [alookup]; rewrite E; [reflexivity | exact IH].
Qed.
Lemma alookup_dict_set_other {V} (d : list (id * V)) k v k2 : k2 <> k -> alookup (dict_set d k v) k2 = alookup d k2.
Proof.
  intro H. induction d as [|[k' v'] tl IH]; cbn [dict_set alookup].
  - destruct (Pos.eqb k k2) eqn:E; [apply Pos.eqb_eq in E; congruence | reflexivity].
  - destruct (Pos.eqb k' k) eqn:E; cbn [alookup].
    + apply Pos.eqb_eq in E; subst k'. destruct (Pos.eqb k k2) eqn:E2; [apply Pos.eqb_eq in E2; congruence | reflexivity].
    + destruct (Pos.eqb k' k2); [reflexivity | exact IH].
Qed.

Lemma new_cmap_from_spec : forall names i acc k name,
  NoDup names -> nth_error names k = Some name ->
  alookup (new_cmap_from names i acc) name = Some (i + k).
Proof.
  induction names as [|n tl IH]; intros i acc k name ND Hk; [destruct k; discriminate|].
  inversion ND as [|? ? Hnot ND']; subst. cbn [new_cmap_from]. destruct k as [|k].
  - cbn in Hk. inversion Hk; subst. rewrite Nat.add_0_r.
    assert (Hkeep : forall l j a, ~ In name l -> alookup (new_cmap_from l j a) name = alookup a name).
    { induction l as [|m l IHl]; intros j a Hn; [reflexivity|]. cbn [new_cmap_from]. rewrite IHl.
      - apply alookup_dict_set_other. intro; subst; apply Hn; left; reflexivity.
      - intro; apply Hn; right; assumption. }
    rewrite Hkeep by exact Hnot. apply alookup_dict_set_same.
  - cbn in Hk. rewrite (IH (S i) _ k name ND' Hk). f_equal. lia.
Qed.
