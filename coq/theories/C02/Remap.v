(* PV.C02.Remap — executable model of update.py: new_compartmental_map, create_compartment_remap
   (Python dicts as insertion-ordered association lists).  No proofs here. *)
From Coq Require Import List Bool PArith Arith.
From PV Require Import Base.Expr.
Import ListNotations.
Local Open Scope nat_scope.

Definition cmap := list (id * nat).          (* compartment name -> number *)

(* {name: i for i, name in enumerate(cs.compartment_names, start=1)} : a later duplicate name overwrites *)
Fixpoint dict_set {V} (d : list (id * V)) (k : id) (v : V) : list (id * V) :=
  match d with
  | [] => [(k, v)]
  | (k', v') :: tl => if Pos.eqb k' k then (k', v) :: tl else (k', v') :: dict_set tl k v
  end.
Fixpoint new_cmap_from (names : list id) (i : nat) (acc : cmap) : cmap :=
  match names with
  | [] => acc
  | n :: tl => new_cmap_from tl (S i) (dict_set acc n i)
  end.
Definition new_compartmental_map (names : list id) : cmap := new_cmap_from names 1 [].

(* nat-keyed dict *)
Fixpoint nlookup {V} (d : list (nat * V)) (k : nat) : option V :=
  match d with [] => None | (k', v) :: tl => if Nat.eqb k' k then Some v else nlookup tl k end.
Fixpoint ndict_set {V} (d : list (nat * V)) (k : nat) (v : V) : list (nat * V) :=
  match d with
  | [] => [(k, v)]
  | (k', v') :: tl => if Nat.eqb k' k then (k', v) :: tl else (k', v') :: ndict_set tl k v
  end.

(* for name, number in oldmap.items(): if name in newmap: remap[number] = newmap[name] *)
Definition remap_step (newmap : cmap) (acc : list (nat * nat)) (p : id * nat) : list (nat * nat) :=
  match alookup newmap (fst p) with
  | Some n' => ndict_set acc (snd p) n'
  | None => acc
  end.
Definition create_compartment_remap (oldmap newmap : cmap) : list (nat * nat) :=
  fold_left (remap_step newmap) oldmap [].
