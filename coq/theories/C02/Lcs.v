(* PV.C02.Lcs — executable model of pharmpy.internals.sequence.lcs (diff, _matrix, _diff),
   mirroring the Python statement by statement: common head, common tail, DP table of LCS
   lengths of PREFIXES, backtracking from the ends with the tie-break
   [c[i+1][j] >= c[i][j+1] -> insertion first].  No proofs here. *)
From Coq Require Import List Bool Arith Lia.
Import ListNotations.
Local Open Scope nat_scope.

Inductive op := Keep | Ins | Del.      (* Python: 0, +1, -1 *)

Definition op_eqb (a b : op) : bool :=
  match a, b with Keep, Keep | Ins, Ins | Del, Del => true | _, _ => false end.

Section Lcs.
  Variable A : Type.
  Variable eqb : A -> A -> bool.

  Definition script := list (op * A).

  (* for a, b in zip(old, new): if a == b: yield (0, b) else break
     returns (kept elements [taken from the second list], rest of first, rest of second) *)
  Fixpoint common_prefix (a b : list A) : list A * (list A * list A) :=
    match a, b with
    | x :: a', y :: b' =>
        if eqb x y then let '(p, r) := common_prefix a' b' in (y :: p, r) else ([], (a, b))
    | _, _ => ([], (a, b))
    end.

  (* one row of _matrix:  cur[0] = 0;  cur[j+1] = prev[j] + 1 if x == b[j] else max(cur[j], prev[j+1]) *)
  Fixpoint row_go (x : A) (b : list A) (prev : list nat) (left : nat) : list nat :=
    match b, prev with
    | y :: b', pj :: ((pj1 :: _) as prev') =>
        let v := if eqb x y then S pj else Nat.max left pj1 in v :: row_go x b' prev' v
    | _, _ => []
    end.
  Definition next_row (x : A) (b : list A) (prev : list nat) : list nat := 0 :: row_go x b prev 0.

  Fixpoint rows (a b : list A) (prev : list nat) : list (list nat) :=
    match a with
    | [] => []
    | x :: a' => let r := next_row x b prev in r :: rows a' b r
    end.
  Definition matrix (a b : list A) : list (list nat) :=
    let r0 := repeat 0 (S (length b)) in r0 :: rows a b r0.

  Definition cget (c : list (list nat)) (i j : nat) : nat := nth j (nth i c []) 0.

  (* _diff(c, x, y, i, j) with i' = i + 1, j' = j + 1 (so "i < 0" is i' = 0).  Recursion on fuel;
     fuel = i' + j' always suffices (every call decreases i' + j').  An index outside the lists
     (never reached from [diff]) ends the recursion. *)
  Fixpoint bt (fuel : nat) (c : list (list nat)) (x y : list A) (i j : nat) : script :=
    match fuel with
    | 0 => []
    | S f =>
        match i, j with
        | 0, 0 => []
        | 0, S j1 =>
            match nth_error y j1 with
            | Some yj => bt f c x y 0 j1 ++ [(Ins, yj)]
            | None => [] end
        | S i1, 0 =>
            match nth_error x i1 with
            | Some xi => bt f c x y i1 0 ++ [(Del, xi)]
            | None => [] end
        | S i1, S j1 =>
            match nth_error x i1, nth_error y j1 with
            | Some xi, Some yj =>
                if eqb xi yj then bt f c x y i1 j1 ++ [(Keep, xi)]
                else if cget c i1 j <=? cget c i j1           (* c[i+1][j] >= c[i][j+1] *)
                     then bt f c x y i j1 ++ [(Ins, yj)]
                     else bt f c x y i1 j ++ [(Del, xi)]
            | _, _ => [] end
        end
    end.

  Definition diff_core (x y : list A) : script :=
    bt (length x + length y) (matrix x y) x y (length x) (length y).

  Definition keeps (l : list A) : script := map (fun v => (Keep, v)) l.

  Definition diff (old new : list A) : script :=
    let '(pre, (rold, rnew)) := common_prefix old new in
    (* saved = common prefix of the reversed rests, in reversed order *)
    let '(saved, (rrold, rrnew)) := common_prefix (rev rold) (rev rnew) in
    keeps pre ++ diff_core (rev rrold) (rev rrnew) ++ keeps (rev saved).

  (* ---- what a script means ---------------------------------------------------------------- *)
  Fixpoint old_of (s : script) : list A :=
    match s with
    | [] => []
    | (Ins, _) :: tl => old_of tl
    | (_, v) :: tl => v :: old_of tl
    end.
  Fixpoint new_of (s : script) : list A :=
    match s with
    | [] => []
    | (Del, _) :: tl => new_of tl
    | (_, v) :: tl => v :: new_of tl
    end.
  Fixpoint kept (s : script) : list A :=
    match s with
    | [] => []
    | (Keep, v) :: tl => v :: kept tl
    | _ :: tl => kept tl
    end.

  (* applying an edit script to a list: Keep and Del must match the head of what is left *)
  Fixpoint apply_script (s : script) (a : list A) : option (list A) :=
    match s with
    | [] => match a with [] => Some [] | _ => None end
    | (Ins, v) :: tl => option_map (cons v) (apply_script tl a)
    | (Keep, v) :: tl =>
        match a with
        | w :: a' => if eqb v w then option_map (cons v) (apply_script tl a') else None
        | [] => None end
    | (Del, v) :: tl =>
        match a with
        | w :: a' => if eqb v w then apply_script tl a' else None
        | [] => None end
    end.

  (* ---- specification of LCS length (structural, on heads) ---------------------------------- *)
  Fixpoint lcs_length (a b : list A) : nat :=
    match a with
    | [] => 0
    | x :: a' =>
        (fix inner (b : list A) : nat :=
           match b with
           | [] => 0
           | y :: b' => if eqb x y then S (lcs_length a' b') else Nat.max (inner b') (lcs_length a' b)
           end) b
    end.

  Inductive subseq : list A -> list A -> Prop :=
  | sub_nil : forall l, subseq [] l
  | sub_take : forall x s l, subseq s l -> subseq (x :: s) (x :: l)
  | sub_skip : forall x s l, subseq s l -> subseq s (x :: l).
End Lcs.

Arguments common_prefix {A}. Arguments matrix {A}. Arguments bt {A}. Arguments diff_core {A}.
Arguments diff {A}. Arguments old_of {A}. Arguments new_of {A}. Arguments kept {A}.
Arguments apply_script {A}. Arguments lcs_length {A}. Arguments subseq {A}. Arguments keeps {A}.
Arguments next_row {A}. Arguments rows {A}. Arguments row_go {A}.
