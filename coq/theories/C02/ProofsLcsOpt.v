(* PV.C02.ProofsLcsOpt — the script of lcs.diff keeps a LONGEST common subsequence. *)
From Coq Require Import List Bool Arith Lia.
From PV Require Import C02.Lcs C02.ProofsLcs.
Import ListNotations.
Local Open Scope nat_scope.

Section P.
  Variable A : Type.
  Variable eqb : A -> A -> bool.
  Hypothesis eqb_spec : forall x y, eqb x y = true <-> x = y.

  Notation lcs := (lcs_length eqb).

  (* ---- the recurrences of the specification ---- *)
  Lemma lcs_nil_r a : lcs a [] = 0.
  Proof. destruct a; reflexivity. Qed.
  Lemma lcs_cons x a y b :
    lcs (x :: a) (y :: b) = if eqb x y then S (lcs a b) else Nat.max (lcs (x :: a) b) (lcs a (y :: b)).
  Proof. reflexivity. Qed.

  (* ---- subsequences ---- *)
  Lemma subseq_tail (z : A) c l : subseq (z :: c) l -> subseq c l.
  Proof.
    induction l as [|w l IH]; intro H; inversion H; subst.
    - constructor. assumption.
    - constructor. apply IH. assumption.
  Qed.

  Lemma subseq_nil_inv (c : list A) : subseq c [] -> c = [].
  Proof. intro H; inversion H; reflexivity. Qed.

  (* ---- lcs_length is an upper bound for every common subsequence ---- *)
  Lemma lcs_upper : forall a b c, subseq c a -> subseq c b -> length c <= lcs a b.
  Proof.
    induction a as [|x a IHa]; intros b c Ha Hb.
    - apply subseq_nil_inv in Ha. subst. cbn. lia.
    - revert c Ha Hb. induction b as [|y b IHb]; intros c Ha Hb.
      + apply subseq_nil_inv in Hb. subst. cbn. lia.
      + rewrite lcs_cons. destruct c as [|z c]; [cbn; lia|].
        destruct (eqb x y) eqn:E.
        * assert (Ca : subseq c a).
          { inversion Ha; subst; [assumption | eapply subseq_tail; eassumption]. }
          assert (Cb : subseq c b).
          { inversion Hb; subst; [assumption | eapply subseq_tail; eassumption]. }
          specialize (IHa b c Ca Cb). cbn [length]. lia.
        * inversion Ha; subst.
          -- (* z = x taken in a *)
             inversion Hb; subst.
             ++ rewrite (proj2 (eqb_spec y y) eq_refl) in E. discriminate.
             ++ assert (H : length (x :: c) <= lcs (x :: a) b) by (apply IHb; assumption). lia.
          -- assert (H : length (z :: c) <= lcs a (y :: b)) by (apply IHa; assumption). lia.
  Qed.

  (* ---- and it is attained ---- *)
  Lemma lcs_attained : forall a b, exists c, subseq c a /\ subseq c b /\ length c = lcs a b.
  Proof.
    induction a as [|x a IHa]; intros b.
    - exists []. repeat split; constructor.
    - induction b as [|y b IHb].
      + exists []. repeat split; try constructor.
      + rewrite lcs_cons. destruct (eqb x y) eqn:E.
        * apply eqb_spec in E; subst y. destruct (IHa b) as [c [H1 [H2 H3]]].
          exists (x :: c). repeat split; try (constructor; assumption). cbn [length]. lia.
        * destruct (Nat.max_spec (lcs (x :: a) b) (lcs a (y :: b))) as [[Hlt Hm]|[Hge Hm]]; rewrite Hm.
          -- destruct (IHa (y :: b)) as [c [H1 [H2 H3]]]. exists c. repeat split; try assumption.
             constructor. assumption.
          -- destruct IHb as [c [H1 [H2 H3]]]. exists c. repeat split; try assumption.
             constructor. assumption.
  Qed.

  (* ---- symmetry under reversal ---- *)
  Lemma subseq_app (c1 c2 l1 l2 : list A) : subseq c1 l1 -> subseq c2 l2 -> subseq (c1 ++ c2) (l1 ++ l2).
  Proof.
    intros H1 H2. induction H1; cbn [app].
    - induction l as [|w l IH]; cbn [app]; [assumption | constructor; assumption].
    - constructor. assumption.
    - constructor. assumption.
  Qed.

  Lemma subseq_rev (c l : list A) : subseq c l -> subseq (rev c) (rev l).
  Proof.
    induction 1; cbn [rev].
    - constructor.
    - apply subseq_app; [assumption | constructor; constructor].
    - rewrite <- (app_nil_r (rev s)). apply subseq_app; [assumption | constructor].
  Qed.

  Lemma lcs_rev_le a b : lcs (rev a) (rev b) <= lcs a b.
  Proof.
    destruct (lcs_attained (rev a) (rev b)) as [c [H1 [H2 H3]]].
    rewrite <- H3, <- (rev_length c). apply lcs_upper.
    - rewrite <- (rev_involutive a). apply subseq_rev. assumption.
    - rewrite <- (rev_involutive b). apply subseq_rev. assumption.
  Qed.

  Lemma lcs_rev a b : lcs (rev a) (rev b) = lcs a b.
  Proof.
    apply Nat.le_antisymm; [apply lcs_rev_le|].
    pose proof (lcs_rev_le (rev a) (rev b)) as H. rewrite !rev_involutive in H. exact H.
  Qed.

  Lemma lcs_common_prefix p a b : lcs (p ++ a) (p ++ b) = length p + lcs a b.
  Proof.
    induction p as [|x p IH]; [reflexivity|]. cbn [app length]. rewrite lcs_cons.
    rewrite (proj2 (eqb_spec x x) eq_refl), IH. reflexivity.
  Qed.

  Lemma lcs_common_suffix a b s : lcs (a ++ s) (b ++ s) = lcs a b + length s.
  Proof.
    rewrite <- (lcs_rev (a ++ s) (b ++ s)), !rev_app_distr, lcs_common_prefix, rev_length, lcs_rev. lia.
  Qed.

  (* ---- the DP table holds the LCS lengths of the prefixes ---- *)
  Section Table.
    Variables x y : list A.
    Definition L (i j : nat) : nat := lcs (rev (firstn i x)) (rev (firstn j y)).

    Lemma L_0_l j : L 0 j = 0. Proof. reflexivity. Qed.
    Lemma L_0_r i : L i 0 = 0. Proof. unfold L. cbn [firstn rev]. apply lcs_nil_r. Qed.

    Lemma L_step i j xi yj :
      nth_error x i = Some xi -> nth_error y j = Some yj ->
      L (S i) (S j) = if eqb xi yj then S (L i j) else Nat.max (L (S i) j) (L i (S j)).
    Proof.
      intros Hx Hy. unfold L.
      rewrite (firstn_snoc A x i xi Hx), (firstn_snoc A y j yj Hy), !rev_app_distr. cbn [rev app].
      rewrite lcs_cons. reflexivity.
    Qed.

    Definition Lrow (i : nat) : list nat := map (L i) (seq 0 (S (length y))).

    Lemma skipn_map_seq {B} (f : nat -> B) k s n : skipn k (map f (seq s n)) = map f (seq (s + k) (n - k)).
    Proof.
      revert s n. induction k as [|k IH]; intros s n.
      - rewrite Nat.add_0_r, Nat.sub_0_r. reflexivity.
      - destruct n as [|n]; [reflexivity|]. cbn [seq map skipn]. rewrite IH.
        replace (S s + k) with (s + S k) by lia. reflexivity.
    Qed.

    Lemma skipn_nth_error (l : list A) k v : nth_error l k = Some v -> skipn k l = v :: skipn (S k) l.
    Proof.
      revert k. induction l as [|w l IH]; intros [|k] H; cbn in H; try discriminate.
      - inversion H. reflexivity.
      - cbn [skipn]. rewrite (IH _ H). reflexivity.
    Qed.

    Lemma skipn_cons_inv (l : list A) k v tl : skipn k l = v :: tl -> nth_error l k = Some v /\ skipn (S k) l = tl.
    Proof.
      revert k. induction l as [|w l IH]; intros [|k] H; cbn [skipn] in H; try discriminate.
      - inversion H. split; reflexivity.
      - destruct (IH _ H) as [H1 H2]. split; [exact H1 | exact H2].
    Qed.

    (* one row of the table *)
    Lemma row_go_spec i xi : nth_error x i = Some xi ->
      forall b j0, skipn j0 y = b ->
        row_go eqb xi b (skipn j0 (Lrow i)) (L (S i) j0) = map (L (S i)) (seq (S j0) (length y - j0)).
    Proof.
      intros Hx. induction b as [|yj b IH]; intros j0 Hb.
      - assert (Hl : length y <= j0).
        { destruct (Nat.le_gt_cases (length y) j0) as [H|H]; [exact H|].
          apply (f_equal (@length A)) in Hb. rewrite skipn_length in Hb. cbn in Hb. lia. }
        replace (length y - j0) with 0 by lia. destruct (skipn j0 (Lrow i)); reflexivity.
      - destruct (skipn_cons_inv _ _ _ _ Hb) as [Hy Hb'].
        assert (Hlt : j0 < length y) by (apply nth_error_Some; rewrite Hy; discriminate).
        unfold Lrow at 1. rewrite skipn_map_seq. cbn [Nat.add].
        replace (S (length y) - j0) with (S (S (length y - S j0))) by lia.
        cbn [seq map row_go].
        replace (length y - j0) with (S (length y - S j0)) by lia. cbn [seq map].
        rewrite <- (L_step i j0 xi yj Hx Hy). f_equal.
        specialize (IH (S j0) Hb'). unfold Lrow in IH. rewrite skipn_map_seq in IH. cbn [Nat.add] in IH.
        replace (S (length y) - S j0) with (S (length y - S j0)) in IH by lia.
        cbn [seq map] in IH. exact IH.
    Qed.

    Lemma next_row_spec i xi : nth_error x i = Some xi -> next_row eqb xi y (Lrow i) = Lrow (S i).
    Proof.
      intro Hx. unfold next_row.
      pose proof (row_go_spec i xi Hx y 0 eq_refl) as H. cbn [skipn] in H. rewrite L_0_r in H.
      rewrite H, Nat.sub_0_r. unfold Lrow. cbn [seq map]. rewrite L_0_r. reflexivity.
    Qed.

    Lemma rows_spec : forall a k, skipn k x = a ->
      rows eqb a y (Lrow k) = map Lrow (seq (S k) (length x - k)).
    Proof.
      induction a as [|xk a IH]; intros k Ha.
      - assert (Hl : length x <= k).
        { destruct (Nat.le_gt_cases (length x) k) as [H|H]; [exact H|].
          apply (f_equal (@length A)) in Ha. rewrite skipn_length in Ha. cbn in Ha. lia. }
        replace (length x - k) with 0 by lia. reflexivity.
      - destruct (skipn_cons_inv _ _ _ _ Ha) as [Hx Ha'].
        assert (Hlt : k < length x) by (apply nth_error_Some; rewrite Hx; discriminate).
        cbn [rows]. rewrite (next_row_spec k xk Hx), (IH (S k) Ha').
        replace (length x - k) with (S (length x - S k)) by lia. reflexivity.
    Qed.

    Lemma Lrow_0 : Lrow 0 = repeat 0 (S (length y)).
    Proof.
      unfold Lrow. generalize (S (length y)) as n. generalize 0 at 2 as s.
      intros s n; revert s. induction n as [|n IH]; intro s; [reflexivity|].
      cbn [seq map repeat]. rewrite L_0_l, IH. reflexivity.
    Qed.

    Lemma matrix_spec : matrix eqb x y = map Lrow (seq 0 (S (length x))).
    Proof.
      unfold matrix. rewrite <- Lrow_0. cbn [seq map].
      rewrite (rows_spec x 0 eq_refl), Nat.sub_0_r. reflexivity.
    Qed.

    Lemma cget_spec i j : i <= length x -> j <= length y -> cget (matrix eqb x y) i j = L i j.
    Proof.
      intros Hi Hj. unfold cget. rewrite matrix_spec.
      rewrite (nth_indep _ [] (Lrow 0)) by (rewrite map_length, seq_length; lia).
      rewrite (map_nth Lrow (seq 0 (S (length x))) 0 i), seq_nth by lia. cbn [Nat.add].
      unfold Lrow. rewrite (nth_indep _ 0 (L i 0)) by (rewrite map_length, seq_length; lia).
      rewrite (map_nth (L i) (seq 0 (S (length y))) 0 j), seq_nth by lia. reflexivity.
    Qed.

    (* ---- backtracking along the table keeps L i j elements ---- *)
    Lemma bt_kept_length fuel : forall i j,
      i <= length x -> j <= length y -> i + j <= fuel ->
      length (kept (bt eqb fuel (matrix eqb x y) x y i j)) = L i j.
    Proof.
      induction fuel as [|f IH]; intros i j Hi Hj Hf.
      - assert (i = 0) by lia. assert (j = 0) by lia. subst. reflexivity.
      - cbn [bt]. destruct i as [|i1], j as [|j1].
        + reflexivity.
        + destruct (nth_error_lt A y j1 ltac:(lia)) as [yj Ey]. rewrite Ey.
          rewrite kept_app, app_length. cbn [kept length]. rewrite (IH 0 j1) by lia. rewrite !L_0_l. lia.
        + destruct (nth_error_lt A x i1 ltac:(lia)) as [xi Ex]. rewrite Ex.
          rewrite kept_app, app_length. cbn [kept length]. rewrite (IH i1 0) by lia. rewrite !L_0_r. lia.
        + destruct (nth_error_lt A x i1 ltac:(lia)) as [xi Ex].
          destruct (nth_error_lt A y j1 ltac:(lia)) as [yj Ey]. rewrite Ex, Ey.
          rewrite (L_step i1 j1 xi yj Ex Ey).
          destruct (eqb xi yj) eqn:E.
          * rewrite kept_app, app_length. cbn [kept length]. rewrite (IH i1 j1) by lia. lia.
          * rewrite (cget_spec i1 (S j1)) by lia. rewrite (cget_spec (S i1) j1) by lia.
            destruct (L i1 (S j1) <=? L (S i1) j1) eqn:Ec.
            -- apply Nat.leb_le in Ec. rewrite kept_app, app_length. cbn [kept length].
               rewrite (IH (S i1) j1) by lia. lia.
            -- apply Nat.leb_gt in Ec. rewrite kept_app, app_length. cbn [kept length].
               rewrite (IH i1 (S j1)) by lia. lia.
    Qed.

    Lemma diff_core_kept_length : length (kept (diff_core eqb x y)) = lcs x y.
    Proof.
      unfold diff_core. rewrite bt_kept_length by lia. unfold L. rewrite !firstn_all. apply lcs_rev.
    Qed.
  End Table.

  Lemma diff_kept_optimal old new : length (kept (diff eqb old new)) = lcs old new.
  Proof.
    unfold diff.
    destruct (common_prefix eqb old new) as [pre [rold rnew]] eqn:E1.
    destruct (common_prefix eqb (rev rold) (rev rnew)) as [saved [rrold rrnew]] eqn:E2.
    destruct (common_prefix_spec A eqb eqb_spec _ _ _ _ _ E1) as [Ha Hb].
    destruct (common_prefix_spec A eqb eqb_spec _ _ _ _ _ E2) as [Hc Hd].
    rewrite !kept_app, !app_length, !kept_keeps, diff_core_kept_length, rev_length.
    assert (Hr : rold = rev rrold ++ rev saved).
    { rewrite <- rev_app_distr, <- Hc, rev_involutive. reflexivity. }
    assert (Hn : rnew = rev rrnew ++ rev saved).
    { rewrite <- rev_app_distr, <- Hd, rev_involutive. reflexivity. }
    rewrite Ha, Hb, lcs_common_prefix, Hr, Hn, lcs_common_suffix, rev_length. lia.
  Qed.
End P.
