(* PV.C02.ProofsReadE — the reader inverts the emitter on expressions (explicit fuel bounds). *)
From Coq Require Import QArith List Bool PArith Arith Lia.
From PV Require Import Base.Expr C02.Model C02.Read.
Import ListNotations.
Local Open Scope nat_scope.

(* ---- unfolding equations ---- *)
Lemma bind_ok {A B} (a : A) r (k : A -> list tok -> res B) : bind (Ok a r) k = k a r.
Proof. reflexivity. Qed.
Lemma p_expr_S n ts : p_expr (S n) ts =
  match ts with
  | KMinus :: tl => bind (p_term n tl) (fun t rest => p_eloop n (Neg t) rest)
  | KPlus :: tl => bind (p_term n tl) (fun t rest => p_eloop n t rest)
  | _ => bind (p_term n ts) (fun t rest => p_eloop n t rest)
  end.
Proof. reflexivity. Qed.
Lemma p_eloop_S n acc ts : p_eloop (S n) acc ts =
  match ts with
  | KPlus :: tl => bind (p_term n tl) (fun t rest => p_eloop n (Add acc t) rest)
  | KMinus :: tl => bind (p_term n tl) (fun t rest => p_eloop n (Add acc (Neg t)) rest)
  | _ => Ok acc ts
  end.
Proof. reflexivity. Qed.
Lemma p_term_S n ts : p_term (S n) ts = bind (p_factor n ts) (fun a rest => p_tloop n a rest).
Proof. reflexivity. Qed.
Lemma p_tloop_S n acc ts : p_tloop (S n) acc ts =
  match ts with
  | KTimes :: tl => bind (p_factor n tl) (fun t rest => p_tloop n (Mul acc t) rest)
  | KDiv :: tl => bind (p_factor n tl) (fun t rest => p_tloop n (Div acc t) rest)
  | _ => Ok acc ts
  end.
Proof. reflexivity. Qed.
Lemma p_factor_S n ts : p_factor (S n) ts =
  bind (p_primary n ts) (fun b rest =>
    match rest with
    | KPow :: KMinus :: tl => bind (p_factor n tl) (fun e rest' => Ok (Fn2 F_POW b (Neg e)) rest')
    | KPow :: KPlus :: tl => bind (p_factor n tl) (fun e rest' => Ok (Fn2 F_POW b e) rest')
    | KPow :: tl => bind (p_factor n tl) (fun e rest' => Ok (Fn2 F_POW b e) rest')
    | _ => Ok b rest
    end).
Proof. reflexivity. Qed.
Lemma p_primary_S n ts : p_primary (S n) ts =
  match ts with
  | KNum q :: tl => Ok (Num q) tl
  | KSym x :: tl => Ok (Sym x) tl
  | KLp :: tl => bind (p_expr n tl) (fun e rest => match rest with KRp :: r => Ok e r | _ => Fail end)
  | KFn g :: KLp :: tl =>
      bind (p_expr n tl) (fun a rest =>
        match rest with
        | KRp :: r => Ok (Fn1 g a) r
        | KComma :: r => bind (p_expr n r) (fun b rest2 =>
                           match rest2 with KRp :: r2 => Ok (Fn2 g a b) r2 | _ => Fail end)
        | _ => Fail
        end)
  | _ => Fail
  end.
Proof. reflexivity. Qed.

Opaque p_expr p_eloop p_term p_tloop p_factor p_primary.

(* ---- what may follow an operand ---- *)
Definition no_pow (ts : list tok) : bool := match ts with KPow :: _ => false | _ => true end.
Definition no_mul (ts : list tok) : bool := match ts with (KPow | KTimes | KDiv) :: _ => false | _ => true end.
Definition no_add (ts : list tok) : bool :=
  match ts with (KPow | KTimes | KDiv | KPlus | KMinus) :: _ => false | _ => true end.
Definition start_ok (ts : list tok) : bool :=
  match ts with (KNum _ | KSym _ | KFn _ | KLp) :: _ => true | _ => false end.

Lemma expr_start n ts rest : start_ok ts = true ->
  p_expr (S n) (ts ++ rest) = bind (p_term n (ts ++ rest)) (fun t r => p_eloop n t r).
Proof.
  intro H. rewrite p_expr_S. destruct ts as [|t tl]; [discriminate|]. cbn [app].
  destruct t; try discriminate; reflexivity.
Qed.

Section Lift.
  Variables (ts : list tok) (e : expr) (k : nat).
  Hypothesis Hat : forall n rest, k <= n -> p_primary n (ts ++ rest) = Ok e rest.
  Hypothesis Hst : start_ok ts = true.

  Lemma factor_ok n rest : k + 1 <= n -> no_pow rest = true -> p_factor n (ts ++ rest) = Ok e rest.
  Proof.
    intros Hn Hr. destruct n as [|n]; [lia|]. rewrite p_factor_S, Hat by lia. rewrite bind_ok.
    destruct rest as [|t r]; [reflexivity|]. destruct t; try reflexivity. discriminate.
  Qed.

  Lemma term_ok n rest : k + 2 <= n -> no_mul rest = true -> p_term n (ts ++ rest) = Ok e rest.
  Proof.
    intros Hn Hr. destruct n as [|n]; [lia|]. rewrite p_term_S, factor_ok; [|lia|].
    - rewrite bind_ok. destruct n as [|n]; [lia|]. rewrite p_tloop_S.
      destruct rest as [|t r]; [reflexivity|]. destruct t; try reflexivity; discriminate.
    - destruct rest as [|t r]; [reflexivity|]. destruct t; try reflexivity; discriminate.
  Qed.

  Lemma expr_ok n rest : k + 3 <= n -> no_add rest = true -> p_expr n (ts ++ rest) = Ok e rest.
  Proof.
    intros Hn Hr. destruct n as [|n]; [lia|]. rewrite expr_start by exact Hst. rewrite term_ok; [|lia|].
    - rewrite bind_ok. destruct n as [|n]; [lia|]. rewrite p_eloop_S.
      destruct rest as [|t r]; [reflexivity|]. destruct t; try reflexivity; discriminate.
    - destruct rest as [|t r]; [reflexivity|]. destruct t; try reflexivity; discriminate.
  Qed.
End Lift.

(* ---- fuel an emitted expression needs as a primary ---- *)
Fixpoint kf (e : expr) : nat :=
  match e with
  | Num _ | Sym _ => 1
  | Neg a | Fn1 _ a => kf a + 5
  | Add a b | Mul a b | Div a b | Fn2 _ a b => Nat.max (kf a) (kf b) + 6
  | PwNil | PwCons _ _ _ => 0
  end.

Lemma emit_e_start e : wf_e e = true -> start_ok (emit_e e) = true.
Proof.
  destruct e; cbn [wf_e emit_e]; intro H; try discriminate; try reflexivity.
  destruct (Pos.eqb f F_POW); reflexivity.
Qed.

Lemma app_cons_assoc (a : list tok) t b c : (a ++ t :: b) ++ c = a ++ t :: (b ++ c).
Proof. rewrite <- app_assoc. reflexivity. Qed.

Lemma prim_emit : forall e, wf_e e = true ->
  forall n rest, kf e <= n -> p_primary n (emit_e e ++ rest) = Ok e rest.
Proof.
  induction e; cbn [wf_e kf]; intros Hw n rest Hn; try discriminate.
  - destruct n as [|n]; [lia|]. reflexivity.
  - destruct n as [|n]; [lia|]. reflexivity.
  - (* Fn1 *)
    destruct n as [|n]; [lia|]. cbn [emit_e app]. rewrite <- app_assoc. cbn [app]. rewrite p_primary_S.
    rewrite (expr_ok (emit_e e) e (kf e) (IHe Hw) (emit_e_start e Hw)) by (try lia; reflexivity).
    rewrite bind_ok. reflexivity.
  - (* Fn2 *)
    apply andb_prop in Hw. destruct Hw as [Hw1 Hw2].
    pose proof (IHe1 Hw1) as P1. pose proof (IHe2 Hw2) as P2.
    pose proof (emit_e_start e1 Hw1) as S1. pose proof (emit_e_start e2 Hw2) as S2.
    cbn [emit_e]. destruct (Pos.eqb f F_POW) eqn:Ef.
    + apply Pos.eqb_eq in Ef. subst f.
      destruct n as [|n]; [lia|]. cbn [app]. rewrite app_cons_assoc, <- app_assoc. cbn [app]. rewrite p_primary_S.
      destruct n as [|n]; [lia|]. rewrite expr_start by exact S1.
      destruct n as [|n]; [lia|]. rewrite p_term_S.
      destruct n as [|n]; [lia|]. rewrite p_factor_S, P1 by lia. rewrite bind_ok.
      assert (Hb : p_factor n (emit_e e2 ++ KRp :: rest) = Ok e2 (KRp :: rest)).
      { apply (factor_ok (emit_e e2) e2 (kf e2) P2); [lia | reflexivity]. }
      destruct (emit_e e2) as [|t2 l2] eqn:E2; [discriminate S2|]. cbn [app] in *.
      destruct t2; try discriminate S2; rewrite Hb, bind_ok, bind_ok;
        (destruct n as [|n]; [lia|]); rewrite p_tloop_S, bind_ok;
        (destruct n as [|n]; [lia|]); rewrite p_eloop_S; reflexivity.
    + destruct n as [|n]; [lia|]. cbn [app]. rewrite app_cons_assoc, <- app_assoc. cbn [app]. rewrite p_primary_S.
      rewrite (expr_ok (emit_e e1) e1 (kf e1) P1 S1) by (try lia; reflexivity). rewrite bind_ok.
      rewrite (expr_ok (emit_e e2) e2 (kf e2) P2 S2) by (try lia; reflexivity). rewrite bind_ok. reflexivity.
  - (* Add *)
    apply andb_prop in Hw. destruct Hw as [Hw1 Hw2].
    pose proof (IHe1 Hw1) as P1. pose proof (IHe2 Hw2) as P2.
    pose proof (emit_e_start e1 Hw1) as S1. pose proof (emit_e_start e2 Hw2) as S2.
    destruct n as [|n]; [lia|]. cbn [emit_e app]. rewrite app_cons_assoc, <- app_assoc. cbn [app]. rewrite p_primary_S.
    destruct n as [|n]; [lia|]. rewrite expr_start by exact S1.
    rewrite (term_ok (emit_e e1) e1 (kf e1) P1) by (try lia; reflexivity). rewrite bind_ok.
    destruct n as [|n]; [lia|]. rewrite p_eloop_S.
    rewrite (term_ok (emit_e e2) e2 (kf e2) P2) by (try lia; reflexivity). rewrite bind_ok.
    destruct n as [|n]; [lia|]. rewrite p_eloop_S, bind_ok. reflexivity.
  - (* Mul *)
    apply andb_prop in Hw. destruct Hw as [Hw1 Hw2].
    pose proof (IHe1 Hw1) as P1. pose proof (IHe2 Hw2) as P2.
    pose proof (emit_e_start e1 Hw1) as S1. pose proof (emit_e_start e2 Hw2) as S2.
    destruct n as [|n]; [lia|]. cbn [emit_e app]. rewrite app_cons_assoc, <- app_assoc. cbn [app]. rewrite p_primary_S.
    destruct n as [|n]; [lia|]. rewrite expr_start by exact S1.
    destruct n as [|n]; [lia|]. rewrite p_term_S.
    rewrite (factor_ok (emit_e e1) e1 (kf e1) P1) by (try lia; reflexivity). rewrite bind_ok.
    destruct n as [|n]; [lia|]. rewrite p_tloop_S.
    rewrite (factor_ok (emit_e e2) e2 (kf e2) P2) by (try lia; reflexivity). rewrite bind_ok.
    destruct n as [|n]; [lia|]. rewrite p_tloop_S, bind_ok. rewrite p_eloop_S, bind_ok. reflexivity.
  - (* Neg *)
    pose proof (IHe Hw) as P1. pose proof (emit_e_start e Hw) as S1.
    destruct n as [|n]; [lia|]. cbn [emit_e app]. rewrite <- app_assoc. cbn [app]. rewrite p_primary_S.
    destruct n as [|n]; [lia|]. rewrite p_expr_S.
    rewrite (term_ok (emit_e e) e (kf e) P1) by (try lia; reflexivity). rewrite bind_ok.
    destruct n as [|n]; [lia|]. rewrite p_eloop_S, bind_ok. reflexivity.
  - (* Div *)
    apply andb_prop in Hw. destruct Hw as [Hw1 Hw2].
    pose proof (IHe1 Hw1) as P1. pose proof (IHe2 Hw2) as P2.
    pose proof (emit_e_start e1 Hw1) as S1. pose proof (emit_e_start e2 Hw2) as S2.
    destruct n as [|n]; [lia|]. cbn [emit_e app]. rewrite app_cons_assoc, <- app_assoc. cbn [app]. rewrite p_primary_S.
    destruct n as [|n]; [lia|]. rewrite expr_start by exact S1.
    destruct n as [|n]; [lia|]. rewrite p_term_S.
    rewrite (factor_ok (emit_e e1) e1 (kf e1) P1) by (try lia; reflexivity). rewrite bind_ok.
    destruct n as [|n]; [lia|]. rewrite p_tloop_S.
    rewrite (factor_ok (emit_e e2) e2 (kf e2) P2) by (try lia; reflexivity). rewrite bind_ok.
    destruct n as [|n]; [lia|]. rewrite p_tloop_S, bind_ok. rewrite p_eloop_S, bind_ok. reflexivity.
Qed.

Lemma kf_bound e : kf e <= 6 * length (emit_e e).
Proof.
  induction e; cbn [kf emit_e]; try (cbn [length]; lia).
  - cbn [length]. rewrite app_length. cbn [length]. lia.
  - destruct (Pos.eqb f F_POW); cbn [length]; rewrite !app_length; cbn [length]; rewrite ?app_length; cbn [length]; lia.
  - cbn [length]. rewrite !app_length. cbn [length]. rewrite app_length. cbn [length]. lia.
  - cbn [length]. rewrite !app_length. cbn [length]. rewrite app_length. cbn [length]. lia.
  - cbn [length]. rewrite app_length. cbn [length]. lia.
  - cbn [length]. rewrite !app_length. cbn [length]. rewrite app_length. cbn [length]. lia.
Qed.

(* an emitted expression followed by a token that cannot continue it is read back by p_expr *)
Lemma expr_emit e n rest : wf_e e = true -> kf e + 3 <= n -> no_add rest = true ->
  p_expr n (emit_e e ++ rest) = Ok e rest.
Proof. intros Hw Hn Hr. exact (expr_ok (emit_e e) e (kf e) (prim_emit e Hw) (emit_e_start e Hw) n rest Hn Hr). Qed.
