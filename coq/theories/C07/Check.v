(* PV.C07.Check — the comparison run inside Coq by the correspondence check: re-runs the model of the
   refactorings on the exported program, compares with the statements the implementation produced
   (tags 1..9, by exact evaluation), evaluates the PROPERTY (same values before / after) on the
   implementation's own output (tags >= 11), reports guard facts (tags >= 200). *)
From Coq Require Import QArith List Bool PArith Arith.
From PV Require Import Base.PyData Base.Expr Base.Interp Base.Stmts C07.Model.
Import ListNotations.
Local Open Scope nat_scope.

(* what the implementation did: result | ValueError | another exception | the expression engine refused
   (symengine RuntimeError: a division by zero appears while substituting, e.g. an eta fixed to 0) *)
Inductive obs (A : Type) := OOk (a : A) | OValueError | OOther | OEngine.
Arguments OOk {A} a. Arguments OValueError {A}. Arguments OOther {A}. Arguments OEngine {A}.

Record case := mkCase {
  c_known : list id;                 (* parameters, rvs, columns, t, compartment amounts *)
  c_outputs : list id;               (* dependent variables *)
  c_fixed : list (id * Q);           (* fixed parameters in order, with their initial estimate *)
  c_dists : list dist;               (* names / parameter_names of every distribution *)
  c_prog : list stm;                 (* model.statements *)
  c_decl : obs (list stm);           (* make_declarative(model).statements *)
  c_clean : obs (list stm * list id * list id);
                                     (* cleanup_model(model): statements, parameter names, variance
                                        parameters of its rvs that are not parameters of it *)
  c_ren : list (list (id * id) * obs (list stm) * list id * list id);
                                     (* renaming, rename_symbols(...).statements, parameter names and
                                        rv names of the renamed model *)
  c_params : list id;                (* parameter names in order *)
  c_rvnames : list id;               (* rv names in order *)
  c_rdists : list rdist;             (* distributions for remove_unused_parameters_and_rvs *)
  c_symbols : list id;               (* statements.free_symbols as symengine reports it (it may keep symbols
                                        that the exporter's sympy conversion simplifies away) *)
  c_unused : obs (list id * list id);(* parameter names, rv names after remove_unused_... *)
  c_epss : list id;                  (* epsilon names *)
  c_etas : list id;                  (* eta names *)
  c_obs : obs expr;                  (* get_observation_expression *)
  c_ipred : obs expr;                (* get_individual_prediction_expression *)
  c_pred : obs expr;                 (* get_population_prediction_expression *)
  c_envs : list (list (id * Q))      (* fixed parameters at their initial estimate *)
}.

Definition envs_of (c : case) : list env := map env_of (c_envs c).
Definition tag (b : bool) (t : nat) : list nat := if b then [] else [t].
Definition tag3 (v : nat) (tfail tinc : nat) : list nat :=
  match v with 0 => [] | 1 => [tfail] | _ => [tinc] end.

Fixpoint exprs_agree (need : nat) (envs : list env) (a b : list expr) : nat :=
  match a, b with
  | [], [] => 0
  | x :: a', y :: b' =>
      match expr_agree need envs x y with
      | 0 => exprs_agree need envs a' b'
      | 1 => 1
      | _ => match exprs_agree need envs a' b' with 1 => 1 | _ => 2 end
      end
  | _, _ => 1
  end.

Definition stm_agree (need : nat) (envs : list env) (a b : stm) : nat :=
  match a, b with
  | SAssign s e, SAssign s' e' => if Pos.eqb s s' then expr_agree need envs e e' else 1
  | SOde am args, SOde am' args' => if setp_eqb am am' then exprs_agree need envs args args' else 1
  | _, _ => 1
  end.

Fixpoint stms_agree (need : nat) (envs : list env) (a b : list stm) : nat :=
  match a, b with
  | [], [] => 0
  | x :: a', y :: b' =>
      match stm_agree need envs x y with
      | 0 => stms_agree need envs a' b'
      | 1 => 1
      | _ => match stms_agree need envs a' b' with 1 => 1 | _ => 2 end
      end
  | _, _ => 1
  end.

Definition res_agree (envs : list env) (m : res (list stm)) (o : obs (list stm)) : nat :=
  match m, o with
  | ROk a, OOk b => stms_agree 2 envs a b
  | RValueError, OValueError => 0
  | RInternal, OOther => 0
  | _, OEngine => 2
  | _, _ => 1
  end.

Definition omap {A B} (f : A -> B) (o : obs A) : obs B :=
  match o with OOk a => OOk (f a) | OValueError => OValueError | OOther => OOther | OEngine => OEngine end.

(* the concrete solver oracle of the checks: position-sensitive in the expressions of the system
   (Base's std_ode is a symmetric sum: swapped rates would go unnoticed) *)
Fixpoint horner (l : list (option Q)) (acc : Q) : option Q :=
  match l with
  | [] => Some acc
  | None :: _ => None
  | Some x :: tl => horner tl (Qred (acc * 3 + x))
  end.
Definition pos_ode (a : id) (vals : list (option Q)) : option Q := horner vals (inject_Z (Zpos a)).

Definition run7 (r : env) (l : list stm) : env := sexec std_fi pos_ode r l.

(* value of x changed: defined before and after, and different *)
Definition changed (a b : option Q) : bool :=
  match a, b with Some x, Some y => negb (Qeq_bool x y) | _, _ => false end.
Definition both_defined (a b : option Q) : bool :=
  match a, b with Some _, Some _ => true | _, _ => false end.

(* the property on one pair of programs: no symbol of [outs] changes at any point *)
Definition preserved (envs : list env) (outs : list id) (p p' : list stm) : bool :=
  forallb (fun r => forallb (fun x => negb (changed (run7 r p x) (run7 r p' x))) outs) envs.
Definition compared (envs : list env) (outs : list id) (p p' : list stm) : nat :=
  length (filter (fun rx => both_defined (run7 (fst rx) p (snd rx)) (run7 (fst rx) p' (snd rx)))
                 (list_prod envs outs)).

Definition check_decl (c : case) : list nat :=
  let p := c_prog c in
  tag3 (res_agree (envs_of c) (make_declarative_m (c_known c) p) (c_decl c)) 1 1001 ++
  match c_decl c with
  | OOk p' => tag (preserved (envs_of c) (normp (all_sdefs p)) p p') 11
              ++ tag (nodup_p (flat_map (fun st => match st with SAssign s _ => [s] | _ => [] end) p')) 18
  | OEngine => []
  | _ => if canon_ok (c_known c) p then [14] else []
  end.

(* the declarative statements the later stages of cleanup_model start from: the implementation's own *)
Definition decl_of (c : case) : list stm :=
  match c_decl c with OOk d => d | _ => declarative (c_prog c) end.

Definition check_clean (c : case) : list nat :=
  let p := c_prog c in
  let m := match c_decl c with
           | OOk d => cleanup_from_decl (c_known c) (c_outputs c) (c_fixed c) (c_dists c) d
           | OEngine => RInternal
           | _ => RValueError end in
  tag3 (res_agree (envs_of c) m (omap (fun x => fst (fst x)) (c_clean c))) 2 1002 ++
  match c_clean c with
  | OOk (p', ps, dang) =>
      tag (list_eqb Pos.eqb (cleanup_params (c_fixed c) (c_dists c) (c_params c)) ps) 10 ++
      (* every symbol the cleaned model still defines (except the inlined aliases) keeps its value *)
      tag (preserved (envs_of c) (diffp (normp (all_sdefs p')) (inlined (c_outputs c) (decl_of c))) p p') 12
      ++ tag (forallb (fun y => negb (memp y (all_sdefs p)) || memp y (all_sdefs p')) (c_outputs c)) 13
      (* every variance parameter of the cleaned model's distributions is one of its parameters *)
      ++ tag (match dang with [] => true | _ => false end) 24
  | OEngine => []
  | _ => if canon_ok (c_known c) p then [15] else []
  end.

(* environment of the renamed model: new name carries the value of the old one *)
Definition ren_env (d : list (id * id)) (m : list (id * Q)) : env :=
  env_of (map (fun kv => (ren d (fst kv), snd kv)) m).

Definition check_ren (c : case) : list nat :=
  let p := c_prog c in
  flat_map (fun q =>
    let '(d, o, ps, rvs) := q in
    match o with
    | OOk p' =>
        tag3 (stms_agree 2 (map (ren_env d) (c_envs c)) (rename d p) p') 3 1003 ++
        tag (list_eqb Pos.eqb (rename_names d (c_params c)) ps
             && list_eqb Pos.eqb (rename_names d (c_rvnames c)) rvs) 4 ++
        (if g_rename_ok d (c_known c) p then
           tag (forallb (fun m => forallb (fun x => negb (changed (run7 (env_of m) p x)
                                                                   (run7 (ren_env d m) p' (ren d x))))
                                          (normp (all_sdefs p))) (c_envs c)) 16
         else [203])
    | OEngine => []
    | _ => if g_rename_ok d (c_known c) p then [17] else [203]
    end) (c_ren c).

Definition check_unused (c : case) : list nat :=
  let symbols := c_symbols c in
  match c_unused c with
  | OOk (ps, rvs) =>
      tag (list_eqb Pos.eqb (unused_new_params symbols (c_rdists c) (c_fixed c) (c_params c)) ps) 5 ++
      tag (list_eqb Pos.eqb (unused_new_rv_names symbols (c_rdists c)) rvs) 6 ++
      (* nothing that a statement mentions is removed *)
      tag (forallb (fun x => negb (memp x symbols) || memp x ps) (c_params c)
           && forallb (fun x => negb (memp x symbols) || memp x rvs) (c_rvnames c)) 19
  | _ => [20]
  end.

(* an extractor result against the model and against execution from environment [at r] *)
Definition check_extractor (c : case) (m : option expr) (o : obs expr) (at_ : env -> env)
           (tcorr tinc toracle : nat) : list nat :=
  match m, o with
  | Some a, OOk b =>
      tag3 (expr_agree 2 (envs_of c) a b) tcorr tinc ++
      flat_map (fun y =>
        tag (forallb (fun r => negb (changed (eval r std_fi b) (run7 (at_ r) (c_prog c) y))) (envs_of c)) toracle)
        (c_outputs c)
  | _, OEngine => [tinc]
  | None, OOk _ => [tcorr]
  | Some a, _ =>
      (* the implementation refused (e.g. symengine division by zero while substituting eta = 0):
         only consistent when the model's expression is undefined at every sample point *)
      if forallb (fun r => match eval r std_fi a with None => true | Some _ => false end) (envs_of c)
      then [tinc] else [tcorr]
  | None, _ => []
  end.

Definition check_obs (c : case) : list nat :=
  let p := c_prog c in
  flat_map (fun y =>
    check_extractor c (obs_expr p y) (c_obs c) (fun r => r) 7 1007 21 ++
    check_extractor c (ipred_expr p y (c_epss c)) (c_ipred c)
                    (fun r => upd_map r std_fi (zeros (c_epss c))) 8 1008 22 ++
    check_extractor c (pred_expr p y (c_epss c) (c_etas c)) (c_pred c)
                    (fun r => upd_map r std_fi (zeros (c_epss c ++ c_etas c))) 9 1009 23)
    (firstn 1 (c_outputs c)).

Definition guard_tags (c : case) : list nat :=
  let p := c_prog c in
  tag (g_no_stale_capture p) 201 ++
  tag (g_inline_ok (c_outputs c) (decl_of c)) 204 ++
  tag (canon_ok (c_known c) p) 206 ++
  tag (g_no_shadowing (c_known c) p) 208 ++
  tag (match dangling (c_fixed c) (c_dists c) with [] => true | _ => false end) 209 ++
  (* strict validity (domain of Properties.declarative_preserves); amounts are not "known" there *)
  tag (g_valid (diffp (c_known c) (flat_map (fun st => match st with SOde a _ => a | _ => [] end) p)) p) 211.

(* used only by the sensitivity self-test: make_declarative with commit 0e1c190 REVERTED against
   Model.declarative_before_fix *)
Definition verdict_before_fix (c : case) : list nat :=
  let p := c_prog c in
  let d := declarative_before_fix p in
  tag3 (res_agree (envs_of c) (if canon_ok (c_known c) d then ROk d else RValueError) (c_decl c)) 1 1001 ++
  match c_decl c with
  | OOk p' => tag (preserved (envs_of c) (normp (all_sdefs p)) p p') 11
  | OEngine => []
  | _ => if canon_ok (c_known c) p then [14] else []
  end ++
  tag (g_no_stale_capture_before_fix p) 201 ++ tag (g_no_shadowing (c_known c) p) 208 ++
  tag (g_valid (diffp (c_known c) (flat_map (fun st => match st with SOde a _ => a | _ => [] end) p)) p) 211.

Definition verdict (c : case) : list nat :=
  check_decl c ++ check_clean c ++ check_ren c ++ check_unused c ++ check_obs c ++ guard_tags c.

(* ---- oracle-only stream (validation): a corpus model before / after a refactoring -------------- *)
Record pcase := mkP {
  p_before : list stm;
  p_after : list stm;
  p_ren : list (id * id);            (* declared renaming (greekify), else [] *)
  p_outs : list id;                  (* dependent variables *)
  p_raised : bool;                   (* make_declarative / cleanup_model raised ValueError *)
  p_envs : list (list (id * Q))
}.

Definition verdict_pair (c : pcase) : list nat :=
  if p_raised c then
    (* the refactoring refused a corpus model: which guard of the model explains it *)
    [33] ++ tag (g_no_stale_capture (p_before c)) 201 ++ tag (g_inline_ok (p_outs c) (declarative (p_before c))) 204
  else
  let d := p_ren c in
  let outs := filter (fun x => memp (ren d x) (all_sdefs (p_after c))) (normp (all_sdefs (p_before c))) in
  let cmp := flat_map (fun m => map (fun x => (run7 (env_of m) (p_before c) x,
                                               run7 (ren_env d m) (p_after c) (ren d x))) outs) (p_envs c) in
  tag (forallb (fun ab => negb (changed (fst ab) (snd ab))) cmp) 31 ++
  tag (forallb (fun y => negb (memp y (all_sdefs (p_before c))) || memp (ren d y) (all_sdefs (p_after c))) (p_outs c)) 32 ++
  tag (2 <=? length (filter (fun ab => both_defined (fst ab) (snd ab)) cmp)) 1031 ++
  (* how many of the dependent variable's sample points were comparable (tags 2000 + n) *)
  [2000 + length (filter (fun m => existsb (fun y => both_defined (run7 (env_of m) (p_before c) y)
                                                        (run7 (ren_env d m) (p_after c) (ren d y)))
                                           (p_outs c)) (p_envs c))].

(* ---- oracle-only stream (validation): gradient extractors against exact central differences ------
   The generated programs are polynomials of degree <= 2 in every eta and affine in every epsilon, so
   (f(x+1) - f(x-1)) / 2 IS the derivative.  sympy's diff is an engine: this validates it together
   with the wiring of calculate_eta_gradient_expression / calculate_epsilon_gradient_expression. *)
Record gcase := mkG {
  g_prog : list stm;
  g_dv : id;
  g_epss : list id;
  g_eta_grad : list (id * expr);     (* eta, d ipred / d eta *)
  g_eps_grad : list (id * expr);     (* eps, d y / d eps *)
  g_counts : (nat * nat) * (nat * nat);  (* (#etas of the model, #eta gradient entries), same for epsilons *)
  g_envs : list (list (id * Q))
}.

Definition central (r : env) (x : id) (f : env -> option Q) : option Q :=
  match r x with
  | Some v =>
      match f (upd r x (Some (Qred (v + 1)))), f (upd r x (Some (Qred (v - 1)))) with
      | Some a, Some b => Some (Qred ((a - b) / 2))
      | _, _ => None
      end
  | None => None
  end.

Definition grad_ok (c : gcase) (at_ : env -> env) (xs : list (id * expr)) : bool :=
  forallb (fun m =>
    let r := at_ (env_of m) in
    forallb (fun xg => negb (changed (eval r std_fi (snd xg))
                                     (central r (fst xg) (fun r' => run7 r' (g_prog c) (g_dv c))))) xs)
    (g_envs c).

Definition verdict_grad (c : gcase) : list nat :=
  tag (grad_ok c (fun r => upd_map r std_fi (zeros (g_epss c))) (g_eta_grad c)) 41 ++
  tag (grad_ok c (fun r => r) (g_eps_grad c)) 42 ++
  tag (Nat.eqb (fst (fst (g_counts c))) (snd (fst (g_counts c)))) 43 ++
  tag (Nat.eqb (fst (snd (g_counts c))) (snd (snd (g_counts c)))) 44 ++
  [2000 + length (filter (fun m => match run7 (env_of m) (g_prog c) (g_dv c) with Some _ => true | None => false end)
                         (g_envs c))].

(* ---- mu_reference_model: model against implementation, the solution property of sympy's answers, and the
   property (same values for every symbol of the original program) on the implementation's output ---- *)
Record mcase := mkM {
  m_prog : list stm;
  m_etas : list (id * id);                       (* eta, mu_<index> in the order of random_variables.etas *)
  m_table : list (nat * (expr * expr));          (* original index -> (mu_expr, new_def) as sympy answered *)
  m_after : obs (list stm);                      (* mu_reference_model(model).statements *)
  m_undef : id;                                  (* the symbol standing for nan / zoo *)
  m_envs : list (list (id * Q))
}.

Definition sol_changed (r : env) (mu : id) (m new old : expr) : bool :=
  match eval r std_fi m with
  | Some v => changed (eval (upd r mu (Some v)) std_fi new) (eval r std_fi old)
  | None => false
  end.

Definition verdict_mu (c : mcase) : list nat :=
  let p := m_prog c in
  let envs := map env_of (m_envs c) in
  let sel := find_eta_assignments (map fst (m_etas c)) p in
  let ins := inserted_mus (m_etas c) (m_table c) sel p 0 in
  match m_after c with
  | OOk a =>
      match mu_reference (m_etas c) (m_table c) p with
      | Some out => tag3 (stms_agree 2 envs out a) 50 1050
      | None => [50]
      end ++
      (* every symbol of the original program keeps its value *)
      tag (preserved envs (diffp (normp (all_sdefs p)) ins) p a) 51 ++
      (* sympy's (mu_expr, new_def) solve the equation new_def[mu := mu_expr] = old_def *)
      tag (forallb (fun ie =>
             match nth_error p (fst ie) with
             | Some (SAssign _ old) =>
                 match eta_of (m_etas c) old with
                 | Some (_, mu) => forallb (fun r => negb (sol_changed r mu (fst (snd ie)) (snd (snd ie)) old)) envs
                 | None => true end
             | _ => true end) (m_table c)) 52 ++
      (* an undefined value (nan / zoo) appears in the result but not in the input *)
      tag (negb (memp (m_undef c) (all_ssyms a)) || memp (m_undef c) (all_ssyms p)) 54 ++
      tag (g_mu_fresh (m_etas c) (m_table c) sel p) 250 ++
      [2000 + length (m_table c)]
  | OEngine => [1053]
  | _ => [53]
  end.


(* ---- greekify_model: the renaming table of the model against the dict the implementation hands to
   rename_symbols (captured), and whether that renaming is injective on the names of the model ---- *)
Record kcase := mkK {
  k_thetas : list id; k_cov : list (nat * nat * id); k_etas : list id; k_epss : list id;
  k_tn : list (nat * id); k_en : list (nat * id); k_pn : list (nat * id);      (* ids of "theta_<i>", ... *)
  k_on : list (nat * nat * id); k_sn : list (nat * nat * id);                  (* ids of "omega_<r><c>", "sigma_<r><c>" *)
  k_impl : list (id * id);                                                    (* the captured dict *)
  k_names : list id;                                                          (* parameters, rvs, columns, t *)
  k_prog : list stm
}.

Definition nlook (m : list (nat * id)) (i : nat) : id :=
  match find (fun kv => Nat.eqb (fst kv) i) m with Some (_, v) => v | None => 1%positive end.
Definition nlook2 (m : list (nat * nat * id)) (r c : nat) : id :=
  match find (fun kv => Nat.eqb (fst (fst kv)) r && Nat.eqb (snd (fst kv)) c) m with
  | Some (_, v) => v | None => 1%positive end.

Definition verdict_greek (c : kcase) : list nat :=
  let d := greek_table (nlook (k_tn c)) (nlook (k_en c)) (nlook (k_pn c)) (nlook2 (k_on c)) (nlook2 (k_sn c))
                       (k_thetas c) (k_cov c) (k_etas c) (k_epss c) in
  tag (same_renaming d (k_impl c) (map fst d ++ map fst (k_impl c) ++ k_names c)) 60 ++
  (* the renaming is injective on the names of the model (else rename_preserves does not apply) *)
  tag (g_rename_ok (k_impl c) (k_names c) (k_prog c)) 251 ++
  (* targets pairwise different and fresh (hypotheses of rename_fresh_preserves) *)
  tag (nodup_p (normp (map snd (k_impl c))) && Nat.eqb (length (normp (map snd (k_impl c)))) (length (normp (map fst (k_impl c))))) 252 ++
  tag (negb (interp_nonempty (map snd (k_impl c)) (diffp (k_names c ++ all_ssyms (k_prog c)) (map fst (k_impl c))))) 253.


(* ---- convert_model round trip and split / create_joint_distribution on the component level ---- *)
Definition oqeq (a b : option Q) : bool :=
  match a, b with Some x, Some y => Qeq_bool x y | None, None => true | _, _ => false end.
Definition param_eqb (a b : id * Q * bool) : bool :=
  Pos.eqb (fst (fst a)) (fst (fst b)) && Qeq_bool (snd (fst a)) (snd (fst b)) && Bool.eqb (snd a) (snd b).
Definition rdist_eqb (a b : rdist) : bool :=
  match a, b with
  | DNormal n v, DNormal n' v' => Pos.eqb n n' && setp_eqb v v'
  | DJoint ns m, DJoint ns' m' =>
      list_eqb Pos.eqb ns ns' && list_eqb (list_eqb setp_eqb) m m'
  | _, _ => false
  end.
(* statements: the same list (by evaluation); when the lists differ (update_source may add a no-op such as
   ALAG1 = ALAG1) the same defined symbols with the same values in both directions (info tag 2000 + t0) *)
Definition stmts_tags (envs : list env) (p p' : list stm) (t0 : nat) : list nat :=
  match stms_agree 2 envs p p' with
  | 0 => []
  | 2 => [1000 + t0]
  | _ => if setp_eqb (all_sdefs p) (all_sdefs p') && preserved envs (normp (all_sdefs p)) p p'
            && preserved envs (normp (all_sdefs p)) p' p
         then [2000 + t0] else [t0]
  end.
Definition pmodel_tags (envs : list env) (m m' : pmodel) (t0 : nat) : list nat :=
  stmts_tags envs (pm_stmts m) (pm_stmts m') t0 ++
  tag (list_eqb param_eqb (pm_params m) (pm_params m')) (t0 + 1) ++
  tag (list_eqb rdist_eqb (pm_rvs m) (pm_rvs m')) (t0 + 2) ++
  tag (list_eqb Pos.eqb (pm_dvs m) (pm_dvs m')) (t0 + 3) ++
  tag (Pos.eqb (pm_value_type m) (pm_value_type m')) (t0 + 100).

Record ccase := mkC {
  cc_before : pmodel;
  cc_generic : obs pmodel;           (* convert_model(m, 'generic') *)
  cc_back : obs pmodel;              (* convert_model(convert_model(m, 'generic'), 'nonmem'); OOther = not attempted *)
  cc_envs : list (list (id * Q))
}.
Definition verdict_conv (c : ccase) : list nat :=
  let envs := map env_of (cc_envs c) in
  match cc_generic c with
  | OOk g => pmodel_tags envs (convert_generic (cc_before c)) g 70
  | _ => [74]
  end ++
  match cc_back c with
  | OOk b => pmodel_tags envs (convert_nonmem (convert_generic (cc_before c))) b 75
  | OValueError => [79]
  | _ => []
  end.

Record jcase := mkJ {
  j_before : pmodel;
  j_inds : list id;                  (* the etas handed to split_joint_distribution *)
  j_split : obs pmodel;              (* split_joint_distribution(m, inds) *)
  j_created : obs pmodel;            (* create_joint_distribution(m, inds); OValueError = documented refusal *)
  j_envs : list (list (id * Q))
}.
Definition verdict_joint (c : jcase) : list nat :=
  let envs := map env_of (j_envs c) in
  match j_split c with
  | OOk s => pmodel_tags envs (split_joint (j_inds c) (j_before c)) s 90
  | _ => [94]
  end ++
  match j_created c with
  | OOk s => tag3 (stms_agree 2 envs (pm_stmts (j_before c)) (pm_stmts s)) 95 1095 ++
             tag (same_structure (j_before c) s) 96
  | OValueError => []
  | _ => [97]
  end.


(* ---- oracle-only (validation): solve_ode_system on one-compartment models against the documented closed forms
   bolus:  A_c(t) = D exp(-k t)                      oral:  A_d(t) = D exp(-ka t),
                                                            A_c(t) = D ka/(ka - k) (exp(-k t) - exp(-ka t))
   evaluated exactly at points where the exp arguments are integers (exp |-> 2^n respects the algebra used). *)
Record ocase := mkO {
  o_after : list stm;                 (* solve_ode_system(model).statements *)
  o_ke : expr;                        (* rate CENTRAL -> output *)
  o_ka : option expr;                 (* rate DEPOT -> CENTRAL *)
  o_dose : id; o_t : id;
  o_ac : id; o_ad : option id;        (* A_CENTRAL(t), A_DEPOT(t) *)
  o_envs : list (list (id * Q))
}.

Definition q_exp (x : Q) : option Q := std_fi1 F_EXP x.
Local Open Scope Q_scope.
Definition cf_bolus (D k t : Q) : option Q :=
  match q_exp (Qred (- (k * t))) with Some e => Some (Qred (D * e)) | None => None end.
Definition cf_oral (D k ka t : Q) : option Q :=
  if Qeq_bool ka k then None else
  match q_exp (Qred (- (k * t))), q_exp (Qred (- (ka * t))) with
  | Some e1, Some e2 => Some (Qred (D * ka / (ka - k) * (e1 - e2)))
  | _, _ => None
  end.
Local Close Scope Q_scope.

Definition closed_form_pairs (c : ocase) : list (option Q * option Q) * list (option Q * option Q) :=
  let pts := map (fun m => run7 (env_of m) (o_after c)) (o_envs c) in
  let vals := fun (r : env) =>
    match r (o_dose c), r (o_t c), eval r std_fi (o_ke c) with
    | Some D, Some t, Some k =>
        match o_ka c with
        | None => ((r (o_ac c), cf_bolus D k t), (None, None))
        | Some kae =>
            match eval r std_fi kae with
            | Some ka => ((r (o_ac c), cf_oral D k ka t),
                          (match o_ad c with Some a => r a | None => None end, cf_bolus D ka t))
            | None => ((None, None), (None, None))
            end
        end
    | _, _, _ => ((None, None), (None, None))
    end in
  (map (fun r => fst (vals r)) pts, map (fun r => snd (vals r)) pts).

Definition verdict_ode (c : ocase) : list nat :=
  let '(cen, dep) := closed_form_pairs c in
  tag (forallb (fun ab => negb (changed (fst ab) (snd ab))) cen) 80 ++
  tag (forallb (fun ab => negb (changed (fst ab) (snd ab))) dep) 81 ++
  tag (2 <=? length (filter (fun ab => both_defined (fst ab) (snd ab)) cen)) 1080 ++
  [2000 + length (filter (fun ab => both_defined (fst ab) (snd ab)) (cen ++ dep))].
