(* PV.C07.Check — the comparison run inside Coq by the correspondence check: re-runs the model of the
   refactorings on the exported program, compares with the statements the implementation produced
   (tags 1..9, by exact evaluation), evaluates the PROPERTY (same values before / after) on the
   implementation's own output (tags >= 11), reports guard facts (tags >= 200). *)
From Coq Require Import QArith List Bool PArith Arith.
From PV Require Import Base.PyData Base.Expr Base.Interp Base.Stmts C07.Model.
Import ListNotations.
Local Open Scope nat_scope.

Inductive obs (A : Type) := OOk (a : A) | OValueError | OOther.
Arguments OOk {A} a. Arguments OValueError {A}. Arguments OOther {A}.

Record case := mkCase {
  c_known : list id;                 (* parameters, rvs, columns, t, compartment amounts *)
  c_outputs : list id;               (* dependent variables *)
  c_fixed : list (id * Q);           (* fixed parameters in order, with their initial estimate *)
  c_dists : list dist;               (* names / parameter_names of every distribution *)
  c_prog : list stm;                 (* model.statements *)
  c_decl : obs (list stm);           (* make_declarative(model).statements *)
  c_clean : obs (list stm);          (* cleanup_model(model).statements *)
  c_ren : list (list (id * id) * obs (list stm) * list id * list id);
                                     (* renaming, rename_symbols(...).statements, parameter names and
                                        rv names of the renamed model *)
  c_params : list id;                (* parameter names in order *)
  c_rvnames : list id;               (* rv names in order *)
  c_rdists : list rdist;             (* distributions for remove_unused_parameters_and_rvs *)
  c_unused : obs (list id * list id);(* parameter names, rv names after remove_unused_... *)
  c_envs : list (list (id * Q))      (* fixed parameters at their initial estimate *)
}.

Definition envs_of (c : case) : list env := map env_of (c_envs c).
Definition tag (b : bool) (t : nat) : list nat := if b then [] else [t].
Definition tag3 (v : nat) (tfail tinc : nat) : list nat :=
  match v with 0 => [] | 1 => [tfail] | _ => [tinc] end.

Fixpoint exprs_agree (need : nat) (envs : list env) (a b : list expr) : nat :=
  match a, b with
  | [], [] => 0
  | x :: a', y :: b' =>
      match expr_agree need envs x y with
      | 0 => exprs_agree need envs a' b'
      | 1 => 1
      | _ => match exprs_agree need envs a' b' with 1 => 1 | _ => 2 end
      end
  | _, _ => 1
  end.

Definition stm_agree (need : nat) (envs : list env) (a b : stm) : nat :=
  match a, b with
  | SAssign s e, SAssign s' e' => if Pos.eqb s s' then expr_agree need envs e e' else 1
  | SOde am args, SOde am' args' => if setp_eqb am am' then exprs_agree need envs args args' else 1
  | _, _ => 1
  end.

Fixpoint stms_agree (need : nat) (envs : list env) (a b : list stm) : nat :=
  match a, b with
  | [], [] => 0
  | x :: a', y :: b' =>
      match stm_agree need envs x y with
      | 0 => stms_agree need envs a' b'
      | 1 => 1
      | _ => match stms_agree need envs a' b' with 1 => 1 | _ => 2 end
      end
  | _, _ => 1
  end.

Definition res_agree (envs : list env) (m : res (list stm)) (o : obs (list stm)) : nat :=
  match m, o with
  | ROk a, OOk b => stms_agree 2 envs a b
  | RValueError, OValueError => 0
  | _, _ => 1
  end.

Definition run7 (r : env) (l : list stm) : env := sexec std_fi std_ode r l.

(* value of x changed: defined before and after, and different *)
Definition changed (a b : option Q) : bool :=
  match a, b with Some x, Some y => negb (Qeq_bool x y) | _, _ => false end.
Definition both_defined (a b : option Q) : bool :=
  match a, b with Some _, Some _ => true | _, _ => false end.

(* the property on one pair of programs: no symbol of [outs] changes at any point *)
Definition preserved (envs : list env) (outs : list id) (p p' : list stm) : bool :=
  forallb (fun r => forallb (fun x => negb (changed (run7 r p x) (run7 r p' x))) outs) envs.
Definition compared (envs : list env) (outs : list id) (p p' : list stm) : nat :=
  length (filter (fun rx => both_defined (run7 (fst rx) p (snd rx)) (run7 (fst rx) p' (snd rx)))
                 (list_prod envs outs)).

Definition check_decl (c : case) : list nat :=
  let p := c_prog c in
  tag3 (res_agree (envs_of c) (make_declarative_m (c_known c) p) (c_decl c)) 1 1001 ++
  match c_decl c with
  | OOk p' => tag (preserved (envs_of c) (normp (all_sdefs p)) p p') 11
              ++ tag (nodup_p (flat_map (fun st => match st with SAssign s _ => [s] | _ => [] end) p')) 18
  | _ => if canon_ok (c_known c) p then [14] else []
  end.

Definition check_clean (c : case) : list nat :=
  let p := c_prog c in
  tag3 (res_agree (envs_of c) (cleanup_m (c_known c) (c_fixed c) (c_dists c) p) (c_clean c)) 2 1002 ++
  match c_clean c with
  | OOk p' =>
      (* every symbol the cleaned model still defines keeps its value *)
      tag (preserved (envs_of c) (normp (all_sdefs p')) p p') 12
      ++ tag (forallb (fun y => negb (memp y (all_sdefs p)) || memp y (all_sdefs p')) (c_outputs c)) 13
  | _ => if canon_ok (c_known c) p then [15] else []
  end.

(* environment of the renamed model: new name carries the value of the old one *)
Definition ren_env (d : list (id * id)) (m : list (id * Q)) : env :=
  env_of (map (fun kv => (ren d (fst kv), snd kv)) m).

Definition check_ren (c : case) : list nat :=
  let p := c_prog c in
  flat_map (fun q =>
    let '(d, o, ps, rvs) := q in
    match o with
    | OOk p' =>
        tag3 (stms_agree 2 (map (ren_env d) (c_envs c)) (rename d p) p') 3 1003 ++
        tag (list_eqb Pos.eqb (rename_names d (c_params c)) ps
             && list_eqb Pos.eqb (rename_names d (c_rvnames c)) rvs) 4 ++
        (if g_rename_ok d (c_known c) p then
           tag (forallb (fun m => forallb (fun x => negb (changed (run7 (env_of m) p x)
                                                                   (run7 (ren_env d m) p' (ren d x))))
                                          (normp (all_sdefs p))) (c_envs c)) 16
         else [203])
    | _ => if g_rename_ok d (c_known c) p then [17] else [203]
    end) (c_ren c).

Definition check_unused (c : case) : list nat :=
  let symbols := all_ssyms (c_prog c) in
  match c_unused c with
  | OOk (ps, rvs) =>
      tag (list_eqb Pos.eqb (unused_new_params symbols (c_rdists c) (c_fixed c) (c_params c)) ps) 5 ++
      tag (list_eqb Pos.eqb (unused_new_rv_names symbols (c_rdists c)) rvs) 6 ++
      (* nothing that a statement mentions is removed *)
      tag (forallb (fun x => negb (memp x symbols) || memp x ps) (c_params c)
           && forallb (fun x => negb (memp x symbols) || memp x rvs) (c_rvnames c)) 19
  | _ => [20]
  end.

Definition guard_tags (c : case) : list nat :=
  let p := c_prog c in
  tag (g_no_stale_capture p) 201 ++
  tag (g_no_alias_chain (declarative p)) 202 ++
  tag (g_inline_ok (declarative p)) 204 ++
  tag (forallb (fun y => negb (memp y (inlined (declarative p)))) (c_outputs c)) 205 ++
  tag (canon_ok (c_known c) p) 206.

Definition verdict (c : case) : list nat :=
  check_decl c ++ check_clean c ++ check_ren c ++ check_unused c ++ guard_tags c.
