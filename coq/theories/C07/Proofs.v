(* PV.C07.Proofs — lemmas about the C07 model of the statement refactorings. *)
From Coq Require Import QArith List Bool PArith Arith Lia.
From PV Require Import Base.PyData Base.Expr Base.Interp Base.Stmts C07.Model.
Import ListNotations.
Local Open Scope nat_scope.

(* ---------- dictionaries ---------- *)
Lemma alookup_aremove {A} k (m : list (id * A)) x :
  alookup (aremove k m) x = if Pos.eqb x k then None else alookup m x.
Proof.
  induction m as [|[k' v] m IH]; cbn [aremove alookup].
  - destruct (Pos.eqb x k); reflexivity.
  - destruct (Pos.eqb k' k) eqn:E.
    + rewrite IH. apply Pos.eqb_eq in E. subst k'.
      destruct (Pos.eqb x k) eqn:E2; [reflexivity|].
      rewrite Pos.eqb_sym, E2. reflexivity.
    + cbn [alookup]. rewrite IH. destruct (Pos.eqb k' x) eqn:E2; [|reflexivity].
      apply Pos.eqb_eq in E2. subst k'. rewrite E. reflexivity.
Qed.

Lemma alookup_aset {A} k (v : A) m x :
  alookup (aset k v m) x = if Pos.eqb x k then Some v else alookup m x.
Proof.
  unfold aset. cbn [alookup]. rewrite alookup_aremove, (Pos.eqb_sym k x).
  destruct (Pos.eqb x k); reflexivity.
Qed.

Lemma alookup_In {A} (m : list (id * A)) x v : alookup m x = Some v -> In (x, v) m.
Proof.
  induction m as [|[k w] m IH]; cbn [alookup]; [discriminate|].
  destruct (Pos.eqb k x) eqn:E; intros H.
  - apply Pos.eqb_eq in E. injection H as <-. subst. left. reflexivity.
  - right. apply IH. exact H.
Qed.

Lemma alookup_None_keys {A} (m : list (id * A)) x : alookup m x = None <-> ~ In x (akeys m).
Proof.
  induction m as [|[k w] m IH]; cbn [alookup akeys map fst In]; [tauto|].
  destruct (Pos.eqb k x) eqn:E.
  - apply Pos.eqb_eq in E. subst. split; [discriminate | intros H; exfalso; apply H; auto].
  - fold (akeys m). rewrite IH. split; [intros H [H1|H1]; [subst; rewrite Pos.eqb_refl in E; discriminate | auto] | auto].
Qed.

Lemma not_memp x l : memp x l = false <-> ~ In x l.
Proof.
  split; intros H.
  - intro Hin. apply memp_In in Hin. congruence.
  - destruct (memp x l) eqn:E; [apply memp_In in E; contradiction | reflexivity].
Qed.

Lemma interp_empty a b : interp_nonempty a b = false <-> forall x, In x a -> ~ In x b.
Proof.
  split.
  - intros H x Ha Hb.
    assert (interp_nonempty a b = true) by (apply interp_nonempty_spec; eauto). congruence.
  - intros H. destruct (interp_nonempty a b) eqn:E; [|reflexivity].
    apply interp_nonempty_spec in E. destruct E as [x [Ha Hb]]. exfalso. exact (H x Ha Hb).
Qed.

Lemma In_removep x s l : In x (removep s l) <-> In x l /\ x <> s.
Proof.
  unfold removep. rewrite filter_In, negb_true_iff. split; intros [H1 H2]; split; auto.
  - intro; subst. rewrite Pos.eqb_refl in H2. discriminate.
  - apply Pos.eqb_neq. exact H2.
Qed.

(* ---------- execution ---------- *)
Section Sem.
  Variable fi : finterp.
  Variable ode : id -> list (option Q) -> option Q.

  Notation sexec := (sexec fi ode).
  Notation sexec1 := (sexec1 fi ode).
  Notation U := (fun r m => upd_map r fi m).

  Lemma sexec_app r l1 l2 : sexec r (l1 ++ l2) = sexec (sexec r l1) l2.
  Proof. revert r. induction l1 as [|st l1 IH]; intros r; [reflexivity|]. cbn [app sexec]. apply IH. Qed.

  Lemma subs_map_eval r m e : eval r fi (subs_map m e) = eval (upd_map r fi m) fi e.
  Proof. apply subs_map_lemma. Qed.

  Lemma eval_ext r r' e : (forall x, In x (free_syms e) -> r x = r' x) -> eval r fi e = eval r' fi e.
  Proof. intros H. apply eval_coincidence. exact H. Qed.

  Lemma map_eval_ext r r' (args : list expr) :
    (forall x, In x (flat_map free_syms args) -> r x = r' x) ->
    map (fun e => eval r fi e) args = map (fun e => eval r' fi e) args.
  Proof.
    intros H. apply map_ext_in. intros e He. apply eval_ext. intros x Hx. apply H.
    apply in_flat_map. eauto.
  Qed.

  (* what one statement does, in terms of its defined symbols *)
  Lemma sexec1_other r st x : ~ In x (sdefs st) -> sexec1 r st x = r x.
  Proof.
    intros H. destruct st as [s e|amts args]; cbn [Model.sexec1 sdefs] in *.
    - unfold upd. destruct (Pos.eqb x s) eqn:E; [|reflexivity].
      apply Pos.eqb_eq in E. subst. exfalso. apply H. left. reflexivity.
    - unfold upd_list. destruct (memp x amts) eqn:E; [|reflexivity].
      apply memp_In in E. contradiction.
  Qed.

  Lemma sexec_other l : forall r x, ~ In x (all_sdefs l) -> sexec r l x = r x.
  Proof.
    induction l as [|st l IH]; intros r x H; [reflexivity|]. cbn [Model.sexec].
    unfold all_sdefs in H. cbn [flat_map] in H. rewrite in_app_iff in H.
    rewrite IH by tauto. apply sexec1_other. tauto.
  Qed.

  (* two runs of one statement from environments that agree on what it reads *)
  Lemma sexec1_defs r r' st x :
    (forall y, In y (srhs st) -> r y = r' y) -> In x (sdefs st) -> sexec1 r st x = sexec1 r' st x.
  Proof.
    intros Hag Hx. destruct st as [s e|amts args]; cbn [Model.sexec1 sdefs srhs] in *.
    - destruct Hx as [<-|[]]. unfold upd. rewrite Pos.eqb_refl. apply eval_ext. exact Hag.
    - unfold upd_list. apply memp_In in Hx. rewrite Hx. f_equal. apply map_eval_ext. exact Hag.
  Qed.

  (* pointwise equal environments stay pointwise equal *)
  Lemma sexec1_ext r r' st : (forall x, r x = r' x) -> forall x, sexec1 r st x = sexec1 r' st x.
  Proof.
    intros H x. destruct (in_dec Pos.eq_dec x (sdefs st)) as [Hin|Hn].
    - apply sexec1_defs; auto.
    - rewrite !sexec1_other by exact Hn. apply H.
  Qed.

  Lemma sexec_ext l : forall r r', (forall x, r x = r' x) -> forall x, sexec r l x = sexec r' l x.
  Proof.
    induction l as [|st l IH]; intros r r' H; [exact H|]. cbn [Model.sexec]. apply IH.
    apply sexec1_ext. exact H.
  Qed.

  (* the embedding of Base.Stmts programs *)
  Lemma sexec_of_stmt l : forall r, sexec r (map of_stmt l) = exec fi ode r l.
  Proof.
    induction l as [|st l IH]; intros r; [reflexivity|]. cbn [map Model.sexec exec]. rewrite <- IH. f_equal.
    destruct st as [s e|a rh]; cbn [of_stmt Model.sexec1 exec1]; [reflexivity|].
    rewrite map_map. reflexivity.
  Qed.

  (* ================= make_declarative ================= *)
  (* the old run's value of x is what the new run would compute for x by substituting `current` *)
  Definition Inv (cur : list (id * expr)) (P : list id) (ro rn : env) : Prop :=
    forall x, ~ In x P -> ro x = upd_map rn fi cur x.

  Lemma use_ok_spec P syms : use_ok P syms = true <-> forall x, In x syms -> ~ In x P.
  Proof. unfold use_ok. rewrite negb_true_iff. apply interp_empty. Qed.

  Lemma inv_use cur P ro rn e :
    Inv cur P ro rn -> use_ok P (free_syms e) = true -> eval rn fi (subs_map cur e) = eval ro fi e.
  Proof.
    intros HI Hu. rewrite subs_map_eval. apply eval_ext. intros x Hx. symmetry. apply HI.
    rewrite use_ok_spec in Hu. auto.
  Qed.

  Lemma inv_use_args cur P ro rn args :
    Inv cur P ro rn -> use_ok P (flat_map free_syms args) = true ->
    map (fun e => eval rn fi e) (map (subs_map cur) args) = map (fun e => eval ro fi e) args.
  Proof.
    intros HI Hu. rewrite map_map. apply map_ext_in. intros e He. apply (inv_use cur P); [exact HI|].
    rewrite use_ok_spec in *. intros x Hx. apply Hu. apply in_flat_map. eauto.
  Qed.

  Lemma In_poison_after cur xs P x :
    In x (poison_after cur xs P) <-> In x P \/ exists t, In (x, t) cur /\ mentions t xs = true.
  Proof.
    unfold poison_after. rewrite in_app_iff, in_map_iff. split.
    - intros [H|[[k t] [<- H]]]; [auto|]. apply filter_In in H. cbn [fst snd] in *. right. exists t. exact H.
    - intros [H|[t [H1 H2]]]; [auto|]. right. exists (x, t). split; [reflexivity|]. apply filter_In. auto.
  Qed.

  (* emitting a statement that defines the symbols D with the same values in both runs *)
  Lemma inv_emit cur cur' P P0 D ro rn ro' rn' :
    Inv cur P ro rn ->
    (forall x, In x D -> ro' x = rn' x) ->
    (forall x, ~ In x D -> ro' x = ro x /\ rn' x = rn x) ->
    (forall x, In x D -> alookup cur' x = None) ->
    (forall x, ~ In x D -> alookup cur' x = alookup cur x) ->
    (forall x, ~ In x D -> ~ In x P0 -> ~ In x P) ->
    Inv cur' (poison_after cur' D P0) ro' rn'.
  Proof.
    intros HI Hd Hnd Hk Hnk HP x Hx. rewrite In_poison_after in Hx.
    unfold upd_map. destruct (in_dec Pos.eq_dec x D) as [Hin|Hn].
    - rewrite (Hk x Hin). apply Hd. exact Hin.
    - destruct (Hnd x Hn) as [-> E2]. rewrite HI by (apply HP; tauto).
      unfold upd_map. rewrite (Hnk x Hn). destruct (alookup cur x) as [t|] eqn:El; [|symmetry; exact E2].
      apply eval_ext. intros y Hy. destruct (in_dec Pos.eq_dec y D) as [HyD|HyD]; [|symmetry; apply Hnd; exact HyD].
      exfalso. apply Hx. right. exists t. split.
      + apply alookup_In. rewrite Hnk by exact Hn. exact El.
      + apply interp_nonempty_spec. eauto.
  Qed.

  (* storing an expression for s without emitting anything *)
  Lemma inv_store cur P ro rn s v t :
    Inv cur P ro rn -> eval rn fi t = v ->
    Inv (aset s t cur) (removep s P) (upd ro s v) rn.
  Proof.
    intros HI Hv x Hx. rewrite In_removep in Hx. unfold upd_map, upd. rewrite alookup_aset.
    destruct (Pos.eqb x s) eqn:E; [symmetry; exact Hv|].
    apply Pos.eqb_neq in E. rewrite HI by tauto. reflexivity.
  Qed.

  Lemma alookup_areplace s v d k :
    alookup (areplace s v d) k = None <-> alookup d k = None.
  Proof.
    induction d as [|[k' w] d IH]; cbn [areplace alookup]; [tauto|].
    destruct (Pos.eqb k' s) eqn:E; cbn [alookup]; destruct (Pos.eqb k' k); try tauto; split; discriminate.
  Qed.

  Lemma classify_table dups i s kd d' :
    classify dups i s = (kd, d') ->
    (forall k, alookup d' k = None <-> alookup dups k = None) /\
    (kd = KPlain <-> alookup dups s = None).
  Proof.
    unfold classify. destruct (alookup dups s) as [idx|] eqn:E.
    - destruct (memn i idx).
      + intros H. injection H as <- <-. split; [intros k; apply alookup_areplace|].
        destruct (tl idx); split; discriminate.
      + intros H. injection H as <- <-. split; [tauto | split; discriminate].
    - intros H. injection H as <- <-. split; tauto.
  Qed.

  Lemma declarative_lemma : forall l i cur dups P ro rn,
    decl_guard l i cur dups P = true ->
    Inv cur P ro rn ->
    (forall k, alookup dups k = None -> alookup cur k = None) ->
    forall x, sexec rn (decl_walk l i cur dups) x = sexec ro l x.
  Proof.
    induction l as [|st l IH]; intros i cur dups P ro rn Hg HI HT x.
    - cbn [decl_guard] in Hg. destruct cur; [|discriminate]. destruct P; [|discriminate].
      cbn [decl_walk Model.sexec]. symmetry. apply HI. intros [].
    - cbn [decl_guard decl_walk Model.sexec] in *.
      destruct st as [s e|amts args].
      + cbn [decl_step] in *. destruct (classify dups i s) as [kd d'] eqn:Ec.
        destruct (classify_table _ _ _ _ _ Ec) as [Ht Hk]. cbn [fst] in Hg.
        assert (HT' : forall cur', (forall k, k <> s -> alookup cur' k = None <-> alookup cur k = None) ->
                                   (kd = KPlain -> alookup cur' s = None) ->
                                   forall k, alookup d' k = None -> alookup cur' k = None).
        { intros cur' H1 H2 k Hkk. destruct (Pos.eq_dec k s) as [->|Hne].
          - apply H2. apply Hk. apply Ht. exact Hkk.
          - apply H1; [exact Hne|]. apply HT. apply Ht. exact Hkk. }
        destruct kd.
        * (* KPlain *)
          apply andb_true_iff in Hg. destruct Hg as [Hu Hg].
          assert (Hs : alookup cur s = None) by (apply HT, Hk; reflexivity).
          cbn [Model.sexec]. eapply IH; [exact Hg| |apply HT'; [tauto | intros _; exact Hs]].
          cbn [Model.sexec1]. rewrite (inv_use cur P ro rn e HI Hu).
          eapply (inv_emit cur cur P P [s]); [exact HI|..].
          -- intros y [<-|[]]. unfold upd. rewrite Pos.eqb_refl. reflexivity.
          -- intros y Hy. unfold upd. assert (E : Pos.eqb y s = false) by (apply Pos.eqb_neq; intro; subst; apply Hy; left; reflexivity).
             rewrite E. auto.
          -- intros y [<-|[]]. exact Hs.
          -- reflexivity.
          -- auto.
        * (* KFirst *)
          apply andb_true_iff in Hg. destruct Hg as [Hg Hg2]. apply andb_true_iff in Hg. destruct Hg as [Hu Hk2].
          eapply IH; [exact Hg2| |].
          -- cbn [Model.sexec1]. apply inv_store; [exact HI|].
             apply eval_ext. intros y Hy. rewrite HI by (rewrite use_ok_spec in Hu; auto).
             unfold upd_map. apply negb_true_iff in Hk2. rewrite interp_empty in Hk2.
             specialize (Hk2 y Hy). apply alookup_None_keys in Hk2. rewrite Hk2. reflexivity.
          -- apply HT'; [|intros Hc; discriminate].
             intros k Hne. rewrite alookup_aset. apply Pos.eqb_neq in Hne. rewrite Hne. tauto.
        * (* KMiddle *)
          apply andb_true_iff in Hg. destruct Hg as [Hu Hg2].
          eapply IH; [exact Hg2| |].
          -- cbn [Model.sexec1]. apply inv_store; [exact HI|]. apply (inv_use cur P); assumption.
          -- apply HT'; [|intros Hc; discriminate].
             intros k Hne. rewrite alookup_aset. apply Pos.eqb_neq in Hne. rewrite Hne. tauto.
        * (* KLast *)
          apply andb_true_iff in Hg. destruct Hg as [Hu Hg2].
          cbn [Model.sexec]. eapply IH; [exact Hg2| |].
          -- cbn [Model.sexec1]. rewrite (inv_use cur P ro rn e HI Hu).
             eapply (inv_emit cur (aremove s cur) P (removep s P) [s]); [exact HI|..].
             ++ intros y [<-|[]]. unfold upd. rewrite Pos.eqb_refl. reflexivity.
             ++ intros y Hy. unfold upd. assert (E : Pos.eqb y s = false) by (apply Pos.eqb_neq; intro; subst; apply Hy; left; reflexivity).
                rewrite E. auto.
             ++ intros y [<-|[]]. rewrite alookup_aremove, Pos.eqb_refl. reflexivity.
             ++ intros y Hy. rewrite alookup_aremove.
                assert (E : Pos.eqb y s = false) by (apply Pos.eqb_neq; intro; subst; apply Hy; left; reflexivity).
                rewrite E. reflexivity.
             ++ intros y Hy Hr Hp. apply Hr. apply In_removep. split; [exact Hp|]. intro; subst. apply Hy. left. reflexivity.
          -- intros k Hkk. rewrite alookup_aremove. destruct (Pos.eqb k s); [reflexivity|]. apply HT, Ht, Hkk.
      + (* compartmental system *)
        cbn [decl_step] in *.
        apply andb_true_iff in Hg. destruct Hg as [Hg Hg2]. apply andb_true_iff in Hg. destruct Hg as [Hu Hk].
        apply negb_true_iff in Hk. rewrite interp_empty in Hk.
        cbn [Model.sexec]. eapply IH; [exact Hg2| |exact HT].
        cbn [Model.sexec1]. rewrite (inv_use_args cur P ro rn args HI Hu).
        eapply (inv_emit cur cur P P amts); [exact HI|..].
        * intros y Hy. unfold upd_list. apply memp_In in Hy. rewrite Hy. reflexivity.
        * intros y Hy. unfold upd_list. apply not_memp in Hy. rewrite Hy. auto.
        * intros y Hy. apply alookup_None_keys. apply Hk. exact Hy.
        * reflexivity.
        * auto.
  Qed.

  Lemma declarative_preserves_lemma l :
    g_no_stale_capture l = true -> forall r x, sexec r (declarative l) x = sexec r l x.
  Proof.
    intros Hg r x. unfold declarative. eapply declarative_lemma; [exact Hg| |reflexivity].
    intros y _. reflexivity.
  Qed.

  (* ================= pending substitutions: the inlining loop and constant substitution ========== *)
  Definition InvS (cur : list (id * expr)) (ro rn : env) : Prop := forall x, ro x = upd_map rn fi cur x.

  Lemma In_targets cur x : In x (targets cur) <-> exists k t, In (k, t) cur /\ In x (free_syms t).
  Proof.
    unfold targets. rewrite in_flat_map. split.
    - intros [[k t] [H1 H2]]. eauto.
    - intros [k [t [H1 H2]]]. exists (k, t). auto.
  Qed.

  Lemma ren_of_nokey m s : alookup m s = None -> ren_of m s = s.
  Proof. unfold ren_of. intros ->. reflexivity. Qed.

  (* a statement whose defined symbols are neither pending keys nor mentioned by pending values *)
  Lemma invS_emit cur ro rn st :
    InvS cur ro rn ->
    interp_nonempty (sdefs st) (akeys cur ++ targets cur) = false ->
    InvS cur (sexec1 ro st) (sexec1 rn (subs_stm cur st)).
  Proof.
    intros HI Hd. rewrite interp_empty in Hd.
    assert (Hkey : forall x, In x (sdefs st) -> alookup cur x = None).
    { intros x Hx. apply alookup_None_keys. intro Hk. apply (Hd x Hx). apply in_or_app. auto. }
    assert (Htg : forall k t y, alookup cur k = Some t -> In y (free_syms t) -> ~ In y (sdefs st)).
    { intros k t y Hl Hy Hin. apply (Hd y Hin). apply in_or_app. right. apply In_targets.
      exists k, t. split; [apply alookup_In; exact Hl | exact Hy]. }
    assert (Hrhs : forall e, eval rn fi (subs_map cur e) = eval ro fi e).
    { intros e. rewrite subs_map_eval. apply eval_ext. intros y _. symmetry. apply HI. }
    intros x. unfold upd_map.
    destruct (in_dec Pos.eq_dec x (sdefs st)) as [Hin|Hn].
    - rewrite (Hkey x Hin).
      destruct st as [s e|amts args]; cbn [subs_stm Model.sexec1 sdefs] in *.
      + destruct Hin as [<-|[]]. rewrite (ren_of_nokey cur s) by (apply Hkey; left; reflexivity).
        unfold upd. rewrite Pos.eqb_refl. symmetry. apply Hrhs.
      + unfold upd_list. apply memp_In in Hin. rewrite Hin. f_equal. rewrite map_map.
        apply map_ext. intros e. symmetry. apply Hrhs.
    - rewrite sexec1_other by exact Hn. rewrite HI. unfold upd_map.
      assert (Hn' : ~ In x (sdefs (subs_stm cur st))).
      { destruct st as [s e|amts args]; cbn [subs_stm sdefs] in *; [|exact Hn].
        rewrite (ren_of_nokey cur s) by (apply Hkey; left; reflexivity). exact Hn. }
      destruct (alookup cur x) as [t|] eqn:El.
      + apply eval_ext. intros y Hy. symmetry. apply sexec1_other.
        assert (Hy' : ~ In y (sdefs st)) by (eapply Htg; eauto).
        destruct st as [s e|amts args]; cbn [subs_stm sdefs] in *; [|exact Hy'].
        rewrite (ren_of_nokey cur s) by (apply Hkey; left; reflexivity). exact Hy'.
      + symmetry. apply sexec1_other. exact Hn'.
  Qed.

  Lemma alias_of_spec st s y : alias_of st = Some (s, y) -> st = SAssign s (Sym y).
  Proof.
    destruct st as [s' e|a b]; [|discriminate]. destruct e; try discriminate.
    cbn. intros H. injection H as <- <-. reflexivity.
  Qed.

  Lemma inline_lemma : forall l cur ro rn,
    inline_guard l cur = true -> InvS cur ro rn ->
    forall x, ~ In x (akeys (inline_final l cur)) -> sexec rn (inline_walk l cur) x = sexec ro l x.
  Proof.
    induction l as [|st l IH]; intros cur ro rn Hg HI x Hx.
    - cbn [inline_walk inline_final Model.sexec] in *. rewrite HI. unfold upd_map.
      apply alookup_None_keys in Hx. rewrite Hx. reflexivity.
    - cbn [inline_guard inline_walk inline_final Model.sexec] in *.
      destruct (alias_of st) as [[s y]|] eqn:Ea.
      + apply alias_of_spec in Ea. subst st.
        apply andb_true_iff in Hg. destruct Hg as [Hy Hg]. apply negb_true_iff, not_memp, alookup_None_keys in Hy.
        apply (IH (aset s (Sym y) cur)); [exact Hg| |exact Hx].
        intros z. cbn [Model.sexec1 eval]. unfold upd_map, upd. rewrite alookup_aset.
        destruct (Pos.eqb z s); [|apply HI].
        cbn [eval]. rewrite HI. unfold upd_map. rewrite Hy. reflexivity.
      + apply andb_true_iff in Hg. destruct Hg as [Hd Hg]. apply negb_true_iff in Hd.
        cbn [Model.sexec]. apply (IH cur); [exact Hg| |exact Hx]. apply invS_emit; assumption.
  Qed.

  Lemma inline_preserves_lemma l :
    g_inline_ok l = true -> forall r x, ~ In x (inlined l) -> sexec r (inline l) x = sexec r l x.
  Proof.
    intros Hg r x Hx. unfold inline. apply inline_lemma; [exact Hg| |exact Hx]. intros y. reflexivity.
  Qed.

  (* the value of an inlined alias is still available: it is the value of what it points to *)
  Lemma inline_alias_lemma : forall l cur ro rn,
    inline_guard l cur = true -> InvS cur ro rn ->
    forall x, sexec ro l x = upd_map (sexec rn (inline_walk l cur)) fi (inline_final l cur) x.
  Proof.
    induction l as [|st l IH]; intros cur ro rn Hg HI x.
    - cbn [inline_walk inline_final Model.sexec]. apply HI.
    - cbn [inline_guard inline_walk inline_final Model.sexec] in *.
      destruct (alias_of st) as [[s y]|] eqn:Ea.
      + apply alias_of_spec in Ea. subst st.
        apply andb_true_iff in Hg. destruct Hg as [Hy Hg]. apply negb_true_iff, not_memp, alookup_None_keys in Hy.
        apply (IH (aset s (Sym y) cur)); [exact Hg|].
        intros z. cbn [Model.sexec1 eval]. unfold upd_map, upd. rewrite alookup_aset.
        destruct (Pos.eqb z s); [|apply HI].
        cbn [eval]. rewrite HI. unfold upd_map. rewrite Hy. reflexivity.
      + apply andb_true_iff in Hg. destruct Hg as [Hd Hg]. apply negb_true_iff in Hd.
        cbn [Model.sexec]. apply (IH cur); [exact Hg|]. apply invS_emit; assumption.
  Qed.

  (* constant substitution: statements.subs(d) with closed values and keys that are never assigned *)
  Lemma targets_closed m :
    forallb (fun kv : id * expr => match free_syms (snd kv) with [] => true | _ => false end) m = true ->
    targets m = [].
  Proof.
    induction m as [|[k t] m IH]; cbn [forallb targets flat_map snd]; [reflexivity|].
    intros H. apply andb_true_iff in H. destruct H as [H1 H2]. destruct (free_syms t); [|discriminate].
    cbn [app]. apply IH. exact H2.
  Qed.

  Lemma consts_lemma m : forall l ro rn,
    g_consts_ok m l = true -> InvS m ro rn ->
    forall x, sexec ro l x = upd_map (sexec rn (map (subs_stm m) l)) fi m x.
  Proof.
    induction l as [|st l IH]; intros ro rn Hg HI x; [apply HI|].
    cbn [map Model.sexec]. unfold g_consts_ok in Hg. apply andb_true_iff in Hg. destruct Hg as [Hk Hc].
    apply negb_true_iff in Hk. rewrite interp_empty in Hk.
    apply IH.
    - unfold g_consts_ok. rewrite Hc, andb_true_r. apply negb_true_iff, interp_empty.
      intros y Hy Hd. apply (Hk y Hy). unfold all_sdefs. cbn [flat_map]. apply in_or_app. right. exact Hd.
    - apply invS_emit; [exact HI|]. rewrite (targets_closed m Hc), app_nil_r. apply interp_empty.
      intros y Hy Hkk. apply (Hk y Hkk). unfold all_sdefs. cbn [flat_map]. apply in_or_app. left. exact Hy.
  Qed.
End Sem.
