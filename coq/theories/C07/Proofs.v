(* PV.C07.Proofs — lemmas about the C07 model of the statement refactorings. *)
From Coq Require Import QArith List Bool PArith Arith Lia Permutation.
From PV Require Import Base.PyData Base.Expr Base.Interp Base.Stmts C07.Model.
From PV Require C10.Model C10.Proofs.
Import ListNotations.
Local Open Scope nat_scope.

(* ---------- dictionaries ---------- *)
Lemma alookup_aremove {A} k (m : list (id * A)) x :
  alookup (aremove k m) x = if Pos.eqb x k then None else alookup m x.
Proof.
  induction m as [|[k' v] m IH]; cbn [aremove alookup].
  - destruct (Pos.eqb x k); reflexivity.
  - destruct (Pos.eqb k' k) eqn:E.
    + rewrite IH. apply Pos.eqb_eq in E. subst k'.
      destruct (Pos.eqb x k) eqn:E2; [reflexivity|].
      rewrite Pos.eqb_sym, E2. reflexivity.
    + cbn [alookup]. rewrite IH. destruct (Pos.eqb k' x) eqn:E2; [|reflexivity].
      apply Pos.eqb_eq in E2. subst k'. rewrite E. reflexivity.
Qed.

Lemma alookup_aset {A} k (v : A) m x :
  alookup (aset k v m) x = if Pos.eqb x k then Some v else alookup m x.
Proof.
  unfold aset. cbn [alookup]. rewrite alookup_aremove, (Pos.eqb_sym k x).
  destruct (Pos.eqb x k); reflexivity.
Qed.

Lemma alookup_In {A} (m : list (id * A)) x v : alookup m x = Some v -> In (x, v) m.
Proof.
  induction m as [|[k w] m IH]; cbn [alookup]; [discriminate|].
  destruct (Pos.eqb k x) eqn:E; intros H.
  - apply Pos.eqb_eq in E. injection H as <-. subst. left. reflexivity.
  - right. apply IH. exact H.
Qed.

Lemma alookup_None_keys {A} (m : list (id * A)) x : alookup m x = None <-> ~ In x (akeys m).
Proof.
  induction m as [|[k w] m IH]; cbn [alookup akeys map fst In]; [tauto|].
  destruct (Pos.eqb k x) eqn:E.
  - apply Pos.eqb_eq in E. subst. split; [discriminate | intros H; exfalso; apply H; auto].
  - fold (akeys m). rewrite IH. split; [intros H [H1|H1]; [subst; rewrite Pos.eqb_refl in E; discriminate | auto] | auto].
Qed.

Lemma not_memp x l : memp x l = false <-> ~ In x l.
Proof.
  split; intros H.
  - intro Hin. apply memp_In in Hin. congruence.
  - destruct (memp x l) eqn:E; [apply memp_In in E; contradiction | reflexivity].
Qed.

Lemma interp_empty a b : interp_nonempty a b = false <-> forall x, In x a -> ~ In x b.
Proof.
  split.
  - intros H x Ha Hb.
    assert (interp_nonempty a b = true) by (apply interp_nonempty_spec; eauto). congruence.
  - intros H. destruct (interp_nonempty a b) eqn:E; [|reflexivity].
    apply interp_nonempty_spec in E. destruct E as [x [Ha Hb]]. exfalso. exact (H x Ha Hb).
Qed.

Lemma In_removep x s l : In x (removep s l) <-> In x l /\ x <> s.
Proof.
  unfold removep. rewrite filter_In, negb_true_iff. split; intros [H1 H2]; split; auto.
  - intro; subst. rewrite Pos.eqb_refl in H2. discriminate.
  - apply Pos.eqb_neq. exact H2.
Qed.

(* ================= the duplicate table of make_declarative is consistent ================= *)
Fixpoint occ (s : id) (l : list stm) (i : nat) : list nat :=
  match l with
  | [] => []
  | SAssign x _ :: tl => if Pos.eqb x s then i :: occ s tl (S i) else occ s tl (S i)
  | SOde _ _ :: tl => occ s tl (S i)
  end.

Lemma occ_ge s : forall l i j, In j (occ s l i) -> i <= j.
Proof.
  induction l as [|st l IH]; intros i j H; cbn [occ] in H; [destruct H|].
  destruct st as [x e|a b].
  - destruct (Pos.eqb x s).
    + destruct H as [<-|H]; [lia|]. apply IH in H. lia.
    + apply IH in H. lia.
  - apply IH in H. lia.
Qed.

Lemma alookup_aappend s i d x :
  alookup (aappend s i d) x =
  if Pos.eqb x s then Some (match alookup d s with Some v => v ++ [i] | None => [i] end) else alookup d x.
Proof.
  induction d as [|[k v] d IH]; cbn [aappend alookup].
  - destruct (Pos.eqb_spec s x), (Pos.eqb_spec x s); subst; try congruence; reflexivity.
  - destruct (Pos.eqb_spec k s); cbn [alookup].
    + subst k.
      destruct (Pos.eqb_spec s x), (Pos.eqb_spec x s); subst; try congruence; reflexivity.
    + rewrite IH. destruct (Pos.eqb_spec k x), (Pos.eqb_spec x s); subst; try congruence; try reflexivity.
Qed.

Definition tail_entry (o : list nat) : option (list nat) :=
  match o with [] => None | [_] => None | _ :: o' => Some o' end.

Lemma dup_scan_spec : forall l i assigned dups,
  (forall s, memp s assigned = false -> alookup dups s = None) ->
  forall s, alookup (dup_scan l i assigned dups) s =
    if memp s assigned then
      match alookup dups s with
      | Some v => Some (v ++ occ s l i)
      | None => match occ s l i with [] => None | o => Some o end
      end
    else tail_entry (occ s l i).
Proof.
  induction l as [|st l IH]; intros i assigned dups Hpre s; cbn [dup_scan occ].
  - destruct (memp s assigned) eqn:E; [|cbn; apply Hpre; exact E].
    destruct (alookup dups s); [rewrite app_nil_r|]; reflexivity.
  - destruct st as [x e|a b]; [|apply IH; exact Hpre].
    destruct (memp x assigned) eqn:Ex.
    + rewrite IH.
      2:{ intros s' Hs'. rewrite alookup_aappend. destruct (Pos.eqb s' x) eqn:E; [|apply Hpre; exact Hs'].
          apply Pos.eqb_eq in E. subst. congruence. }
      rewrite alookup_aappend. destruct (Pos.eqb x s) eqn:E.
      * apply Pos.eqb_eq in E. subst x. rewrite Ex, Pos.eqb_refl.
        destruct (alookup dups s); rewrite <- ?app_assoc; reflexivity.
      * rewrite (Pos.eqb_sym s x), E. reflexivity.
    + rewrite IH.
      2:{ intros s' Hs'. apply Hpre. cbn [memp existsb] in Hs'. apply orb_false_iff in Hs'. apply Hs'. }
      cbn [memp existsb]. fold (memp s assigned). destruct (Pos.eqb x s) eqn:E.
      * apply Pos.eqb_eq in E. subst x. rewrite Pos.eqb_refl. cbn [orb]. rewrite Ex.
        rewrite (Hpre s Ex). cbn [tail_entry]. destruct (occ s l (S i)); reflexivity.
      * rewrite (Pos.eqb_sym s x), E. cbn [orb]. reflexivity.
Qed.

Lemma dup_table_spec l s : alookup (dup_table l) s = tail_entry (occ s l 0).
Proof. unfold dup_table. rewrite dup_scan_spec; [reflexivity | reflexivity]. Qed.

Lemma alookup_areplace_eq s v d : alookup d s <> None -> alookup (areplace s v d) s = Some v.
Proof.
  induction d as [|[k w] d IH]; cbn [areplace alookup]; [congruence|].
  destruct (Pos.eqb k s) eqn:E; cbn [alookup]; rewrite E; [reflexivity | exact IH].
Qed.

Lemma alookup_areplace_neq s v d x : x <> s -> alookup (areplace s v d) x = alookup d x.
Proof.
  intros Hne. induction d as [|[k w] d IH]; cbn [areplace alookup]; [reflexivity|].
  destruct (Pos.eqb k s) eqn:E; cbn [alookup].
  - apply Pos.eqb_eq in E. subst k. destruct (Pos.eqb s x) eqn:E2; [|reflexivity].
    apply Pos.eqb_eq in E2. congruence.
  - rewrite IH. reflexivity.
Qed.

(* the state of the second loop at index i, [l] the remaining statements, [seen] the symbols assigned so far *)
Definition J (seen : list id) (i : nat) (l : list stm) (cur : list (id * expr)) (dups : list (id * list nat)) : Prop :=
  forall s,
    (memp s seen = true ->
       (alookup dups s = None /\ alookup cur s = None /\ occ s l i = []) \/
       (alookup dups s = Some (occ s l i) /\ (alookup cur s <> None <-> occ s l i <> []))) /\
    (memp s seen = false -> alookup cur s = None /\ alookup dups s = tail_entry (occ s l i)).

Lemma memn_false_ge i o : (forall j, In j o -> S i <= j) -> memn i o = false.
Proof.
  intros H. destruct (memn i o) eqn:E; [|reflexivity]. apply memn_In in E. apply H in E. lia.
Qed.

Definition assigned_by (st : stm) : list id := match st with SAssign x _ => [x] | SOde _ _ => [] end.

Lemma J_step fx seen i st l cur dups cur' dups' out :
  J seen i (st :: l) cur dups ->
  decl_step_gen fx cur dups i st = (cur', dups', out) ->
  J (assigned_by st ++ seen) (S i) l cur' dups'.
Proof.
  intros HJ Hstep. destruct st as [x e|a b].
  2:{ cbn [decl_step_gen] in Hstep. injection Hstep as <- <- _. cbn [assigned_by app].
      intros s. specialize (HJ s). cbn [occ] in HJ. exact HJ. }
  cbn [decl_step_gen] in Hstep. cbn [assigned_by app]. destruct (classify dups i x) as [kd d'] eqn:Ec.
  assert (Hocc : forall s, s <> x -> occ s (SAssign x e :: l) i = occ s l (S i)).
  { intros s Hne. cbn [occ]. destruct (Pos.eqb x s) eqn:E; [|reflexivity]. apply Pos.eqb_eq in E. congruence. }
  assert (Hoccx : occ x (SAssign x e :: l) i = i :: occ x l (S i)) by (cbn [occ]; rewrite Pos.eqb_refl; reflexivity).
  assert (Hseen : forall s, s <> x -> memp s (x :: seen) = memp s seen).
  { intros s Hne. cbn [memp existsb]. apply Pos.eqb_neq in Hne. rewrite Hne. reflexivity. }
  unfold classify in Ec. destruct (alookup dups x) as [idx|] eqn:El.
  + destruct (memp x seen) eqn:Esx.
    * (* a later occurrence *)
      destruct (proj1 (HJ x) Esx) as [[Hc _]|[Hd Hcur]]; [congruence|].
      rewrite Hoccx in Hd. rewrite El in Hd. injection Hd as ->.
      cbn [memn existsb] in Ec. rewrite Nat.eqb_refl in Ec. cbn [orb tl] in Ec.
      assert (Hd' : alookup (areplace x (occ x l (S i)) dups) x = Some (occ x l (S i)))
        by (apply alookup_areplace_eq; congruence).
      destruct (occ x l (S i)) as [|j o] eqn:Eo; injection Ec as <- <-; injection Hstep as <- <- _.
      -- intros s. destruct (Pos.eq_dec s x) as [->|Hne].
         ++ split; [|cbn [memp existsb]; rewrite Pos.eqb_refl; discriminate]. intros _. right. rewrite Eo. split; [exact Hd'|].
            rewrite alookup_aremove, Pos.eqb_refl. split; congruence.
         ++ rewrite (Hseen s Hne), <- (Hocc s Hne), alookup_aremove, alookup_areplace_neq by exact Hne.
            apply Pos.eqb_neq in Hne. rewrite Hne. apply HJ.
      -- intros s. destruct (Pos.eq_dec s x) as [->|Hne].
         ++ split; [|cbn [memp existsb]; rewrite Pos.eqb_refl; discriminate]. intros _. right. rewrite Eo. split; [exact Hd'|].
            rewrite alookup_aset, Pos.eqb_refl. split; congruence.
         ++ rewrite (Hseen s Hne), <- (Hocc s Hne), alookup_aset, alookup_areplace_neq by exact Hne.
            apply Pos.eqb_neq in Hne. rewrite Hne. apply HJ.
    * (* the first occurrence of a duplicated symbol *)
      destruct (proj2 (HJ x) Esx) as [Hc Hd]. rewrite Hoccx, El in Hd. cbn [tail_entry] in Hd.
      destruct (occ x l (S i)) as [|j o] eqn:Eo; [discriminate|]. injection Hd as ->.
      rewrite memn_false_ge in Ec.
      2:{ intros k Hk. rewrite <- Eo in Hk. apply occ_ge in Hk. exact Hk. }
      injection Ec as <- <-. injection Hstep as <- <- _.
      intros s. destruct (Pos.eq_dec s x) as [->|Hne].
      -- split; [|cbn [memp existsb]; rewrite Pos.eqb_refl; discriminate]. intros _. right. rewrite Eo. split; [exact El|].
         rewrite alookup_aset, Pos.eqb_refl. split; congruence.
      -- rewrite (Hseen s Hne), <- (Hocc s Hne), alookup_aset.
         apply Pos.eqb_neq in Hne. rewrite Hne. apply HJ.
  + (* not duplicated *)
    injection Ec as <- <-. injection Hstep as <- <- _. intros s. destruct (Pos.eq_dec s x) as [->|Hne].
    * split; [|cbn [memp existsb]; rewrite Pos.eqb_refl; discriminate]. intros _. left. split; [exact El|].
      destruct (memp x seen) eqn:Esx.
      -- destruct (proj1 (HJ x) Esx) as [[_ [_ Hc]]|[Hd _]]; [rewrite Hoccx in Hc; discriminate | congruence].
      -- destruct (proj2 (HJ x) Esx) as [Hc Hd]. split; [exact Hc|].
         rewrite Hoccx, El in Hd. cbn [tail_entry] in Hd. destruct (occ x l (S i)); [reflexivity | discriminate].
    * rewrite (Hseen s Hne), <- (Hocc s Hne). apply HJ.
Qed.

Lemma decl_final_J fx : forall l seen i cur dups, J seen i l cur dups -> decl_final_gen fx l i cur dups = [].
Proof.
  induction l as [|st l IH]; intros seen i cur dups HJ.
  - cbn [decl_final_gen]. destruct cur as [|[k v] cur]; [reflexivity|]. exfalso.
    destruct (HJ k) as [H1 H2]. cbn [occ] in *.
    assert (Hk : alookup ((k, v) :: cur) k = Some v) by (cbn [alookup]; rewrite Pos.eqb_refl; reflexivity).
    destruct (memp k seen) eqn:E.
    + destruct (H1 eq_refl) as [[_ [Hc _]]|[_ Hc]]; [congruence|].
      assert (Hne : alookup ((k, v) :: cur) k <> None) by congruence. exact (proj1 Hc Hne eq_refl).
    + destruct (H2 eq_refl) as [Hc _]. congruence.
  - cbn [decl_final_gen]. destruct (decl_step_gen fx cur dups i st) as [[cur' dups'] out] eqn:Es.
    apply (IH (assigned_by st ++ seen)). eapply J_step; eauto.
Qed.

Lemma J_init l : J [] 0 l [] (dup_table l).
Proof. intros s. split; [discriminate|]. intros _. split; [reflexivity|]. apply dup_table_spec. Qed.

Lemma decl_final_empty fx l : decl_final_gen fx l 0 [] (dup_table l) = [].
Proof. apply (decl_final_J fx l []). apply J_init. Qed.

(* ---------- execution ---------- *)
Section Sem.
  Variable fi : finterp.
  Variable ode : id -> list (option Q) -> option Q.

  Notation sexec := (sexec fi ode).
  Notation sexec1 := (sexec1 fi ode).
  Notation U := (fun r m => upd_map r fi m).

  Lemma sexec_app r l1 l2 : sexec r (l1 ++ l2) = sexec (sexec r l1) l2.
  Proof. revert r. induction l1 as [|st l1 IH]; intros r; [reflexivity|]. cbn [app sexec]. apply IH. Qed.

  Lemma subs_map_eval r m e : eval r fi (subs_map m e) = eval (upd_map r fi m) fi e.
  Proof. apply subs_map_lemma. Qed.

  Lemma eval_ext r r' e : (forall x, In x (free_syms e) -> r x = r' x) -> eval r fi e = eval r' fi e.
  Proof. intros H. apply eval_coincidence. exact H. Qed.

  Lemma map_eval_ext r r' (args : list expr) :
    (forall x, In x (flat_map free_syms args) -> r x = r' x) ->
    map (fun e => eval r fi e) args = map (fun e => eval r' fi e) args.
  Proof.
    intros H. apply map_ext_in. intros e He. apply eval_ext. intros x Hx. apply H.
    apply in_flat_map. eauto.
  Qed.

  (* what one statement does, in terms of its defined symbols *)
  Lemma sexec1_other r st x : ~ In x (sdefs st) -> sexec1 r st x = r x.
  Proof.
    intros H. destruct st as [s e|amts args]; cbn [Model.sexec1 sdefs] in *.
    - unfold upd. destruct (Pos.eqb x s) eqn:E; [|reflexivity].
      apply Pos.eqb_eq in E. subst. exfalso. apply H. left. reflexivity.
    - unfold upd_list. destruct (memp x amts) eqn:E; [|reflexivity].
      apply memp_In in E. contradiction.
  Qed.

  Lemma sexec_other l : forall r x, ~ In x (all_sdefs l) -> sexec r l x = r x.
  Proof.
    induction l as [|st l IH]; intros r x H; [reflexivity|]. cbn [Model.sexec].
    unfold all_sdefs in H. cbn [flat_map] in H. rewrite in_app_iff in H.
    rewrite IH by tauto. apply sexec1_other. tauto.
  Qed.

  (* two runs of one statement from environments that agree on what it reads *)
  Lemma sexec1_defs r r' st x :
    (forall y, In y (srhs st) -> r y = r' y) -> In x (sdefs st) -> sexec1 r st x = sexec1 r' st x.
  Proof.
    intros Hag Hx. destruct st as [s e|amts args]; cbn [Model.sexec1 sdefs srhs] in *.
    - destruct Hx as [<-|[]]. unfold upd. rewrite Pos.eqb_refl. apply eval_ext. exact Hag.
    - unfold upd_list. apply memp_In in Hx. rewrite Hx. f_equal. apply map_eval_ext. exact Hag.
  Qed.

  (* pointwise equal environments stay pointwise equal *)
  Lemma sexec1_ext r r' st : (forall x, r x = r' x) -> forall x, sexec1 r st x = sexec1 r' st x.
  Proof.
    intros H x. destruct (in_dec Pos.eq_dec x (sdefs st)) as [Hin|Hn].
    - apply sexec1_defs; auto.
    - rewrite !sexec1_other by exact Hn. apply H.
  Qed.

  Lemma sexec_ext l : forall r r', (forall x, r x = r' x) -> forall x, sexec r l x = sexec r' l x.
  Proof.
    induction l as [|st l IH]; intros r r' H; [exact H|]. cbn [Model.sexec]. apply IH.
    apply sexec1_ext. exact H.
  Qed.

  (* the embedding of Base.Stmts programs *)
  Lemma sexec_of_stmt l : forall r, sexec r (map of_stmt l) = exec fi ode r l.
  Proof.
    induction l as [|st l IH]; intros r; [reflexivity|]. cbn [map Model.sexec exec]. rewrite <- IH. f_equal.
    destruct st as [s e|a rh]; cbn [of_stmt Model.sexec1 exec1]; [reflexivity|].
    rewrite map_map. reflexivity.
  Qed.

  (* ================= make_declarative ================= *)
  (* the old run's value of x is what the new run would compute for x by substituting `current` *)
  Definition Inv (cur : list (id * expr)) (P : list id) (ro rn : env) : Prop :=
    forall x, ~ In x P -> ro x = upd_map rn fi cur x.

  Lemma use_ok_spec P syms : use_ok P syms = true <-> forall x, In x syms -> ~ In x P.
  Proof. unfold use_ok. rewrite negb_true_iff. apply interp_empty. Qed.

  Lemma inv_use cur P ro rn e :
    Inv cur P ro rn -> use_ok P (free_syms e) = true -> eval rn fi (subs_map cur e) = eval ro fi e.
  Proof.
    intros HI Hu. rewrite subs_map_eval. apply eval_ext. intros x Hx. symmetry. apply HI.
    rewrite use_ok_spec in Hu. auto.
  Qed.

  Lemma inv_use_args cur P ro rn args :
    Inv cur P ro rn -> use_ok P (flat_map free_syms args) = true ->
    map (fun e => eval rn fi e) (map (subs_map cur) args) = map (fun e => eval ro fi e) args.
  Proof.
    intros HI Hu. rewrite map_map. apply map_ext_in. intros e He. apply (inv_use cur P); [exact HI|].
    rewrite use_ok_spec in *. intros x Hx. apply Hu. apply in_flat_map. eauto.
  Qed.

  Lemma In_poison_after cur xs P x :
    In x (poison_after cur xs P) <-> In x P \/ exists t, In (x, t) cur /\ mentions t xs = true.
  Proof.
    unfold poison_after. rewrite in_app_iff, in_map_iff. split.
    - intros [H|[[k t] [<- H]]]; [auto|]. apply filter_In in H. cbn [fst snd] in *. right. exists t. exact H.
    - intros [H|[t [H1 H2]]]; [auto|]. right. exists (x, t). split; [reflexivity|]. apply filter_In. auto.
  Qed.

  (* emitting a statement that defines the symbols D with the same values in both runs *)
  Lemma inv_emit cur cur' P P0 D ro rn ro' rn' :
    Inv cur P ro rn ->
    (forall x, In x D -> ro' x = rn' x) ->
    (forall x, ~ In x D -> ro' x = ro x /\ rn' x = rn x) ->
    (forall x, In x D -> alookup cur' x = None) ->
    (forall x, ~ In x D -> alookup cur' x = alookup cur x) ->
    (forall x, ~ In x D -> ~ In x P0 -> ~ In x P) ->
    Inv cur' (poison_after cur' D P0) ro' rn'.
  Proof.
    intros HI Hd Hnd Hk Hnk HP x Hx. rewrite In_poison_after in Hx.
    unfold upd_map. destruct (in_dec Pos.eq_dec x D) as [Hin|Hn].
    - rewrite (Hk x Hin). apply Hd. exact Hin.
    - destruct (Hnd x Hn) as [-> E2]. rewrite HI by (apply HP; tauto).
      unfold upd_map. rewrite (Hnk x Hn). destruct (alookup cur x) as [t|] eqn:El; [|symmetry; exact E2].
      apply eval_ext. intros y Hy. destruct (in_dec Pos.eq_dec y D) as [HyD|HyD]; [|symmetry; apply Hnd; exact HyD].
      exfalso. apply Hx. right. exists t. split.
      + apply alookup_In. rewrite Hnk by exact Hn. exact El.
      + apply interp_nonempty_spec. eauto.
  Qed.

  (* storing an expression for s without emitting anything *)
  Lemma inv_store cur P ro rn s v t :
    Inv cur P ro rn -> eval rn fi t = v ->
    Inv (aset s t cur) (removep s P) (upd ro s v) rn.
  Proof.
    intros HI Hv x Hx. rewrite In_removep in Hx. unfold upd_map, upd. rewrite alookup_aset.
    destruct (Pos.eqb x s) eqn:E; [symmetry; exact Hv|].
    apply Pos.eqb_neq in E. rewrite HI by tauto. reflexivity.
  Qed.

  Lemma alookup_areplace s v d k :
    alookup (areplace s v d) k = None <-> alookup d k = None.
  Proof.
    induction d as [|[k' w] d IH]; cbn [areplace alookup]; [tauto|].
    destruct (Pos.eqb k' s) eqn:E; cbn [alookup]; destruct (Pos.eqb k' k); try tauto; split; discriminate.
  Qed.

  Lemma classify_table dups i s kd d' :
    classify dups i s = (kd, d') ->
    (forall k, alookup d' k = None <-> alookup dups k = None) /\
    (kd = KPlain <-> alookup dups s = None).
  Proof.
    unfold classify. destruct (alookup dups s) as [idx|] eqn:E.
    - destruct (memn i idx).
      + intros H. injection H as <- <-. split; [intros k; apply alookup_areplace|].
        destruct (tl idx); split; discriminate.
      + intros H. injection H as <- <-. split; [tauto | split; discriminate].
    - intros H. injection H as <- <-. split; tauto.
  Qed.

  Lemma declarative_lemma fx : forall l i cur dups P ro rn,
    decl_guard_gen fx l i cur dups P = true ->
    Inv cur P ro rn ->
    (forall k, alookup dups k = None -> alookup cur k = None) ->
    (forall k, In k P -> alookup cur k <> None) ->
    forall x, alookup (decl_final_gen fx l i cur dups) x = None ->
      sexec rn (decl_walk_gen fx l i cur dups) x = sexec ro l x.
  Proof.
    induction l as [|st l IH]; intros i cur dups P ro rn Hg HI HT HP x Hx.
    - cbn [decl_walk_gen decl_final_gen Model.sexec] in *. symmetry. rewrite HI.
      + unfold upd_map. rewrite Hx. reflexivity.
      + intro Hin. apply (HP x Hin). exact Hx.
    - cbn [decl_guard_gen decl_walk_gen decl_final_gen Model.sexec] in *.
      destruct st as [s e|amts args].
      + cbn [decl_step_gen] in *. destruct (classify dups i s) as [kd d'] eqn:Ec.
        destruct (classify_table _ _ _ _ _ Ec) as [Ht Hk]. cbn [fst] in Hg.
        assert (HT' : forall cur' : list (id * expr), (forall k, k <> s -> alookup cur' k = None <-> alookup cur k = None) ->
                                   (kd = KPlain -> alookup cur' s = None) ->
                                   forall k, alookup d' k = None -> alookup cur' k = None).
        { intros cur' H1 H2 k Hkk. destruct (Pos.eq_dec k s) as [->|Hne].
          - apply H2. apply Hk. apply Ht. exact Hkk.
          - apply H1; [exact Hne|]. apply HT. apply Ht. exact Hkk. }
        assert (HPpa : forall (cur' : list (id * expr)) P0,
                   (forall k, In k P0 -> alookup cur' k <> None) ->
                   forall k, In k (poison_after cur' [s] P0) -> alookup cur' k <> None).
        { intros cur' P0 H0 k Hin. apply In_poison_after in Hin. destruct Hin as [Hin|[t [Hin _]]]; [auto|].
          intro Hn. apply alookup_None_keys in Hn. apply Hn. apply in_map_iff. exists (k, t). auto. }
        destruct kd.
        * (* KPlain *)
          apply andb_true_iff in Hg. destruct Hg as [Hu Hg].
          assert (Hs : alookup cur s = None) by (apply HT, Hk; reflexivity).
          cbn [Model.sexec]. eapply IH; [exact Hg| |apply HT'; [tauto | intros _; exact Hs]|apply HPpa; exact HP|exact Hx].
          cbn [Model.sexec1]. rewrite (inv_use cur P ro rn e HI Hu).
          eapply (inv_emit cur cur P P [s]); [exact HI|..].
          -- intros y [<-|[]]. unfold upd. rewrite Pos.eqb_refl. reflexivity.
          -- intros y Hy. unfold upd. assert (E : Pos.eqb y s = false) by (apply Pos.eqb_neq; intro; subst; apply Hy; left; reflexivity).
             rewrite E. auto.
          -- intros y [<-|[]]. exact Hs.
          -- reflexivity.
          -- auto.
        * (* KFirst *)
          apply andb_true_iff in Hg. destruct Hg as [Hk2 Hg2].
          eapply IH; [exact Hg2| | | |exact Hx].
          -- cbn [Model.sexec1]. apply inv_store; [exact HI|]. destruct fx.
             ++ apply (inv_use cur P); assumption.
             ++ apply negb_true_iff in Hk2. rewrite interp_empty in Hk2.
                apply eval_ext. intros y Hy. specialize (Hk2 y Hy). apply alookup_None_keys in Hk2.
                rewrite HI by (intro Hin; apply (HP y Hin); exact Hk2).
                unfold upd_map. rewrite Hk2. reflexivity.
          -- apply HT'; [|intros Hc; discriminate].
             intros k Hne. rewrite alookup_aset. apply Pos.eqb_neq in Hne. rewrite Hne. tauto.
          -- intros k Hin. apply In_removep in Hin. destruct Hin as [Hin Hne]. rewrite alookup_aset.
             apply Pos.eqb_neq in Hne. rewrite Hne. apply HP. exact Hin.
        * (* KMiddle *)
          apply andb_true_iff in Hg. destruct Hg as [Hu Hg2].
          eapply IH; [exact Hg2| | | |exact Hx].
          -- cbn [Model.sexec1]. apply inv_store; [exact HI|]. apply (inv_use cur P); assumption.
          -- apply HT'; [|intros Hc; discriminate].
             intros k Hne. rewrite alookup_aset. apply Pos.eqb_neq in Hne. rewrite Hne. tauto.
          -- intros k Hin. apply In_removep in Hin. destruct Hin as [Hin Hne]. rewrite alookup_aset.
             apply Pos.eqb_neq in Hne. rewrite Hne. apply HP. exact Hin.
        * (* KLast *)
          apply andb_true_iff in Hg. destruct Hg as [Hu Hg2].
          cbn [Model.sexec]. eapply IH; [exact Hg2| | | |exact Hx].
          -- cbn [Model.sexec1]. rewrite (inv_use cur P ro rn e HI Hu).
             eapply (inv_emit cur (aremove s cur) P (removep s P) [s]); [exact HI|..].
             ++ intros y [<-|[]]. unfold upd. rewrite Pos.eqb_refl. reflexivity.
             ++ intros y Hy. unfold upd. assert (E : Pos.eqb y s = false) by (apply Pos.eqb_neq; intro; subst; apply Hy; left; reflexivity).
                rewrite E. auto.
             ++ intros y [<-|[]]. rewrite alookup_aremove, Pos.eqb_refl. reflexivity.
             ++ intros y Hy. rewrite alookup_aremove.
                assert (E : Pos.eqb y s = false) by (apply Pos.eqb_neq; intro; subst; apply Hy; left; reflexivity).
                rewrite E. reflexivity.
             ++ intros y Hy Hr Hp. apply Hr. apply In_removep. split; [exact Hp|]. intro; subst. apply Hy. left. reflexivity.
          -- intros k Hkk. rewrite alookup_aremove. destruct (Pos.eqb k s); [reflexivity|]. apply HT, Ht, Hkk.
          -- apply HPpa. intros k Hin. apply In_removep in Hin. destruct Hin as [Hin Hne]. rewrite alookup_aremove.
             apply Pos.eqb_neq in Hne. rewrite Hne. apply HP. exact Hin.
      + (* compartmental system *)
        cbn [decl_step_gen] in *.
        apply andb_true_iff in Hg. destruct Hg as [Hg Hg2]. apply andb_true_iff in Hg. destruct Hg as [Hu Hk].
        apply negb_true_iff in Hk. rewrite interp_empty in Hk.
        cbn [Model.sexec]. eapply IH; [exact Hg2| |exact HT| |exact Hx].
        * cbn [Model.sexec1]. rewrite (inv_use_args cur P ro rn args HI Hu).
          eapply (inv_emit cur cur P P amts); [exact HI|..].
          -- intros y Hy. unfold upd_list. apply memp_In in Hy. rewrite Hy. reflexivity.
          -- intros y Hy. unfold upd_list. apply not_memp in Hy. rewrite Hy. auto.
          -- intros y Hy. apply alookup_None_keys. apply Hk. exact Hy.
          -- reflexivity.
          -- auto.
        * intros k Hin. apply In_poison_after in Hin. destruct Hin as [Hin|[t [Hin _]]]; [apply HP; exact Hin|].
          intro Hn. apply alookup_None_keys in Hn. apply Hn. apply in_map_iff. exists (k, t). auto.
  Qed.

  Lemma declarative_gen_preserves fx l :
    decl_guard_gen fx l 0 [] (dup_table l) [] = true ->
    forall r x, sexec r (declarative_gen fx l) x = sexec r l x.
  Proof.
    intros Hg r x. unfold declarative_gen. eapply declarative_lemma; [exact Hg| |reflexivity| |].
    - intros y _. reflexivity.
    - intros k [].
    - rewrite decl_final_empty. reflexivity.
  Qed.

  Lemma declarative_preserves_lemma l :
    g_no_stale_capture l = true -> forall r x, sexec r (declarative l) x = sexec r l x.
  Proof. apply declarative_gen_preserves. Qed.

  Lemma declarative_before_fix_preserves_lemma l :
    g_no_stale_capture_before_fix l = true -> forall r x, sexec r (declarative_before_fix l) x = sexec r l x.
  Proof. apply declarative_gen_preserves. Qed.

  (* ================= pending substitutions: the inlining loop and constant substitution ========== *)
  Definition InvS (cur : list (id * expr)) (ro rn : env) : Prop := forall x, ro x = upd_map rn fi cur x.

  Lemma In_targets cur x : In x (targets cur) <-> exists k t, In (k, t) cur /\ In x (free_syms t).
  Proof.
    unfold targets. rewrite in_flat_map. split.
    - intros [[k t] [H1 H2]]. eauto.
    - intros [k [t [H1 H2]]]. exists (k, t). auto.
  Qed.

  Lemma ren_of_nokey m s : alookup m s = None -> ren_of m s = s.
  Proof. unfold ren_of. intros ->. reflexivity. Qed.

  (* a statement whose defined symbols are neither pending keys nor mentioned by pending values *)
  Lemma invS_emit cur ro rn st :
    InvS cur ro rn ->
    interp_nonempty (sdefs st) (akeys cur ++ targets cur) = false ->
    InvS cur (sexec1 ro st) (sexec1 rn (subs_stm cur st)).
  Proof.
    intros HI Hd. rewrite interp_empty in Hd.
    assert (Hkey : forall x, In x (sdefs st) -> alookup cur x = None).
    { intros x Hx. apply alookup_None_keys. intro Hk. apply (Hd x Hx). apply in_or_app. auto. }
    assert (Htg : forall k t y, alookup cur k = Some t -> In y (free_syms t) -> ~ In y (sdefs st)).
    { intros k t y Hl Hy Hin. apply (Hd y Hin). apply in_or_app. right. apply In_targets.
      exists k, t. split; [apply alookup_In; exact Hl | exact Hy]. }
    assert (Hrhs : forall e, eval rn fi (subs_map cur e) = eval ro fi e).
    { intros e. rewrite subs_map_eval. apply eval_ext. intros y _. symmetry. apply HI. }
    intros x. unfold upd_map.
    destruct (in_dec Pos.eq_dec x (sdefs st)) as [Hin|Hn].
    - rewrite (Hkey x Hin).
      destruct st as [s e|amts args]; cbn [subs_stm Model.sexec1 sdefs] in *.
      + destruct Hin as [<-|[]]. rewrite (ren_of_nokey cur s) by (apply Hkey; left; reflexivity).
        unfold upd. rewrite Pos.eqb_refl. symmetry. apply Hrhs.
      + unfold upd_list. apply memp_In in Hin. rewrite Hin. f_equal. rewrite map_map.
        apply map_ext. intros e. symmetry. apply Hrhs.
    - rewrite sexec1_other by exact Hn. rewrite HI. unfold upd_map.
      assert (Hn' : ~ In x (sdefs (subs_stm cur st))).
      { destruct st as [s e|amts args]; cbn [subs_stm sdefs] in *; [|exact Hn].
        rewrite (ren_of_nokey cur s) by (apply Hkey; left; reflexivity). exact Hn. }
      destruct (alookup cur x) as [t|] eqn:El.
      + apply eval_ext. intros y Hy. symmetry. apply sexec1_other.
        assert (Hy' : ~ In y (sdefs st)) by (eapply Htg; eauto).
        destruct st as [s e|amts args]; cbn [subs_stm sdefs] in *; [|exact Hy'].
        rewrite (ren_of_nokey cur s) by (apply Hkey; left; reflexivity). exact Hy'.
      + symmetry. apply sexec1_other. exact Hn'.
  Qed.

  Lemma alias_of_spec dvs st s y : alias_of dvs st = Some (s, y) -> st = SAssign s (Sym y) /\ ~ In s dvs.
  Proof.
    destruct st as [s' e|a b]; [|discriminate]. destruct e; try discriminate.
    cbn. destruct (memp s' dvs) eqn:E; [discriminate|]. intros H. injection H as <- <-.
    split; [reflexivity | apply not_memp; exact E].
  Qed.

  Lemma inline_lemma dvs : forall l cur ro rn,
    inline_guard dvs l cur = true -> InvS cur ro rn ->
    forall x, ~ In x (akeys (inline_final dvs l cur)) -> sexec rn (inline_walk dvs l cur) x = sexec ro l x.
  Proof.
    induction l as [|st l IH]; intros cur ro rn Hg HI x Hx.
    - cbn [inline_walk inline_final Model.sexec] in *. rewrite HI. unfold upd_map.
      apply alookup_None_keys in Hx. rewrite Hx. reflexivity.
    - cbn [inline_guard inline_walk inline_final Model.sexec] in *.
      destruct (alias_of dvs st) as [[s y]|] eqn:Ea.
      + apply alias_of_spec in Ea. destruct Ea as [-> _].
        apply (IH (aset s (subs_map cur (Sym y)) cur)); [exact Hg| |exact Hx].
        intros z. cbn [Model.sexec1 eval]. unfold upd_map, upd. rewrite alookup_aset.
        destruct (Pos.eqb z s); [|apply HI].
        rewrite subs_map_eval. cbn [eval]. apply HI.
      + apply andb_true_iff in Hg. destruct Hg as [Hd Hg]. apply negb_true_iff in Hd.
        cbn [Model.sexec]. apply (IH cur); [exact Hg| |exact Hx]. apply invS_emit; assumption.
  Qed.

  Lemma inline_preserves_lemma dvs l :
    g_inline_ok dvs l = true -> forall r x, ~ In x (inlined dvs l) -> sexec r (inline dvs l) x = sexec r l x.
  Proof.
    intros Hg r x Hx. unfold inline. apply inline_lemma; [exact Hg| |exact Hx]. intros y. reflexivity.
  Qed.

  (* the value of an inlined alias is still available: it is the value of what it points to *)
  Lemma inline_alias_lemma dvs : forall l cur ro rn,
    inline_guard dvs l cur = true -> InvS cur ro rn ->
    forall x, sexec ro l x = upd_map (sexec rn (inline_walk dvs l cur)) fi (inline_final dvs l cur) x.
  Proof.
    induction l as [|st l IH]; intros cur ro rn Hg HI x.
    - cbn [inline_walk inline_final Model.sexec]. apply HI.
    - cbn [inline_guard inline_walk inline_final Model.sexec] in *.
      destruct (alias_of dvs st) as [[s y]|] eqn:Ea.
      + apply alias_of_spec in Ea. destruct Ea as [-> _].
        apply (IH (aset s (subs_map cur (Sym y)) cur)); [exact Hg|].
        intros z. cbn [Model.sexec1 eval]. unfold upd_map, upd. rewrite alookup_aset.
        destruct (Pos.eqb z s); [|apply HI].
        rewrite subs_map_eval. cbn [eval]. apply HI.
      + apply andb_true_iff in Hg. destruct Hg as [Hd Hg]. apply negb_true_iff in Hd.
        cbn [Model.sexec]. apply (IH cur); [exact Hg|]. apply invS_emit; assumption.
  Qed.

  (* constant substitution: statements.subs(d) with closed values and keys that are never assigned *)
  Lemma targets_closed m :
    forallb (fun kv : id * expr => match free_syms (snd kv) with [] => true | _ => false end) m = true ->
    targets m = [].
  Proof.
    induction m as [|[k t] m IH]; cbn [forallb targets flat_map snd]; [reflexivity|].
    intros H. apply andb_true_iff in H. destruct H as [H1 H2]. destruct (free_syms t); [|discriminate].
    cbn [app]. apply IH. exact H2.
  Qed.

  Lemma consts_lemma m : forall l ro rn,
    g_consts_ok m l = true -> InvS m ro rn ->
    forall x, sexec ro l x = upd_map (sexec rn (map (subs_stm m) l)) fi m x.
  Proof.
    induction l as [|st l IH]; intros ro rn Hg HI x; [apply HI|].
    cbn [map Model.sexec]. unfold g_consts_ok in Hg. apply andb_true_iff in Hg. destruct Hg as [Hk Hc].
    apply negb_true_iff in Hk. rewrite interp_empty in Hk.
    apply IH.
    - unfold g_consts_ok. rewrite Hc, andb_true_r. apply negb_true_iff, interp_empty.
      intros y Hy Hd. apply (Hk y Hy). unfold all_sdefs. cbn [flat_map]. apply in_or_app. right. exact Hd.
    - apply invS_emit; [exact HI|]. rewrite (targets_closed m Hc), app_nil_r. apply interp_empty.
      intros y Hy Hkk. apply (Hk y Hkk). unfold all_sdefs. cbn [flat_map]. apply in_or_app. left. exact Hy.
  Qed.
End Sem.

(* ================= rename_symbols ================= *)
Section Rename.
  Variable fi : finterp.
  Variable ode : id -> list (option Q) -> option Q.
  Variable d : list (id * id).

  Lemma alookup_ren_map x : alookup (ren_map d) x = option_map Sym (alookup d x).
  Proof.
    unfold ren_map. induction d as [|[k v] m IH]; cbn [map alookup fst snd]; [reflexivity|].
    destruct (Pos.eqb k x); [reflexivity | exact IH].
  Qed.

  Lemma upd_map_ren r x : upd_map r fi (ren_map d) x = r (ren d x).
  Proof. unfold upd_map, ren. rewrite alookup_ren_map. destruct (alookup d x); reflexivity. Qed.

  Lemma ren_of_ren_map s : ren_of (ren_map d) s = ren d s.
  Proof. unfold ren_of, ren. rewrite alookup_ren_map. destruct (alookup d s); reflexivity. Qed.

  Lemma ren_nokey x : ~ In x (akeys d) -> ren d x = x.
  Proof. intros H. apply alookup_None_keys in H. unfold ren. rewrite H. reflexivity. Qed.

  Definition amounts_unrenamed (l : list stm) : bool :=
    forallb (fun st => match st with
                       | SOde amts _ => negb (interp_nonempty amts (akeys d))
                       | _ => true end) l.

  Lemma rename_lemma (S : list id) :
    (forall x y, In x S -> In y S -> ren d x = ren d y -> x = y) ->
    forall l r r',
      (forall x, In x (all_ssyms l) -> In x S) ->
      amounts_unrenamed l = true ->
      (forall x, In x S -> r' (ren d x) = r x) ->
      forall x, In x S -> sexec fi ode r' (rename d l) (ren d x) = sexec fi ode r l x.
  Proof.
    intros Hinj. induction l as [|st l IH]; intros r r' Hsub Ham Hr x Hx; [apply Hr; exact Hx|].
    cbn [rename map Model.sexec]. unfold amounts_unrenamed in Ham. cbn [forallb] in Ham.
    apply andb_true_iff in Ham. destruct Ham as [Ha Ham].
    assert (Hsub' : forall y, In y (all_ssyms l) -> In y S).
    { intros y Hy. apply Hsub. unfold all_ssyms. cbn [flat_map]. apply in_or_app. right. exact Hy. }
    assert (Hst : forall y, In y (ssyms st) -> In y S).
    { intros y Hy. apply Hsub. unfold all_ssyms. cbn [flat_map]. apply in_or_app. left. exact Hy. }
    assert (Hev : forall e, (forall y, In y (free_syms e) -> In y S) ->
                            eval r' fi (subs_map (ren_map d) e) = eval r fi e).
    { intros e He. rewrite subs_map_eval. apply eval_ext. intros y Hy. rewrite upd_map_ren. apply Hr, He, Hy. }
    apply (IH _ _ Hsub' Ham); [|exact Hx]. clear x Hx. intros x Hx.
    destruct st as [s e|amts args]; cbn [subs_stm Model.sexec1].
    - rewrite ren_of_ren_map. unfold upd.
      assert (Hs : In s S) by (apply Hst; left; reflexivity).
      rewrite Hev by (intros y Hy; apply Hst; cbn [ssyms sdefs srhs]; right; exact Hy).
      destruct (Pos.eqb x s) eqn:E.
      + apply Pos.eqb_eq in E. subst. rewrite Pos.eqb_refl. reflexivity.
      + assert (E' : Pos.eqb (ren d x) (ren d s) = false).
        { apply Pos.eqb_neq. intro Heq. apply Hinj in Heq; [|exact Hx|exact Hs]. subst.
          rewrite Pos.eqb_refl in E. discriminate. }
        rewrite E'. apply Hr. exact Hx.
    - unfold upd_list. apply negb_true_iff in Ha. rewrite interp_empty in Ha.
      assert (Hamt : forall a, In a amts -> ren d a = a) by (intros a Hin; apply ren_nokey; apply Ha; exact Hin).
      assert (Hargs : map (fun e => eval r' fi e) (map (subs_map (ren_map d)) args) = map (fun e => eval r fi e) args).
      { rewrite map_map. apply map_ext_in. intros e He. apply Hev. intros y Hy. apply Hst.
        cbn [ssyms sdefs srhs]. apply in_or_app. right. apply in_flat_map. eauto. }
      destruct (memp x amts) eqn:E.
      + apply memp_In in E. rewrite (Hamt x E). apply memp_In in E. rewrite E, Hargs. reflexivity.
      + assert (E' : memp (ren d x) amts = false).
        { apply not_memp. intro Hin. apply not_memp in E. apply E.
          assert (HaS : In (ren d x) S) by (apply Hst; cbn [ssyms sdefs]; apply in_or_app; left; exact Hin).
          assert (Heq : ren d (ren d x) = ren d x) by (apply Hamt; exact Hin).
          apply Hinj in Heq; [|exact HaS|exact Hx]. rewrite <- Heq. exact Hin. }
        rewrite E'. apply Hr. exact Hx.
  Qed.

  Lemma nodup_p_map_inj (f : id -> id) : forall N,
    nodup_p (map f N) = true -> forall x y, In x N -> In y N -> f x = f y -> x = y.
  Proof.
    induction N as [|a N IH]; cbn [map nodup_p]; intros H x y Hx Hy Heq; [destruct Hx|].
    apply andb_true_iff in H. destruct H as [Hn H]. apply negb_true_iff, not_memp in Hn.
    destruct Hx as [<-|Hx], Hy as [<-|Hy]; auto.
    - exfalso. apply Hn. rewrite Heq. apply in_map. exact Hy.
    - exfalso. apply Hn. rewrite <- Heq. apply in_map. exact Hx.
  Qed.

  Lemma rename_preserves_lemma extra l :
    g_rename_ok d extra l = true ->
    forall r r', (forall x, In x (all_ssyms l ++ extra) -> r' (ren d x) = r x) ->
    forall x, In x (all_ssyms l ++ extra) ->
      sexec fi ode r' (rename d l) (ren d x) = sexec fi ode r l x.
  Proof.
    unfold g_rename_ok. intros Hg r r' Hr x Hx. apply andb_true_iff in Hg. destruct Hg as [Hn Ha].
    apply (rename_lemma (all_ssyms l ++ extra)); auto.
    - intros a b Ha' Hb'. apply (nodup_p_map_inj (ren d) _ Hn); apply In_normp; assumption.
    - intros y Hy. apply in_or_app. left. exact Hy.
  Qed.
End Rename.

(* ================= replace_fixed_thetas / replace_non_random_rvs / cleanup_model ================= *)
Section Cleanup.
  Variable fi : finterp.
  Variable ode : id -> list (option Q) -> option Q.

  Lemma fixed_assigns_id : forall fx r,
    (forall th q, In (th, q) fx -> r th = Some q) ->
    forall x, sexec fi ode r (fixed_assigns fx) x = r x.
  Proof.
    induction fx as [|[th q] fx IH]; intros r H x; [reflexivity|].
    cbn [fixed_assigns map Model.sexec fst snd]. fold (fixed_assigns fx).
    assert (Hpt : forall y, sexec1 fi ode r (SAssign th (Num q)) y = r y).
    { intros y. cbn [Model.sexec1 eval]. unfold upd. destruct (Pos.eqb y th) eqn:E; [|reflexivity].
      apply Pos.eqb_eq in E. subst. symmetry. apply H. left. reflexivity. }
    rewrite IH.
    - apply Hpt.
    - intros th' q' Hin. rewrite Hpt. apply H. right. exact Hin.
  Qed.

  Lemma replace_fixed_lemma fx l r :
    (forall th q, In (th, q) fx -> r th = Some q) ->
    forall x, sexec fi ode r (replace_fixed fx l) x = sexec fi ode r l x.
  Proof.
    intros H x. unfold replace_fixed. rewrite sexec_app. apply sexec_ext. apply fixed_assigns_id. exact H.
  Qed.

  Lemma sdefs_subs_stm m st : (forall x, In x (sdefs st) -> alookup m x = None) -> sdefs (subs_stm m st) = sdefs st.
  Proof.
    destruct st as [s e|a b]; cbn [subs_stm sdefs]; [|reflexivity]. intros H.
    rewrite ren_of_nokey; [reflexivity | apply H; left; reflexivity].
  Qed.

  Lemma all_sdefs_subs m l :
    interp_nonempty (akeys m) (all_sdefs l) = false -> all_sdefs (map (subs_stm m) l) = all_sdefs l.
  Proof.
    rewrite interp_empty. induction l as [|st l IH]; intros H; [reflexivity|].
    unfold all_sdefs in *. cbn [map flat_map] in *. rewrite IH.
    - rewrite sdefs_subs_stm; [reflexivity|]. intros x Hx. apply alookup_None_keys. intro Hk.
      apply (H x Hk). apply in_or_app. left. exact Hx.
    - intros x Hk Hd. apply (H x Hk). apply in_or_app. right. exact Hd.
  Qed.

  (* substituting constants for symbols that already have these values changes nothing *)
  Lemma consts_preserves_lemma m l r :
    g_consts_ok m l = true ->
    (forall k t, In (k, t) m -> eval r fi t = r k) ->
    forall x, sexec fi ode r (map (subs_stm m) l) x = sexec fi ode r l x.
  Proof.
    intros Hg Hr x.
    assert (HI : InvS fi m r r).
    { intros y. unfold upd_map. destruct (alookup m y) as [t|] eqn:E; [|reflexivity].
      symmetry. apply Hr. apply alookup_In. exact E. }
    pose proof (consts_lemma fi ode m l r r Hg HI x) as H. rewrite H. unfold upd_map.
    destruct (alookup m x) as [t|] eqn:E; [|reflexivity].
    unfold g_consts_ok in Hg. apply andb_true_iff in Hg. destruct Hg as [Hk Hc]. apply negb_true_iff in Hk.
    assert (Hx : ~ In x (all_sdefs l)).
    { rewrite interp_empty in Hk. apply Hk. apply alookup_In in E. apply in_map_iff. exists (x, t). auto. }
    rewrite sexec_other by (rewrite all_sdefs_subs; assumption).
    rewrite <- (Hr x t (alookup_In _ _ _ E)).
    apply eval_ext. intros y Hy. exfalso.
    assert (Ht : targets m = []) by (apply targets_closed; exact Hc).
    assert (In y (targets m)) by (apply In_targets; exists x, t; split; [apply alookup_In; exact E | exact Hy]).
    rewrite Ht in H0. destruct H0.
  Qed.

  Lemma zero_map_values fixed dists k t : In (k, t) (zero_map fixed dists) -> t = Num 0.
  Proof.
    unfold zero_map. rewrite in_flat_map. intros [dd [_ H]]. apply in_map_iff in H.
    destruct H as [y [H _]]. injection H as _ <-. reflexivity.
  Qed.

  Definition g_cleanup (dvs : list id) (fixed : list (id * Q)) (dists : list dist) (l : list stm) : bool :=
    g_no_stale_capture l && g_inline_ok dvs (declarative l)
    && g_consts_ok (zero_map fixed dists) (inline dvs (declarative l)).

  Lemma cleanup_preserves_lemma dvs fixed dists l :
    g_cleanup dvs fixed dists l = true ->
    forall r,
      (forall th q, In (th, q) fixed -> r th = Some q) ->
      (forall k, In k (akeys (zero_map fixed dists)) -> r k = Some 0%Q) ->
      forall x, ~ In x (inlined dvs (declarative l)) ->
        sexec fi ode r (cleanup_stmts dvs fixed dists l) x = sexec fi ode r l x.
  Proof.
    unfold g_cleanup. intros Hg r Hfix Hzero x Hx.
    apply andb_true_iff in Hg. destruct Hg as [Hg Hc]. apply andb_true_iff in Hg. destruct Hg as [Hd Hi].
    unfold cleanup_stmts. rewrite replace_fixed_lemma.
    2:{ intros th q Hin. apply filter_In in Hin. apply Hfix. tauto. }
    unfold replace_non_random. rewrite consts_preserves_lemma; [|exact Hc|].
    2:{ intros k t Hin. rewrite (zero_map_values _ _ _ _ Hin). cbn [eval]. symmetry. apply Hzero.
        apply in_map_iff. exists (k, t). auto. }
    rewrite inline_preserves_lemma by assumption.
    apply declarative_preserves_lemma. exact Hd.
  Qed.
End Cleanup.

(* ================= remove_unused_parameters_and_rvs ================= *)
Section Unused.
  Variable fi : finterp.
  Variable ode : id -> list (option Q) -> option Q.

  (* runs from environments that agree on every symbol of the program agree on every symbol of it *)
  Lemma sexec_coincide : forall l (S : list id) r r',
    (forall x, In x (all_ssyms l) -> In x S) ->
    (forall x, In x S -> r x = r' x) ->
    forall x, In x S -> sexec fi ode r l x = sexec fi ode r' l x.
  Proof.
    induction l as [|st l IH]; intros S r r' Hsub Hag x Hx; [apply Hag; exact Hx|].
    cbn [Model.sexec]. apply (IH S); [| |exact Hx].
    - intros y Hy. apply Hsub. unfold all_ssyms. cbn [flat_map]. apply in_or_app. right. exact Hy.
    - intros y Hy. destruct (in_dec Pos.eq_dec y (sdefs st)) as [Hin|Hn].
      + apply sexec1_defs; [|exact Hin]. intros z Hz. apply Hag, Hsub. unfold all_ssyms. cbn [flat_map].
        apply in_or_app. left. unfold ssyms. apply in_or_app. right. exact Hz.
      + rewrite !sexec1_other by exact Hn. apply Hag. exact Hy.
  Qed.

  (* a symbol no statement mentions does not influence any symbol of the program *)
  Lemma unused_irrelevant l p q r :
    ~ In p (all_ssyms l) -> forall x, In x (all_ssyms l) -> sexec fi ode (upd r p q) l x = sexec fi ode r l x.
  Proof.
    intros Hp x Hx. apply (sexec_coincide l (all_ssyms l)); auto.
    intros y Hy. unfold upd. destruct (Pos.eqb y p) eqn:E; [|reflexivity].
    apply Pos.eqb_eq in E. subst. contradiction.
  Qed.
End Unused.

Lemma unused_params_exact symbols dists fixed params p :
  In p (unused_new_params symbols dists fixed params) <->
  In p params /\ (In p symbols \/ In p (flat_map rdist_syms (unused_new_dists symbols dists))
                  \/ is_fixed_zero fixed p = true).
Proof.
  unfold unused_new_params. rewrite filter_In, !orb_true_iff, !memp_In. tauto.
Qed.

Lemma unused_dists_normal_used symbols dists n v :
  In (DNormal n v) (unused_new_dists symbols dists) -> exists x, In x (n :: v) /\ In x symbols.
Proof.
  unfold unused_new_dists. rewrite filter_In. intros [_ H]. apply interp_nonempty_spec in H. exact H.
Qed.

(* ================= get_observation_expression ================= *)
Section ObsExpr.
  Variable fi : finterp.
  Variable ode : id -> list (option Q) -> option Q.

  Definition all_assign (l : list stm) : Prop := forall st, In st l -> exists s e, st = SAssign s e.

  Definition no_assign_of (s : id) (l : list stm) : Prop := forall e, ~ In (SAssign s e) l.

  Lemma split_rev_spec s : forall rl post p e post',
    split_rev s rl post = Some (p, e, post') -> no_assign_of s post ->
    rev rl ++ post = rev p ++ SAssign s e :: post' /\ no_assign_of s post'.
  Proof.
    induction rl as [|st rl IH]; intros post p e post' H Hpost; cbn [split_rev] in H; [discriminate|].
    assert (Hstep : forall st', (forall e', st' <> SAssign s e') -> no_assign_of s (st' :: post)).
    { intros st' Hne e' [Hin|Hin]; [apply (Hne e'); exact Hin | apply (Hpost e'); exact Hin]. }
    destruct st as [x t|a b].
    - destruct (Pos.eqb x s) eqn:E.
      + apply Pos.eqb_eq in E. subst. injection H as <- <- <-. split; [|exact Hpost].
        cbn [rev]. rewrite <- app_assoc. reflexivity.
      + apply IH in H.
        * cbn [rev]. rewrite <- app_assoc. exact H.
        * apply Hstep. intros e' Heq. injection Heq as -> _. rewrite Pos.eqb_refl in E. discriminate.
    - apply IH in H.
      + cbn [rev]. rewrite <- app_assoc. exact H.
      + apply Hstep. intros e' Heq. discriminate.
  Qed.

  Lemma has_sode_all_assign p : has_sode p = false -> all_assign p.
  Proof.
    unfold has_sode. intros H st Hin. destruct st as [s e|a b]; [eauto|].
    exfalso. assert (existsb (fun st => match st with SOde _ _ => true | _ => false end) p = true)
      by (apply existsb_exists; exists (SOde a b); auto). congruence.
  Qed.

  Lemma fold_subs1_eval : forall p e r,
    all_assign p -> eval r fi (fold_left subs1 p e) = eval (sexec fi ode r (rev p)) fi e.
  Proof.
    induction p as [|st p IH]; intros e r Hp; [reflexivity|].
    cbn [fold_left rev]. rewrite sexec_app. cbn [Model.sexec].
    destruct (Hp st (or_introl eq_refl)) as [s [t ->]]. cbn [subs1 Model.sexec1].
    rewrite IH by (intros st Hin; apply Hp; right; exact Hin).
    apply subs_eval.
  Qed.

  Lemma no_assign_defs s post : no_assign_of s post -> ~ In s (amounts post) -> ~ In s (all_sdefs post).
  Proof.
    induction post as [|st post IH]; intros Hn Ha; [intros []|].
    unfold all_sdefs. cbn [flat_map]. unfold amounts in Ha. cbn [flat_map] in Ha. rewrite in_app_iff in *.
    intros [H|H].
    - destruct st as [x e|a b]; cbn [sdefs] in H.
      + destruct H as [<-|[]]. apply (Hn e). left. reflexivity.
      + apply Ha. left. exact H.
    - apply IH; [intros e Hin; apply (Hn e); right; exact Hin | intro; apply Ha; right; assumption | exact H].
  Qed.

  Lemma amounts_app l1 l2 : amounts (l1 ++ l2) = amounts l1 ++ amounts l2.
  Proof. unfold amounts. apply flat_map_app. Qed.

  (* no guard: the extractor expands the LAST assignment of the dependent variable over the statements that
     precede it.  [~ In dv (amounts l)]: the dependent variable is a symbol, not a compartment amount A_x(t). *)
  Lemma obs_expr_sound_lemma l dv y r :
    obs_expr l dv = Some y -> ~ In dv (amounts l) -> eval r fi y = sexec fi ode r l dv.
  Proof.
    unfold obs_expr. destruct (split_rev dv (rev l) []) as [[[p e] post]|] eqn:E; [|discriminate].
    destruct (has_sode p) eqn:Ho; [discriminate|]. intros H Ham. injection H as <-.
    apply split_rev_spec in E; [|intros e' []]. destruct E as [El Hpost].
    rewrite rev_involutive, app_nil_r in El. subst l.
    rewrite sexec_app. cbn [Model.sexec].
    rewrite sexec_other.
    2:{ apply no_assign_defs; [exact Hpost|]. intro Hin. apply Ham. rewrite amounts_app. apply in_or_app. right.
        unfold amounts. cbn [flat_map app]. exact Hin. }
    cbn [Model.sexec1]. unfold upd. rewrite Pos.eqb_refl. apply fold_subs1_eval. apply has_sode_all_assign. exact Ho.
  Qed.

  Lemma ipred_expr_sound_lemma l dv epss y r :
    ipred_expr l dv epss = Some y -> ~ In dv (amounts l) ->
    eval r fi y = sexec fi ode (upd_map r fi (zeros epss)) l dv.
  Proof.
    unfold ipred_expr. destruct (obs_expr l dv) as [y0|] eqn:E; [|discriminate].
    intros H Hg. injection H as <-. rewrite subs_map_eval. apply obs_expr_sound_lemma; assumption.
  Qed.
End ObsExpr.

(* ================= cleanup_model: the parameter set ================= *)
Lemma alookup_Some_keys {A} (m : list (id * A)) x v : alookup m x = Some v -> In x (akeys m).
Proof. intros H. apply alookup_In in H. apply in_map_iff. exists (x, v). auto. Qed.

Lemma removed_params_fixed fixed dists p : In p (removed_params fixed dists) -> In p (akeys fixed).
Proof.
  unfold removed_params, non_random. rewrite in_flat_map. intros [d [Hd Hp]].
  apply filter_In in Hd. destruct Hd as [_ Hall]. rewrite forallb_forall in Hall.
  specialize (Hall p Hp). unfold is_fixed_zero in Hall.
  destruct (alookup fixed p) as [q|] eqn:E; [|discriminate]. eapply alookup_Some_keys. exact E.
Qed.

Lemma fixed_after_keys fixed dists p : In p (akeys (fixed_after fixed dists)) -> In p (akeys fixed).
Proof.
  unfold akeys, fixed_after. rewrite !in_map_iff. intros [kv [<- H]]. apply filter_In in H.
  exists kv. tauto.
Qed.

Lemma fixed_after_not_rv fixed dists p :
  In p (akeys (fixed_after fixed dists)) -> ~ In p (rv_symbols (kept_dists fixed dists)).
Proof.
  unfold akeys, fixed_after. rewrite in_map_iff. intros [kv [<- H]]. apply filter_In in H. destruct H as [_ H].
  apply andb_true_iff in H. destruct H as [_ H]. apply negb_true_iff, not_memp in H. exact H.
Qed.

(* no guard: replace_fixed_thetas never removes a parameter that a remaining distribution uses *)
Lemma cleanup_keeps_rv_params_lemma fixed dists params p :
  In p (flat_map d_params (kept_dists fixed dists)) -> In p params ->
  ~ In p (removed_params fixed dists) ->
  In p (cleanup_params fixed dists params).
Proof.
  intros Hk Hp Hr. unfold cleanup_params. apply filter_In. split; [exact Hp|].
  apply andb_true_iff. split; apply negb_true_iff, not_memp; [exact Hr|].
  intro H. apply fixed_after_not_rv in H. apply H. unfold rv_symbols.
  apply in_flat_map in Hk. destruct Hk as [d [Hd Hin]]. apply in_flat_map. exists d. split; [exact Hd|].
  apply in_or_app. right. exact Hin.
Qed.

(* thetas that are not fixed are never touched *)
Lemma cleanup_params_exact fixed dists params p :
  In p (cleanup_params fixed dists params) <-> In p params /\ ~ In p (removed_params fixed dists) /\
                                               ~ In p (akeys (fixed_after fixed dists)).
Proof.
  unfold cleanup_params. rewrite filter_In, andb_true_iff, !negb_true_iff, !not_memp. tauto.
Qed.

(* ================= the repaired make_declarative is correct on every valid model ================= *)
Lemma free_syms_subs_map m :
  (forall e y, In y (free_syms (subs_map m e)) ->
     (In y (free_syms e) /\ alookup m y = None) \/
     (exists k t, alookup m k = Some t /\ In k (free_syms e) /\ In y (free_syms t))) /\
  (forall c y, In y (free_symsc (subsc_map m c)) ->
     (In y (free_symsc c) /\ alookup m y = None) \/
     (exists k t, alookup m k = Some t /\ In k (free_symsc c) /\ In y (free_syms t))).
Proof.
  apply expr_cond_mut; intros; cbn [subs_map subsc_map free_syms free_symsc] in *;
    try (exfalso; assumption);
    repeat match goal with H : In _ (_ ++ _) |- _ => apply in_app_or in H; destruct H end;
    try match goal with
        | IH : forall y, In y (free_syms (subs_map m ?a)) -> _, H : In _ (free_syms (subs_map m ?a)) |- _ =>
            destruct (IH _ H) as [[? ?]|[k [t [? [? ?]]]]];
            [left; split; [|assumption] | right; exists k, t; split; [assumption|split; [|assumption]]];
            repeat rewrite in_app_iff; auto 6
        | IH : forall y, In y (free_symsc (subsc_map m ?a)) -> _, H : In _ (free_symsc (subsc_map m ?a)) |- _ =>
            destruct (IH _ H) as [[? ?]|[k [t [? [? ?]]]]];
            [left; split; [|assumption] | right; exists k, t; split; [assumption|split; [|assumption]]];
            repeat rewrite in_app_iff; auto 6
        end.
  (* Sym *)
  destruct (alookup m s) as [t|] eqn:E.
  - right. exists s, t. split; [exact E|]. split; [left; reflexivity | assumption].
  - cbn [free_syms] in H. destruct H as [<-|[]]. left. split; [left; reflexivity | exact E].
Qed.

Lemma In_aremove {A} k (m : list (id * A)) kv : In kv (aremove k m) -> In kv m.
Proof.
  induction m as [|[k' v] m IH]; cbn [aremove]; [tauto|].
  destruct (Pos.eqb k' k); cbn [In]; intuition.
Qed.

Lemma poison_none (cur : list (id * expr)) D :
  (forall k t, In (k, t) cur -> forall y, In y (free_syms t) -> ~ In y D) -> poison_after cur D [] = [].
Proof.
  intros H. unfold poison_after. cbn [app].
  assert (E : filter (fun kv : id * expr => mentions (snd kv) D) cur = []).
  { induction cur as [|[k t] cur IH]; [reflexivity|]. cbn [filter snd].
    assert (Em : mentions t D = false).
    { unfold mentions. apply interp_empty. intros y Hy. apply (H k t); [left; reflexivity | exact Hy]. }
    rewrite Em. apply IH. intros k' t' Hin. apply (H k' t'). right. exact Hin. }
  rewrite E. reflexivity.
Qed.

Lemma use_ok_nil syms : use_ok [] syms = true.
Proof. unfold use_ok. apply negb_true_iff, interp_empty. intros ? ? []. Qed.

Definition ok3 (known assigned odedefs : list id) (y : id) : bool :=
  memp y known || memp y assigned || memp y odedefs.

(* definitions of the remaining statements never hit a known symbol or an amount already defined *)
Lemma valid_defs known : forall l A O, valid_from known l A O = true ->
  forall y, In y (all_sdefs l) -> ~ In y known /\ ~ In y O.
Proof.
  induction l as [|st l IH]; intros A O Hv y Hy; [destruct Hy|].
  unfold all_sdefs in Hy. cbn [flat_map] in Hy. apply in_app_or in Hy.
  destruct st as [s e|amts args]; cbn [valid_from] in Hv.
  - apply andb_true_iff in Hv. destruct Hv as [Hv Hr]. apply andb_true_iff in Hv. destruct Hv as [Hv _].
    apply andb_true_iff in Hv. destruct Hv as [H1 H2]. apply negb_true_iff, not_memp in H1. apply negb_true_iff, not_memp in H2.
    destruct Hy as [[<-|[]]|Hy]; [tauto|]. apply (IH _ _ Hr y Hy).
  - apply andb_true_iff in Hv. destruct Hv as [Hv Hr]. apply andb_true_iff in Hv. destruct Hv as [H1 _].
    apply negb_true_iff in H1. rewrite interp_empty in H1.
    destruct Hy as [Hy|Hy].
    + specialize (H1 y Hy). rewrite !in_app_iff in H1. tauto.
    + destruct (IH _ _ Hr y Hy) as [Ha Hb]. split; [exact Ha|]. intro Hc. apply Hb. apply in_or_app. right. exact Hc.
Qed.

(* a symbol already assigned is never an amount of a later system *)
Lemma valid_assigned_not_amount known : forall l A O, valid_from known l A O = true ->
  forall y, In y A -> forall amts args, In (SOde amts args) l -> ~ In y amts.
Proof.
  induction l as [|st l IH]; intros A O Hv y Hy amts args Hin; [destruct Hin|].
  destruct st as [s e|amts' args']; cbn [valid_from] in Hv.
  - apply andb_true_iff in Hv. destruct Hv as [_ Hr]. destruct Hin as [Hin|Hin]; [discriminate|].
    apply (IH _ _ Hr y (or_intror Hy) amts args Hin).
  - apply andb_true_iff in Hv. destruct Hv as [Hv Hr]. apply andb_true_iff in Hv. destruct Hv as [H1 _].
    apply negb_true_iff in H1. rewrite interp_empty in H1.
    destruct Hin as [Hin|Hin].
    + injection Hin as <- <-. intro Hc. apply (H1 y Hc). rewrite !in_app_iff. tauto.
    + apply (IH _ _ Hr y Hy amts args Hin).
Qed.

Lemma all_sdefs_cases y : forall l i, In y (all_sdefs l) ->
  occ y l i <> [] \/ exists amts args, In (SOde amts args) l /\ In y amts.
Proof.
  induction l as [|st l IH]; intros i Hy; [destruct Hy|].
  unfold all_sdefs in Hy. cbn [flat_map] in Hy. apply in_app_or in Hy.
  destruct st as [s e|amts args]; cbn [sdefs occ] in *.
  - destruct Hy as [[<-|[]]|Hy].
    + rewrite Pos.eqb_refl. left. discriminate.
    + destruct (IH (S i) Hy) as [H|[am [ar [H1 H2]]]].
      * left. destruct (Pos.eqb s y); [discriminate | exact H].
      * right. exists am, ar. split; [right; exact H1 | exact H2].
  - destruct Hy as [Hy|Hy].
    + right. exists amts, args. split; [left; reflexivity | exact Hy].
    + destruct (IH (S i) Hy) as [H|[am [ar [H1 H2]]]]; [left; exact H|].
      right. exists am, ar. split; [right; exact H1 | exact H2].
Qed.

Lemma occ_tail_nonempty y st l i : occ y l (S i) <> [] -> occ y (st :: l) i <> [].
Proof.
  intros H. destruct st as [s e|a b]; cbn [occ]; [|exact H]. destruct (Pos.eqb s y); [discriminate | exact H].
Qed.

Definition K (l : list stm) (cur : list (id * expr)) : Prop :=
  forall k t, In (k, t) cur -> forall y, In y (free_syms t) -> ~ In y (all_sdefs l).

Lemma K_tail st l cur : K (st :: l) cur -> K l cur.
Proof.
  intros HK k t Hin y Hy Hd. apply (HK k t Hin y Hy). unfold all_sdefs. cbn [flat_map]. apply in_or_app. right. exact Hd.
Qed.

Lemma patched_guard_lemma known : forall l i cur dups A O,
  valid_from known l A O = true ->
  J A i l cur dups ->
  K l cur ->
  decl_guard_gen true l i cur dups [] = true.
Proof.
  induction l as [|st l IH]; intros i cur dups A O Hv HJ HK; [reflexivity|].
  cbn [decl_guard_gen].
  destruct (decl_step_gen true cur dups i st) as [[cur' dups'] out] eqn:Es.
  pose proof (J_step true A i st l cur dups cur' dups' out HJ Es) as HJ'.
  assert (Hdefs : forall y, In y (sdefs st) -> In y (all_sdefs (st :: l))).
  { intros y Hy. unfold all_sdefs. cbn [flat_map]. apply in_or_app. left. exact Hy. }
  destruct st as [x e|amts args].
  - cbn [valid_from] in Hv. apply andb_true_iff in Hv. destruct Hv as [Hv Hr].
    apply andb_true_iff in Hv. destruct Hv as [Hv Hfree]. rewrite forallb_forall in Hfree.
    cbn [assigned_by app] in HJ'.
    (* a symbol read by e that has no pending expression is never defined again *)
    assert (Hstable : forall y, In y (free_syms e) -> alookup cur y = None -> ~ In y (all_sdefs l)).
    { intros y Hy Hc Hd. specialize (Hfree y Hy). apply orb_true_iff in Hfree. destruct Hfree as [Hf|Hf];
        [apply orb_true_iff in Hf; destruct Hf as [Hf|Hf]|]; apply memp_In in Hf.
      - (* known *) destruct (valid_defs known l _ _ Hr y Hd) as [Hk1 Hk2]. contradiction.
      - (* assigned earlier *)
        destruct (all_sdefs_cases y l (S i) Hd) as [Ho|[am [ar [H1 H2]]]].
        + apply (occ_tail_nonempty y (SAssign x e)) in Ho. apply memp_In in Hf.
          destruct (proj1 (HJ y) Hf) as [[_ [_ Hn]]|[_ Hiff]]; [congruence|]. apply Hiff in Ho. congruence.
        + eapply (valid_assigned_not_amount known l (x :: A) O Hr y); [right; exact Hf | exact H1 | exact H2].
      - (* an amount of an earlier system *) destruct (valid_defs known l _ _ Hr y Hd) as [Hk1 Hk2]. contradiction. }
    assert (Hstore : K l (aset x (subs_map cur e) cur)).
    { intros k t Hin y Hy. destruct Hin as [Hin|Hin].
      - injection Hin as <- <-. apply (proj1 (free_syms_subs_map cur)) in Hy.
        destruct Hy as [[Hy Hc]|[k' [t' [Hl [_ Hy]]]]]; [apply Hstable; assumption|].
        apply (K_tail _ _ _ HK k' t' (alookup_In _ _ _ Hl) y Hy).
      - apply In_aremove in Hin. apply (K_tail _ _ _ HK k t Hin y Hy). }
    cbn [decl_step_gen] in Es. destruct (classify dups i x) as [kd d'] eqn:Ec. cbn [fst].
    destruct kd; injection Es as <- <- _.
    + (* KPlain *)
      rewrite (poison_none cur [x]).
      2:{ intros k t Hin y Hy Hd. apply (HK k t Hin y Hy). apply Hdefs. exact Hd. }
      rewrite use_ok_nil. cbn [andb]. eapply IH; [exact Hr | exact HJ' | apply (K_tail _ _ _ HK)].
    + (* KFirst *)
      rewrite use_ok_nil. cbn [andb]. change (removep x []) with (@nil id). eapply IH; [exact Hr | exact HJ' | exact Hstore].
    + (* KMiddle *)
      rewrite use_ok_nil. cbn [andb]. change (removep x []) with (@nil id). eapply IH; [exact Hr | exact HJ' | exact Hstore].
    + (* KLast *)
      change (removep x []) with (@nil id). rewrite (poison_none (aremove x cur) [x]).
      2:{ intros k t Hin y Hy Hd. apply In_aremove in Hin. apply (HK k t Hin y Hy). apply Hdefs. exact Hd. }
      rewrite use_ok_nil. cbn [andb]. eapply IH; [exact Hr | exact HJ' |].
      intros k t Hin. apply In_aremove in Hin. apply (K_tail _ _ _ HK k t Hin).
  - cbn [valid_from] in Hv. apply andb_true_iff in Hv. destruct Hv as [Hv Hr].
    apply andb_true_iff in Hv. destruct Hv as [Hdis _]. apply negb_true_iff in Hdis. rewrite interp_empty in Hdis.
    cbn [decl_step_gen] in Es. injection Es as <- <- _. cbn [assigned_by app] in HJ'.
    rewrite use_ok_nil.
    assert (Hk : interp_nonempty amts (akeys cur) = false).
    { apply interp_empty. intros a Ha. apply alookup_None_keys.
      assert (Hna : memp a A = false).
      { apply not_memp. intro Hin. apply (Hdis a Ha). rewrite !in_app_iff. tauto. }
      apply (proj2 (HJ a) Hna). }
    rewrite Hk. cbn [negb andb].
    rewrite (poison_none cur amts).
    2:{ intros k t Hin y Hy Ha. apply (HK k t Hin y Hy). apply Hdefs. exact Ha. }
    eapply IH; [exact Hr | exact HJ' | apply (K_tail _ _ _ HK)].
Qed.

Lemma guard_on_valid known l : g_valid known l = true -> g_no_stale_capture l = true.
Proof.
  intros Hv. unfold g_no_stale_capture. eapply patched_guard_lemma; [exact Hv | apply J_init |].
  intros k t [].
Qed.

Lemma declarative_correct_lemma known l :
  g_valid known l = true ->
  forall fi ode r x, sexec fi ode r (declarative l) x = sexec fi ode r l x.
Proof.
  intros Hv fi ode. apply declarative_preserves_lemma. eapply guard_on_valid. exact Hv.
Qed.

(* ================= cleanup_model never inlines a dependent variable (since b7852b9) ================= *)
Lemma akeys_aset {A} k (v : A) m x : In x (akeys (aset k v m)) -> x = k \/ In x (akeys m).
Proof.
  unfold aset, akeys. cbn [map fst In]. intros [H|H]; [left; symmetry; exact H|]. right.
  apply in_map_iff in H. destruct H as [kv [<- H]]. apply In_aremove in H. apply in_map. exact H.
Qed.

Lemma inline_final_keys dvs : forall l cur x,
  In x (akeys (inline_final dvs l cur)) -> In x (akeys cur) \/ ~ In x dvs.
Proof.
  induction l as [|st l IH]; intros cur x H; cbn [inline_final] in H; [left; exact H|].
  destruct (alias_of dvs st) as [[s y]|] eqn:Ea; [|apply IH; exact H].
  apply alias_of_spec in Ea. destruct Ea as [_ Hs].
  apply IH in H. destruct H as [H|H]; [|right; exact H].
  apply akeys_aset in H. destruct H as [->|H]; [right; exact Hs | left; exact H].
Qed.

Lemma inlined_not_dv dvs l x : In x dvs -> ~ In x (inlined dvs l).
Proof.
  intros Hd Hin. unfold inlined in Hin. apply inline_final_keys in Hin. destruct Hin as [[]|Hn]. exact (Hn Hd).
Qed.

Lemma cleanup_preserves_dv_lemma fi ode dvs fixed dists l :
  g_cleanup dvs fixed dists l = true ->
  forall r,
    (forall th q, In (th, q) fixed -> r th = Some q) ->
    (forall k, In k (akeys (zero_map fixed dists)) -> r k = Some 0%Q) ->
    forall dv, In dv dvs -> sexec fi ode r (cleanup_stmts dvs fixed dists l) dv = sexec fi ode r l dv.
Proof.
  intros Hg r H1 H2 dv Hd. apply cleanup_preserves_lemma; auto. apply inlined_not_dv. exact Hd.
Qed.

(* ================= mu_reference_model ================= *)
Section Mu.
  Variable fi : finterp.
  Variable ode : id -> list (option Q) -> option Q.
  Variable etas : list (id * id).
  Variable table : list (nat * (expr * expr)).
  Variable sel : list nat.
  Variable M : list id.                     (* the inserted mu symbols *)

  Definition agree_off (r r' : env) : Prop := forall x, ~ In x M -> r x = r' x.

  (* sympy's answer solves the equation at environment r: new_def[mu := value of mu_expr] = old_def, wherever
     mu_expr has a value *)
  Definition sol_at (mu : id) (m new old : expr) (r : env) : Prop :=
    forall v, eval r fi m = Some v -> eval (upd r mu (Some v)) fi new = eval r fi old.

  (* the hypotheses on the rewrites of the walk over l starting at index i *)
  Fixpoint mu_sol_ok (l : list stm) (i : nat) : Prop :=
    match l with
    | [] => True
    | st :: tl =>
        match mu_action etas table sel i st, st with
        | MRewrite mu m p new, SAssign _ old => In mu M /\ (forall r0, sol_at mu m new old r0)
        | _, _ => True
        end /\ mu_sol_ok tl (S i)
    end.

  (* every inserted `mu = mu_expr` evaluates to a defined value in the run of the new program from r' *)
  Fixpoint mu_run_ok (l : list stm) (i : nat) (r' : env) : Prop :=
    match l with
    | [] => True
    | st :: tl =>
        match mu_action etas table sel i st with
        | MRewrite mu m p new =>
            eval r' fi m <> None /\
            mu_run_ok tl (S i) (sexec1 fi ode (sexec1 fi ode r' (SAssign mu m)) (SAssign p new))
        | _ => mu_run_ok tl (S i) (sexec1 fi ode r' st)
        end
    end.

  Lemma agree_keep r r' st :
    agree_off r r' -> (forall x, In x (ssyms st) -> ~ In x M) ->
    agree_off (sexec1 fi ode r st) (sexec1 fi ode r' st).
  Proof.
    intros Ha Hs x Hx. destruct (in_dec Pos.eq_dec x (sdefs st)) as [Hin|Hn].
    - apply sexec1_defs; [|exact Hin]. intros y Hy. apply Ha. apply Hs. unfold ssyms. apply in_or_app. right. exact Hy.
    - rewrite !sexec1_other by exact Hn. apply Ha. exact Hx.
  Qed.

  Lemma mu_action_rewrite_shape i st mu m p new :
    mu_action etas table sel i st = MRewrite mu m p new -> exists old, st = SAssign p old.
  Proof.
    unfold mu_action. destruct (memn i sel); [|discriminate]. destruct st as [p' old|a b]; [|discriminate].
    destruct (eta_of etas old) as [[e mu']|]; [|discriminate]. destruct (memp mu' (free_syms old)); [discriminate|].
    destruct (find _ table) as [[k [m' new']]|]; [|discriminate]. intros H. injection H as _ _ <- _. eauto.
  Qed.

  Lemma mu_walk_lemma : forall l i out r r',
    mu_walk etas table sel l i = Some out ->
    agree_off r r' ->
    (forall x, In x (all_ssyms l) -> ~ In x M) ->
    mu_sol_ok l i -> mu_run_ok l i r' ->
    agree_off (sexec fi ode r l) (sexec fi ode r' out).
  Proof.
    induction l as [|st l IH]; intros i out r r' Hw Ha Hfresh Hsol Hrun.
    - cbn [mu_walk] in Hw. injection Hw as <-. exact Ha.
    - cbn [mu_walk] in Hw. destruct (mu_walk etas table sel l (S i)) as [b|] eqn:Eb; [|discriminate].
      cbn [mu_sol_ok mu_run_ok] in Hsol, Hrun. destruct Hsol as [Hs1 Hsol].
      assert (Hfst : forall x, In x (ssyms st) -> ~ In x M).
      { intros x Hx. apply Hfresh. unfold all_ssyms. cbn [flat_map]. apply in_or_app. left. exact Hx. }
      assert (Hfl : forall x, In x (all_ssyms l) -> ~ In x M).
      { intros x Hx. apply Hfresh. unfold all_ssyms. cbn [flat_map]. apply in_or_app. right. exact Hx. }
      destruct (mu_action etas table sel i st) as [|mu m p new|] eqn:Eact; [| |discriminate].
      + injection Hw as <-. cbn [Model.sexec]. apply (IH (S i) b); auto. apply agree_keep; assumption.
      + injection Hw as <-. destruct (mu_action_rewrite_shape _ _ _ _ _ _ Eact) as [old ->].
        destruct Hs1 as [HmuM Hsolr]. destruct Hrun as [Hdef Hrun].
        cbn [Model.sexec]. apply (IH (S i) b); auto.
        (* one original statement against the two new ones *)
        destruct (eval r' fi m) as [v|] eqn:Em; [|congruence]. clear Hdef.
        assert (Hold : eval r' fi old = eval r fi old).
        { apply eval_ext. intros y Hy. symmetry. apply Ha. apply Hfst. unfold ssyms. cbn [sdefs srhs].
          right. exact Hy. }
        assert (HpM : ~ In p M) by (apply Hfst; left; reflexivity).
        intros x Hx. cbn [Model.sexec1]. rewrite Em. rewrite (Hsolr r' v Em), Hold.
        unfold upd. destruct (Pos.eqb x p) eqn:Exp; [reflexivity|].
        destruct (Pos.eqb x mu) eqn:Exm; [apply Pos.eqb_eq in Exm; subst; contradiction|]. apply Ha. exact Hx.
  Qed.
End Mu.

(* the inserted mus of the walk are in [inserted_mus] *)
Lemma mu_sol_ok_inserted fi etas table sel : forall l i,
  (forall j st mu m p new old, nth_error l j = Some st -> mu_action etas table sel (i + j) st = MRewrite mu m p new ->
      st = SAssign p old -> forall r0, sol_at fi mu m new old r0) ->
  mu_sol_ok fi etas table sel (inserted_mus etas table sel l i) l i.
Proof.
  induction l as [|st l IH]; intros i H; [exact I|].
  cbn [mu_sol_ok inserted_mus]. split.
  - destruct (mu_action etas table sel i st) as [|mu m p new|] eqn:Ea; try exact I.
    destruct st as [p' old|a b]; [|exact I]. split; [left; reflexivity|].
    apply (H 0 (SAssign p' old) mu m p new old); [reflexivity | rewrite Nat.add_0_r; exact Ea |].
    destruct (mu_action_rewrite_shape _ _ _ _ _ _ _ _ _ Ea) as [old' E]. injection E as -> _. reflexivity.
  - assert (G : forall M M', (forall x, In x M -> In x M') -> forall l0 i0,
                 mu_sol_ok fi etas table sel M l0 i0 -> mu_sol_ok fi etas table sel M' l0 i0).
    { intros M0 M' Hsub. induction l0 as [|st0 l0 IH0]; intros i0 H0; [exact I|].
      cbn [mu_sol_ok] in *. destruct H0 as [H1 H2]. split; [|apply IH0; exact H2].
      destruct (mu_action etas table sel i0 st0); try exact I. destruct st0; [|exact I].
      destruct H1 as [H1 H3]. split; [apply Hsub; exact H1 | exact H3]. }
    apply (G (inserted_mus etas table sel l (S i))).
    + intros x Hx. destruct (mu_action etas table sel i st); try exact Hx. right. exact Hx.
    + apply IH. intros j st' mu m p new old Hn Ha. apply (H (S j) st' mu m p new old); [exact Hn|].
      rewrite <- Nat.add_succ_comm. exact Ha.
Qed.

Lemma mu_reference_preserves_lemma fi ode etas table l out :
  mu_reference etas table l = Some out ->
  let sel := find_eta_assignments (map fst etas) l in
  g_mu_fresh etas table sel l = true ->
  (forall j p old mu m new, nth_error l j = Some (SAssign p old) ->
      mu_action etas table sel j (SAssign p old) = MRewrite mu m p new -> forall r0, sol_at fi mu m new old r0) ->
  forall r, mu_run_ok fi ode etas table sel l 0 r ->
  forall x, ~ In x (inserted_mus etas table sel l 0) -> sexec fi ode r out x = sexec fi ode r l x.
Proof.
  intros Hw sel Hf Hsol r Hrun x Hx. symmetry.
  apply (mu_walk_lemma fi ode etas table sel (inserted_mus etas table sel l 0) l 0 out r r); auto.
  - intros y _. reflexivity.
  - unfold g_mu_fresh in Hf. apply negb_true_iff in Hf. rewrite interp_empty in Hf.
    intros y Hy Hm. exact (Hf y Hm Hy).
  - apply mu_sol_ok_inserted. intros j st mu m p new old Hn Ha ->. cbn [Nat.add] in Ha.
    apply (Hsol j p old mu m new Hn Ha).
Qed.

(* ---- the two standard forms solve the equation ---- *)
Section Forms.
  Variable fi : finterp.

  (* additive: P = T + eta  ->  mu = T ; P = mu + eta   (every interpretation) *)
  Lemma additive_sol T eta mu r : mu <> eta ->
    sol_at fi mu T (Add (Sym mu) (Sym eta)) (Add T (Sym eta)) r.
  Proof.
    intros Hne v Hv. cbn [eval]. unfold upd. rewrite Pos.eqb_refl.
    assert (E : Pos.eqb eta mu = false) by (apply Pos.eqb_neq; congruence). rewrite E, Hv. reflexivity.
  Qed.

  (* exponential: P = T * exp(eta)  ->  mu = log(T) ; P = exp(mu + eta), for interpretations in which
     exp(log t + e) = t * exp(e) wherever log t is defined *)
  Definition exp_log_law : Prop :=
    forall t l e, fi1 fi F_LOG t = Some l ->
      fi1 fi F_EXP (Qred (l + e)) = obind (fi1 fi F_EXP e) (fun x => Some (Qred (t * x))).

  Lemma exponential_sol T eta mu r : mu <> eta -> exp_log_law ->
    sol_at fi mu (Fn1 F_LOG T) (Fn1 F_EXP (Add (Sym mu) (Sym eta))) (Mul T (Fn1 F_EXP (Sym eta))) r.
  Proof.
    intros Hne Hlaw v Hv. cbn [eval] in *. unfold upd. rewrite Pos.eqb_refl.
    assert (E : Pos.eqb eta mu = false) by (apply Pos.eqb_neq; congruence). rewrite E.
    destruct (eval r fi T) as [t|]; [|discriminate]. cbn [obind] in *.
    destruct (r eta) as [e|]; cbn [obind]; [|reflexivity].
    rewrite (Hlaw t v e Hv). destruct (fi1 fi F_EXP e); reflexivity.
  Qed.
End Forms.


(* ================= renaming to fresh, pairwise different names (greekify_model) ================= *)
Lemma NoDup_snd_inj (d : list (id * id)) x y t :
  NoDup (map snd d) -> In (x, t) d -> In (y, t) d -> x = y.
Proof.
  induction d as [|[k v] d IH]; intros Hn Hx Hy; [destruct Hx|].
  cbn [map snd] in Hn. inversion Hn as [|? ? Hnotin Hn']; subst.
  destruct Hx as [Hx|Hx], Hy as [Hy|Hy].
  - congruence.
  - inversion Hx; subst. exfalso. apply Hnotin. apply in_map_iff. exists (y, t). auto.
  - inversion Hy; subst. exfalso. apply Hnotin. apply in_map_iff. exists (x, t). auto.
  - apply IH; assumption.
Qed.

(* targets pairwise different and not among the names S of the model  =>  the renaming is injective on S *)
Lemma ren_fresh_injective (d : list (id * id)) (S : list id) :
  NoDup (map snd d) -> (forall t, In t (map snd d) -> ~ In t S) ->
  forall x y, In x S -> In y S -> ren d x = ren d y -> x = y.
Proof.
  intros Hn Hf x y Hx Hy. unfold ren.
  destruct (alookup d x) as [t|] eqn:Ex; destruct (alookup d y) as [t'|] eqn:Ey; intros E.
  - subst t'. apply alookup_In in Ex. apply alookup_In in Ey. eapply NoDup_snd_inj; eauto.
  - exfalso. apply (Hf t); [|rewrite E; exact Hy]. apply in_map_iff. exists (x, t). split; [reflexivity|].
    apply alookup_In. exact Ex.
  - exfalso. apply (Hf t'); [|rewrite <- E; exact Hx]. apply in_map_iff. exists (y, t'). split; [reflexivity|].
    apply alookup_In. exact Ey.
  - exact E.
Qed.

Lemma rename_fresh_preserves_lemma fi ode (d : list (id * id)) (S : list id) (l : list stm) :
  NoDup (map snd d) -> (forall t, In t (map snd d) -> ~ In t S) ->
  (forall x, In x (all_ssyms l) -> In x S) ->
  amounts_unrenamed d l = true ->
  forall r r', (forall x, In x S -> r' (ren d x) = r x) ->
  forall x, In x S -> sexec fi ode r' (rename d l) (ren d x) = sexec fi ode r l x.
Proof.
  intros Hn Hf Hs Ha r r' Hr x Hx.
  apply (rename_lemma fi ode d S); auto. apply ren_fresh_injective; assumption.
Qed.


(* ================= convert_model round trip, split / create joint distribution ================= *)
Lemma convert_roundtrip_id m : convert_nonmem (convert_generic m) = m.
Proof. destruct m. reflexivity. Qed.

Lemma convert_roundtrip_lemma fi ode m r x :
  sexec fi ode r (pm_stmts (convert_nonmem (convert_generic m))) x = sexec fi ode r (pm_stmts m) x.
Proof. rewrite convert_roundtrip_id. reflexivity. Qed.

Lemma split_joint_function fi ode inds m r x :
  sexec fi ode r (pm_stmts (split_joint inds m)) x = sexec fi ode r (pm_stmts m) x.
Proof. reflexivity. Qed.

Lemma split_joint_params_sub inds m p : In p (pm_params (split_joint inds m)) -> In p (pm_params m).
Proof. cbn [split_joint pm_params]. intros H. apply filter_In in H. tauto. Qed.

(* a parameter that the random variables still mention, or never mentioned, is kept *)
Lemma split_joint_params_kept inds m p :
  In p (pm_params m) ->
  (In (fst (fst p)) (flat_map rdist_params (unjoin inds (pm_rvs m))) \/
   ~ In (fst (fst p)) (flat_map rdist_params (pm_rvs m))) ->
  In p (pm_params (split_joint inds m)).
Proof.
  intros Hp H. cbn [split_joint pm_params]. apply filter_In. split; [exact Hp|].
  apply negb_true_iff. apply andb_false_iff. destruct H as [H|H].
  - right. apply negb_false_iff. apply memp_In. exact H.
  - left. apply not_memp. exact H.
Qed.


(* ================= unjoin / split_joint keep the random variables ================= *)
Lemma enum_from_ge {A} (l : list A) : forall k i x, In (i, x) (enum_from k l) -> k <= i.
Proof.
  induction l as [|a l IH]; intros k i x H; cbn [enum_from] in H; [destruct H|].
  destruct H as [H|H]; [injection H as <- _; lia | apply IH in H; lia].
Qed.

Lemma enum_from_nth {A} (l : list A) d : forall k i x, In (i, x) (enum_from k l) -> nth (i - k) l d = x.
Proof.
  induction l as [|a l IH]; intros k i x H; cbn [enum_from] in H; [destruct H|].
  destruct H as [H|H].
  - injection H as <- <-. rewrite Nat.sub_diag. reflexivity.
  - pose proof (enum_from_ge _ _ _ _ H) as Hge. apply IH in H.
    replace (i - k) with (S (i - S k)) by lia. exact H.
Qed.

Lemma map_snd_enum_from {A} (l : list A) : forall k, map snd (enum_from k l) = l.
Proof. induction l as [|a l IH]; intros k; cbn [enum_from map snd]; [reflexivity | rewrite IH; reflexivity]. Qed.

(* the indices selected by a filter on the enumeration identify the selected entries *)
Lemma memn_fst_filter {A} (q : nat * A -> bool) (l : list A) : forall k ix,
  In ix (enum_from k l) -> memn (fst ix) (map fst (filter q (enum_from k l))) = q ix.
Proof.
  induction l as [|a l IH]; intros k ix H; cbn [enum_from] in H; [destruct H|].
  cbn [enum_from filter].
  assert (Htail : forall jy, In jy (enum_from (S k) l) -> fst jy <> k).
  { intros [j y] Hj. apply enum_from_ge in Hj. cbn [fst]. lia. }
  assert (Hnot : memn k (map fst (filter q (enum_from (S k) l))) = false).
  { destruct (memn k (map fst (filter q (enum_from (S k) l)))) eqn:E; [|reflexivity].
    apply memn_In in E. apply in_map_iff in E. destruct E as [jy [E1 E2]]. apply filter_In in E2.
    exfalso. apply (Htail jy); tauto. }
  destruct H as [<-|H].
  - cbn [fst]. destruct (q (k, a)) eqn:Eq; cbn [map fst memn existsb].
    + rewrite Nat.eqb_refl. reflexivity.
    + exact Hnot.
  - destruct (q (k, a)) eqn:Eq; cbn [map fst memn existsb].
    + assert (E : Nat.eqb (fst ix) k = false) by (apply Nat.eqb_neq; apply Htail; exact H).
      rewrite E. cbn [orb]. apply IH. exact H.
    + apply IH. exact H.
Qed.

Lemma keep_idx_filter {A} (q : nat * A -> bool) (l : list A) :
  keep_idx (map fst (filter q (enum_from 0 l))) l = map snd (filter q (enum_from 0 l)).
Proof.
  unfold keep_idx. f_equal. apply filter_ext_in. intros ix Hin. apply memn_fst_filter. exact Hin.
Qed.

Lemma perm_filter_split {A} (p : A -> bool) (l : list A) :
  Permutation (filter p l ++ filter (fun x => negb (p x)) l) l.
Proof.
  induction l as [|a l IH]; [constructor|]. cbn [filter]. destruct (p a); cbn [negb app].
  - constructor. exact IH.
  - apply Permutation_sym. apply Permutation_cons_app. apply Permutation_sym. exact IH.
Qed.

(* names of the singles: the selected names in order *)
Lemma singles_names (inds : list id) (f : nat -> list id) (ns : list id) : forall k,
  flat_map rdist_names
    (flat_map (fun ix : nat * id => if memp (snd ix) inds then [DNormal (snd ix) (f (fst ix))] else []) (enum_from k ns))
  = filter (fun n => memp n inds) ns.
Proof.
  induction ns as [|a ns IH]; intros k; cbn [enum_from flat_map filter snd fst]; [reflexivity|].
  destruct (memp a inds); cbn [app flat_map rdist_names]; rewrite IH; reflexivity.
Qed.

Lemma filter_snd_enum (p : id -> bool) (ns : list id) : forall k,
  map snd (filter (fun ix : nat * id => p (snd ix)) (enum_from k ns)) = filter p ns.
Proof.
  induction ns as [|a ns IH]; intros k; cbn [enum_from filter snd map]; [reflexivity|].
  destruct (p a); cbn [map snd]; rewrite IH; reflexivity.
Qed.

Lemma unjoin_dist_names inds d :
  Permutation (flat_map rdist_names (unjoin_dist inds d)) (rdist_names d).
Proof.
  destruct d as [n v|ns m]; cbn [unjoin_dist].
  - cbn. apply Permutation_refl.
  - destruct (existsb (fun n => memp n inds) ns); [|cbn [flat_map rdist_names]; rewrite app_nil_r; apply Permutation_refl].
    cbv zeta. rewrite flat_map_app, singles_names. cbn [rdist_names].
    set (E := filter (fun ix : nat * id => negb (memp (snd ix) inds)) (enum_from 0 ns)).
    assert (Hkept : flat_map rdist_names
              (match map fst E with
               | [] => []
               | [i] => [DNormal (nth i ns 1%positive) (diag_syms m i)]
               | _ => [DJoint (keep_idx (map fst E) ns) (map (keep_idx (map fst E)) (keep_idx (map fst E) m))]
               end) = filter (fun n => negb (memp n inds)) ns).
    { pose proof (filter_snd_enum (fun n => negb (memp n inds)) ns 0) as H0. cbn beta in H0. fold E in H0.
      transitivity (map snd E); [|exact H0]. clear H0.
      destruct E as [|[i x] [|jy E']] eqn:EE.
      - reflexivity.
      - cbn [map fst snd flat_map rdist_names app]. f_equal.
        assert (Hin : In (i, x) (enum_from 0 ns)).
        { assert (H : In (i, x) E) by (rewrite EE; left; reflexivity). unfold E in H. apply filter_In in H. tauto. }
        apply (enum_from_nth ns 1%positive) in Hin. rewrite Nat.sub_0_r in Hin. exact Hin.
      - rewrite <- EE. cbn [map fst] in *.
        replace (match map fst E with [] => [] | [i0] => [DNormal (nth i0 ns 1%positive) (diag_syms m i0)]
                 | _ => [DJoint (keep_idx (map fst E) ns) (map (keep_idx (map fst E)) (keep_idx (map fst E) m))] end)
          with [DJoint (keep_idx (map fst E) ns) (map (keep_idx (map fst E)) (keep_idx (map fst E) m))]
          by (rewrite EE; reflexivity).
        cbn [flat_map rdist_names]. rewrite app_nil_r. unfold E. apply keep_idx_filter. }
    match goal with
    | |- Permutation (_ ++ ?x) _ =>
        assert (Heq : x = filter (fun n => negb (memp n inds)) ns) by exact Hkept; rewrite Heq
    end.
    apply (perm_filter_split (fun n => memp n inds) ns).
Qed.

Lemma unjoin_names_perm inds : forall ds,
  Permutation (flat_map rdist_names (unjoin inds ds)) (flat_map rdist_names ds).
Proof.
  induction ds as [|d ds IH]; [constructor|]. unfold unjoin in *. cbn [flat_map]. rewrite flat_map_app.
  apply Permutation_app; [apply unjoin_dist_names | exact IH].
Qed.

(* ---- every random variable keeps its variance ---- *)
Fixpoint incr (o : nat) (keep : list nat) : Prop :=
  match keep with [] => True | k :: ks => o <= k /\ incr (S k) ks end.

Lemma incr_le o o' keep : o' <= o -> incr o keep -> incr o' keep.
Proof. destruct keep as [|k ks]; cbn [incr]; [tauto|]. intros H [H1 H2]. split; [lia | exact H2]. Qed.

Lemma incr_filter_enum {A} (q : nat * A -> bool) (l : list A) : forall o,
  incr o (map fst (filter q (enum_from o l))).
Proof.
  induction l as [|a l IH]; intros o; cbn [enum_from filter]; [exact I|].
  destruct (q (o, a)); cbn [map fst incr].
  - split; [lia | apply IH].
  - apply (incr_le (S o)); [lia | apply IH].
Qed.

Lemma incr_not_mem o keep i : incr o keep -> i < o -> memn i keep = false.
Proof.
  revert o. induction keep as [|k ks IH]; intros o H Hi; [reflexivity|]. cbn [incr] in H. destruct H as [H1 H2].
  cbn [memn existsb]. assert (E : Nat.eqb i k = false) by (apply Nat.eqb_neq; lia). rewrite E. cbn [orb].
  apply (IH (S k)); [exact H2 | lia].
Qed.

Lemma nth_incr_ge keep : forall o j D, incr o keep -> o <= D -> o <= nth j keep D.
Proof.
  induction keep as [|k ks IH]; intros o j D H HD; [destruct j; exact HD|].
  cbn [incr] in H. destruct H as [H1 H2]. destruct j as [|j]; cbn [nth]; [exact H1|].
  apply IH; [|exact HD]. apply (incr_le (S k)); [lia | exact H2].
Qed.

Lemma filter_memn_nil {A} (L : list (nat * A)) : filter (fun ix : nat * A => memn (fst ix) []) L = [].
Proof. induction L as [|x t IH]; [reflexivity | exact IH]. Qed.

(* the j-th selected element is the element at the j-th selected index (out of range on both sides alike) *)
Lemma nth_keep_from {A} (d : A) : forall (l : list A) o keep j,
  incr o keep ->
  nth j (map snd (filter (fun ix : nat * A => memn (fst ix) keep) (enum_from o l))) d
  = nth (nth j keep (o + length l) - o) l d.
Proof.
  induction l as [|a l IH]; intros o keep j Hk.
  - cbn [enum_from filter map nth length]. destruct j; destruct (nth _ keep _ - o); reflexivity.
  - destruct keep as [|k ks].
    + rewrite filter_memn_nil. cbn [map].
      replace (nth j [] (o + length (a :: l)) - o) with (length (a :: l)) by (destruct j; cbn [nth]; lia).
      rewrite (nth_overflow (a :: l)) by lia. destruct j; reflexivity.
    + cbn [enum_from filter length]. cbn [incr] in Hk. destruct Hk as [Hk1 Hk2]. cbn [fst].
      destruct (Nat.eq_dec k o) as [->|Hne].
      * assert (Hh : memn o (o :: ks) = true) by (cbn [memn existsb]; rewrite Nat.eqb_refl; reflexivity).
        rewrite Hh. cbn [map snd].
        assert (Ef : filter (fun ix : nat * A => memn (fst ix) (o :: ks)) (enum_from (S o) l)
                     = filter (fun ix : nat * A => memn (fst ix) ks) (enum_from (S o) l)).
        { apply filter_ext_in. intros [i x] Hin. apply enum_from_ge in Hin. cbn [fst memn existsb].
          assert (E : Nat.eqb i o = false) by (apply Nat.eqb_neq; lia). rewrite E. reflexivity. }
        rewrite Ef. destruct j as [|j]; cbn [nth].
        -- rewrite Nat.sub_diag. reflexivity.
        -- rewrite (IH (S o) ks j Hk2).
           assert (G : S o <= nth j ks (o + S (length l))) by (apply nth_incr_ge; [exact Hk2 | lia]).
           replace (S o + length l) with (o + S (length l)) by lia.
           replace (nth j ks (o + S (length l)) - o) with (S (nth j ks (o + S (length l)) - S o)) by lia. reflexivity.
      * assert (Hm : memn o (k :: ks) = false) by (apply (incr_not_mem k); [cbn [incr]; split; [lia|exact Hk2] | lia]).
        rewrite Hm. rewrite (IH (S o) (k :: ks) j) by (cbn [incr]; split; [lia | exact Hk2]).
        assert (G : S o <= nth j (k :: ks) (o + S (length l))).
        { apply nth_incr_ge; [cbn [incr]; split; [lia | exact Hk2] | lia]. }
        replace (S o + length l) with (o + S (length l)) by lia.
        replace (nth j (k :: ks) (o + S (length l)) - o) with (S (nth j (k :: ks) (o + S (length l)) - S o)) by lia.
        reflexivity.
Qed.

Lemma nth_keep_idx {A} (d : A) (l : list A) keep j :
  incr 0 keep -> nth j (keep_idx keep l) d = nth (nth j keep (length l)) l d.
Proof. intros H. unfold keep_idx. rewrite (nth_keep_from d l 0 keep j H). rewrite Nat.sub_0_r. reflexivity. Qed.

Lemma keep_idx_nil {A} keep : keep_idx keep (@nil A) = [].
Proof. reflexivity. Qed.

(* diagonal of the sub-matrix = diagonal of the matrix at the selected index *)
Lemma diag_sub (m : list (list (list id))) keep j :
  incr 0 keep -> j < length keep ->
  diag_syms (map (keep_idx keep) (keep_idx keep m)) j = diag_syms m (nth j keep 0).
Proof.
  intros Hk Hj. unfold diag_syms.
  rewrite <- (keep_idx_nil keep) at 1. rewrite map_nth.
  rewrite (nth_keep_idx [] m keep j Hk), (nth_keep_idx [] _ keep j Hk).
  rewrite (nth_indep keep (length m) 0 Hj), (nth_indep keep (length _) 0 Hj). reflexivity.
Qed.

Lemma map_enum_pointwise {B} (F : nat -> B) (G : nat -> B) : forall (E : list (nat * id)) j0,
  (forall j, j < length E -> F (j0 + j) = G (fst (nth j E (0, 1%positive)))) ->
  map (fun jx : nat * id => (snd jx, F (fst jx))) (enum_from j0 (map snd E))
  = map (fun ix : nat * id => (snd ix, G (fst ix))) E.
Proof.
  induction E as [|[k x] E IH]; intros j0 H; [reflexivity|].
  cbn [map snd enum_from fst]. f_equal.
  - f_equal. specialize (H 0). cbn [length nth fst] in H. rewrite Nat.add_0_r in H. apply H. lia.
  - apply IH. intros j Hj. specialize (H (S j)). cbn [length nth] in H. rewrite <- Nat.add_succ_comm in H. apply H. lia.
Qed.

Lemma singles_vars (inds : list id) (f : nat -> list id) (ns : list id) : forall k,
  flat_map rv_vars
    (flat_map (fun ix : nat * id => if memp (snd ix) inds then [DNormal (snd ix) (f (fst ix))] else []) (enum_from k ns))
  = map (fun ix => (snd ix, f (fst ix))) (filter (fun ix : nat * id => memp (snd ix) inds) (enum_from k ns)).
Proof.
  induction ns as [|a ns IH]; intros k; cbn [enum_from flat_map filter snd fst]; [reflexivity|].
  destruct (memp a inds); cbn [app flat_map rv_vars map snd fst]; rewrite IH; reflexivity.
Qed.

Lemma unjoin_dist_vars inds d :
  Permutation (flat_map rv_vars (unjoin_dist inds d)) (rv_vars d).
Proof.
  destruct d as [n v|ns m]; cbn [unjoin_dist].
  - cbn. apply Permutation_refl.
  - destruct (existsb (fun n => memp n inds) ns); [|cbn [flat_map]; rewrite app_nil_r; apply Permutation_refl].
    cbv zeta. rewrite flat_map_app, singles_vars. cbn [rv_vars].
    set (g := fun ix : nat * id => (snd ix, diag_syms m (fst ix))).
    set (E := filter (fun ix : nat * id => negb (memp (snd ix) inds)) (enum_from 0 ns)).
    assert (Hinc : incr 0 (map fst E)) by (apply incr_filter_enum).
    assert (Hkept : flat_map rv_vars
              (match map fst E with
               | [] => []
               | [i] => [DNormal (nth i ns 1%positive) (diag_syms m i)]
               | _ => [DJoint (keep_idx (map fst E) ns) (map (keep_idx (map fst E)) (keep_idx (map fst E) m))]
               end) = map g E).
    { destruct E as [|[i x] [|jy E']] eqn:EE.
      - reflexivity.
      - cbn [map fst snd flat_map rv_vars app]. unfold g. cbn [fst snd]. f_equal. f_equal.
        assert (Hin : In (i, x) (enum_from 0 ns)).
        { assert (H : In (i, x) E) by (rewrite EE; left; reflexivity). unfold E in H. apply filter_In in H. tauto. }
        apply (enum_from_nth ns 1%positive) in Hin. rewrite Nat.sub_0_r in Hin. exact Hin.
      - rewrite <- EE in *. 
        replace (match map fst E with [] => [] | [i0] => [DNormal (nth i0 ns 1%positive) (diag_syms m i0)]
                 | _ => [DJoint (keep_idx (map fst E) ns) (map (keep_idx (map fst E)) (keep_idx (map fst E) m))] end)
          with [DJoint (keep_idx (map fst E) ns) (map (keep_idx (map fst E)) (keep_idx (map fst E) m))]
          by (rewrite EE; reflexivity).
        cbn [flat_map rv_vars]. rewrite app_nil_r.
        assert (Hk : keep_idx (map fst E) ns = map snd E) by (unfold E; apply keep_idx_filter).
        rewrite Hk. unfold g. apply map_enum_pointwise. intros j Hj. cbn [Nat.add].
        rewrite diag_sub; [|exact Hinc|rewrite map_length; exact Hj].
        f_equal. change 0 with (fst (0, 1%positive)) at 1. apply map_nth. }
    match goal with
    | |- Permutation (_ ++ ?x) _ => assert (Heq : x = map g E) by exact Hkept; rewrite Heq
    end.
    unfold E. rewrite <- map_app. apply Permutation_map.
    apply (perm_filter_split (fun ix : nat * id => memp (snd ix) inds) (enum_from 0 ns)).
Qed.

Lemma unjoin_vars_perm inds : forall ds,
  Permutation (flat_map rv_vars (unjoin inds ds)) (flat_map rv_vars ds).
Proof.
  induction ds as [|d ds IH]; [constructor|]. unfold unjoin in *. cbn [flat_map]. rewrite flat_map_app.
  apply Permutation_app; [apply unjoin_dist_vars | exact IH].
Qed.


(* ================= remove_unused_parameters_and_rvs never removes a random variable that is used ================= *)
Lemma unused_keeps_used_rvs_lemma symbols dists n :
  In n (flat_map rdist_names dists) -> In n symbols -> In n (unused_new_rv_names symbols dists).
Proof.
  intros Hn Hs. unfold unused_new_rv_names, unused_new_dists.
  assert (Hu : In n (flat_map rdist_names (unjoin (to_unjoin symbols dists) dists))).
  { eapply Permutation_in; [apply Permutation_sym; apply unjoin_names_perm | exact Hn]. }
  apply in_flat_map in Hu. destruct Hu as [d [Hd Hnd]].
  apply in_flat_map. exists d. split; [|exact Hnd].
  apply filter_In. split; [exact Hd|].
  destruct d as [n' v|ns m]; [|reflexivity].
  cbn [rdist_names] in Hnd. destruct Hnd as [<-|[]].
  apply interp_nonempty_spec. exists n'. split; [left; reflexivity | exact Hs].
Qed.

(* ... and nothing is invented: every remaining random variable was one before *)
Lemma unused_rvs_sub symbols dists n :
  In n (unused_new_rv_names symbols dists) -> In n (flat_map rdist_names dists).
Proof.
  unfold unused_new_rv_names, unused_new_dists. intros H. apply in_flat_map in H. destruct H as [d [Hd Hnd]].
  apply filter_In in Hd. destruct Hd as [Hd _].
  apply (Permutation_in n (unjoin_names_perm (to_unjoin symbols dists) dists)).
  apply in_flat_map. exists d. split; assumption.
Qed.
