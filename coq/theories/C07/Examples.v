(* PV.C07.Examples — non-vacuity: concrete non-trivial inputs meeting the guards of the theorems. *)
From Coq Require Import QArith List Bool PArith Arith.
From PV Require Import Base.PyData Base.Expr Base.Interp Base.Stmts C07.Model C07.Proofs C07.Refuted.
Import ListNotations.

Definition sTVV : id := 20%positive. Definition sCOV : id := 21%positive. Definition sETA : id := 22%positive.
Definition sOM : id := 23%positive. Definition sAC : id := 24%positive. Definition sN1 : id := 25%positive.
Definition sN2 : id := 26%positive. Definition sETA2 : id := 27%positive. Definition sOM2 : id := 28%positive.

(* pheno: TVV = TH2*W; TVV = Piecewise((TVV*(1+COV), W < 5), (TVV, True)); V = TVV*exp(ETA); S1 = V;
   system with rate TH1/V; F = A_CENTRAL/S1; Y = F + F*E1 *)
Definition pheno_prog : list stm :=
  [SAssign sTVV (Mul (Sym sT2) (Sym sW));
   SAssign sTVV (PwCons (CRel OLt (Sym sW) (Num 5)) (Mul (Sym sTVV) (Add (Num 1) (Sym sCOV)))
                        (PwCons CTrue (Sym sTVV) PwNil));
   SAssign sV (Mul (Sym sTVV) (Fn1 F_EXP (Sym sETA)));
   SAssign sS1 (Sym sV);
   SOde [sAC] [Div (Sym sT1) (Sym sV)];
   SAssign sF (Div (Sym sAC) (Sym sS1));
   SAssign sY (Add (Sym sF) (Mul (Sym sF) (Sym sE1)))].

Example declarative_nonvacuous :
  g_no_stale_capture pheno_prog = true /\ length (declarative pheno_prog) = 6%nat /\
  dup_table pheno_prog = [(sTVV, [1%nat])].
Proof. repeat split; vm_compute; reflexivity. Qed.

(* three assignments of the same symbol, the middle one goes through the KMiddle branch *)
Example declarative_middle_nonvacuous :
  let p := [SAssign sA (Sym sT1); SAssign sA (Add (Sym sA) (Num 1)); SAssign sA (Mul (Sym sA) (Num 2));
            SAssign sY (Sym sA)] in
  g_no_stale_capture p = true /\
  declarative p = [SAssign sA (Mul (Add (Sym sT1) (Num 1)) (Num 2)); SAssign sY (Sym sA)].
Proof. split; vm_compute; reflexivity. Qed.

Example inline_nonvacuous :
  g_inline_ok [sY] (declarative pheno_prog) = true /\ inlined [sY] (declarative pheno_prog) = [sS1] /\
  length (inline [sY] (declarative pheno_prog)) = 5%nat.
Proof. repeat split; vm_compute; reflexivity. Qed.

Example rename_nonvacuous :
  g_rename_ok [(sT1, sN1); (sETA, sN2); (sV, sT2)] [sOM] pheno_prog = false /\
  g_rename_ok [(sT1, sN1); (sETA, sN2)] [sOM] pheno_prog = true /\
  nth 2 (rename [(sT1, sN1); (sETA, sN2)] pheno_prog) (SOde [] []) =
    SAssign sV (Mul (Sym sTVV) (Fn1 F_EXP (Sym sN2))).
Proof. repeat split; vm_compute; reflexivity. Qed.

(* TH2 fixed to 2, ETA2 ~ N(0, OM2) with OM2 fixed to 0 *)
Definition ex_fixed : list (id * Q) := [(sT2, 2%Q); (sOM2, 0%Q)].
Definition ex_dists : list dist := [mkDist [sETA] [sOM]; mkDist [sETA2] [sOM2]].
Definition ex_prog2 : list stm :=
  pheno_prog ++ [SAssign sC (Add (Sym sY) (Sym sETA2))].

Example cleanup_nonvacuous :
  g_cleanup [sY] ex_fixed ex_dists ex_prog2 = true /\
  zero_map ex_fixed ex_dists = [(sOM2, Num 0); (sETA2, Num 0)] /\
  hd (SOde [] []) (cleanup_stmts [sY] ex_fixed ex_dists ex_prog2) = SAssign sT2 (Num 2) /\
  last (cleanup_stmts [sY] ex_fixed ex_dists ex_prog2) (SOde [] []) = SAssign sC (Add (Sym sY) (Num 0)).
Proof. repeat split; vm_compute; reflexivity. Qed.

Example consts_nonvacuous :
  g_consts_ok (zero_map ex_fixed ex_dists) ex_prog2 = true.
Proof. vm_compute. reflexivity. Qed.

Example obs_expr_nonvacuous :
  let p := [SAssign sF (Mul (Sym sT1) (Sym sW)); SAssign sY (Add (Sym sF) (Mul (Sym sF) (Sym sE1)))] in
  ~ In sY (amounts p) /\
  obs_expr p sY = Some (Add (Mul (Sym sT1) (Sym sW)) (Mul (Mul (Sym sT1) (Sym sW)) (Sym sE1))) /\
  ipred_expr p sY [sE1] = Some (Add (Mul (Sym sT1) (Sym sW)) (Mul (Mul (Sym sT1) (Sym sW)) (Num 0))).
Proof. split; [vm_compute; tauto | split; vm_compute; reflexivity]. Qed.

(* ETA1, ETA2 joint; only ETA1 is used: ETA2 is unjoined and removed together with its omegas *)
Example unused_nonvacuous :
  let symbols := all_ssyms pheno_prog in
  let dists := [DJoint [sETA; sETA2] [[[sOM]; [sN1]]; [[sN1]; [sOM2]]]; DNormal sE1 [sN2]] in
  unused_new_rv_names symbols dists = [sETA; sE1] /\
  unused_new_params symbols dists [] [sT1; sT2; sCOV; sOM; sN1; sOM2; sN2] = [sT1; sT2; sCOV; sOM; sN2].
Proof. split; vm_compute; reflexivity. Qed.

Example fixed_are_thetas_nonvacuous :
  dangling ex_fixed ex_dists = [] /\
  cleanup_params ex_fixed ex_dists [sT1; sT2; sOM; sOM2] = [sT1; sOM] /\
  kept_dists ex_fixed ex_dists = [mkDist [sETA] [sOM]].
Proof. repeat split; vm_compute; reflexivity. Qed.

Example unused_irrelevant_nonvacuous :
  ~ In sOM2 (all_ssyms pheno_prog) /\ In sY (all_ssyms pheno_prog).
Proof. split; vm_compute; [intuition discriminate | tauto]. Qed.

(* the hypotheses of rename_preserves are satisfiable: the renamed environment exists *)
Example rename_env_nonvacuous :
  let d := [(sT1, sN1); (sETA, sN2)] in
  let r := env_of [(sT1, 2); (sETA, 1); (sW, 4)]%Q in
  let r' := env_of [(sN1, 2); (sN2, 1); (sW, 4)]%Q in
  forallb (fun x => oq_eqb (r' (ren d x)) (r x)) (all_ssyms pheno_prog ++ [sOM]) = true.
Proof. vm_compute. reflexivity. Qed.

(* valid models: the two former refuting programs and the pheno-like program *)
Example valid_nonvacuous :
  g_valid [sT1; sT2] stale_prog = true /\ g_valid [sT1; sT2] raw_prog = true /\
  g_valid [sT1; sT2; sW; sCOV; sETA; sE1] pheno_prog = true /\
  g_no_stale_capture pheno_prog = true /\
  (* a program that assigns a parameter is not valid, and there the guard can still fail *)
  g_valid [sT1; sT2] [SAssign sA (Sym sT1); SAssign sA (Add (Sym sA) (Num 1)); SAssign sT1 (Num 3);
                      SAssign sB (Sym sA); SAssign sA (Num 0)] = false.
Proof. repeat split; vm_compute; reflexivity. Qed.

(* mu_reference_model on TVCL = TH1*W ; CL = TVCL*exp(ETA) ; Y = CL + CL*E1 with sympy's answer for statement 1 *)
Definition sMU1 : id := 40%positive.
Definition mu_prog : list stm :=
  [SAssign sTVV (Mul (Sym sT1) (Sym sW)); SAssign sV (Mul (Sym sTVV) (Fn1 F_EXP (Sym sETA)));
   SAssign sY (Add (Sym sV) (Mul (Sym sV) (Sym sE1)))].
Definition mu_table : list (nat * (expr * expr)) :=
  [(1%nat, (Fn1 F_LOG (Sym sTVV), Fn1 F_EXP (Add (Sym sMU1) (Sym sETA))))].
Example mu_reference_nonvacuous :
  find_eta_assignments [sETA] mu_prog = [1%nat] /\
  mu_reference [(sETA, sMU1)] mu_table mu_prog =
    Some [SAssign sTVV (Mul (Sym sT1) (Sym sW)); SAssign sMU1 (Fn1 F_LOG (Sym sTVV));
          SAssign sV (Fn1 F_EXP (Add (Sym sMU1) (Sym sETA))); SAssign sY (Add (Sym sV) (Mul (Sym sV) (Sym sE1)))] /\
  g_mu_fresh [(sETA, sMU1)] mu_table [1%nat] mu_prog = true /\
  inserted_mus [(sETA, sMU1)] mu_table [1%nat] mu_prog 0 = [sMU1] /\
  (* in the exact interpretation at T1 = 2, W = 4, ETA = 1: mu = 3 is defined and V = 16 before and after *)
  sexec std_fi std_ode (env_of [(sT1, 2); (sW, 4); (sETA, 1); (sE1, 0)]%Q) mu_prog sV = Some 16%Q /\
  match mu_reference [(sETA, sMU1)] mu_table mu_prog with
  | Some out => sexec std_fi std_ode (env_of [(sT1, 2); (sW, 4); (sETA, 1); (sE1, 0)]%Q) out sV = Some 16%Q /\
                sexec std_fi std_ode (env_of [(sT1, 2); (sW, 4); (sETA, 1); (sE1, 0)]%Q) out sMU1 = Some 3%Q
  | None => False end /\
  (* a statement with two etas, or one that depends on another eta-parameter, is not selected *)
  find_eta_assignments [sETA; sETA2]
    [SAssign sV (Mul (Sym sT1) (Fn1 F_EXP (Sym sETA))); SAssign sS1 (Mul (Sym sV) (Fn1 F_EXP (Sym sETA2)))] = [0%nat].
Proof. repeat split; vm_compute; reflexivity. Qed.

(* greekify's table for thetas [T1; T2], covariance matrix diag(OM, OM2, N2 (sigma)), etas [ETA; ETA2], eps [E1]:
   the omegas end up with the sigma_<r><c> names (the second loop of the code overwrites the first) *)
Example greek_table_nonvacuous :
  let tn := fun i => Pos.of_nat (100 + i) in let en := fun i => Pos.of_nat (200 + i) in
  let pn := fun i => Pos.of_nat (300 + i) in
  let on := fun r c => Pos.of_nat (400 + 10 * r + c) in let sn := fun r c => Pos.of_nat (500 + 10 * r + c) in
  let d := greek_table tn en pn on sn [sT1; sT2] [(1, 1, sOM); (2, 2, sOM2); (3, 3, sN2)]%nat [sETA; sETA2] [sE1] in
  ren d sT2 = 102%positive /\ ren d sOM = 511%positive /\ ren d sN2 = 533%positive /\ ren d sETA2 = 202%positive /\
  ren d sE1 = 301%positive /\ ren d sW = sW /\
  g_rename_ok d [sOM; sOM2; sN2] pheno_prog = true.
Proof. repeat split; vm_compute; reflexivity. Qed.

(* ETA, ETA2 joint with covariance N1: splitting ETA2 off gives two normal distributions and drops N1 only *)
Example split_joint_nonvacuous :
  let m := mkPM pheno_prog [(sT1, 1%Q, false); (sOM, (1#10)%Q, false); (sN1, (1#100)%Q, false); (sOM2, (1#10)%Q, false)]
                [DJoint [sETA; sETA2] [[[sOM]; [sN1]]; [[sN1]; [sOM2]]]; DNormal sE1 [sN2]] [sY] 1%positive in
  pm_rvs (split_joint [sETA2] m) = [DNormal sETA2 [sOM2]; DNormal sETA [sOM]; DNormal sE1 [sN2]] /\
  map (fun p => fst (fst p)) (pm_params (split_joint [sETA2] m)) = [sT1; sOM; sOM2] /\
  same_structure m (mkPM pheno_prog (pm_params m ++ [(sN2, 0%Q, false)]) (rev (pm_rvs m)) [sY] 1%positive) = true.
Proof. repeat split; vm_compute; reflexivity. Qed.

(* a 3x3 block from which the middle eta is unjoined: a 2x2 block of the outer two remains (sub-matrix), and every
   random variable keeps its variance *)
Example unjoin_rv_vars_nonvacuous :
  let ds := [DJoint [sETA; sETA2; sE1] [[[sOM]; [sN1]; [sN2]]; [[sN1]; [sOM2]; [sT1]]; [[sN2]; [sT1]; [sT2]]]] in
  unjoin [sETA2] ds = [DNormal sETA2 [sOM2]; DJoint [sETA; sE1] [[[sOM]; [sN2]]; [[sN2]; [sT2]]]] /\
  flat_map rv_vars ds = [(sETA, [sOM]); (sETA2, [sOM2]); (sE1, [sT2])] /\
  flat_map rv_vars (unjoin [sETA2] ds) = [(sETA2, [sOM2]); (sETA, [sOM]); (sE1, [sT2])].
Proof. repeat split; vm_compute; reflexivity. Qed.

(* a 3x3 block of which only the middle eta is used: the outer two are unjoined and removed, the used one stays *)
Example unused_keeps_used_nonvacuous :
  let ds := [DJoint [sETA2; sETA; sE1] [[[sOM2]; [sN1]; [sN2]]; [[sN1]; [sOM]; [sT2]]; [[sN2]; [sT2]; [sCOV]]]] in
  In sETA (flat_map rdist_names ds) /\ In sETA (all_ssyms pheno_prog) /\
  unused_new_rv_names (all_ssyms pheno_prog) ds = [sETA; sE1] /\
  to_unjoin (all_ssyms pheno_prog) ds = [sETA2].
Proof. repeat split; vm_compute; tauto. Qed.
