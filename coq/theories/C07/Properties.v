(* PV.C07.Properties — the property theorems of C07 and nothing else.
   Everywhere: [fi] is an arbitrary interpretation of the function symbols (exp, log, ...), [ode] an
   arbitrary solver (every amount is an arbitrary function of the values of the expressions the
   compartmental system is built from), [r] an arbitrary environment (parameter values, etas,
   epsilons, covariates, time; undefined symbols allowed), programs are arbitrary statement lists
   (reassignments, self references, piecewise, systems anywhere). *)
From Coq Require Import QArith List Bool PArith Arith Permutation.
From PV Require Import Base.PyData Base.Expr Base.Interp Base.Stmts C07.Model C07.Proofs.

(* make_declarative leaves the final value of EVERY symbol unchanged on EVERY valid model (g_valid: every
   symbol is a parameter / rv / column or defined before it is read, no statement assigns a parameter / rv /
   column, amounts are defined by their system).  No guard about the program's shape: the stale-capture
   defect (finding C07-DECL-STALE-CAPTURE) is fixed in /repo (0e1c190). *)
Theorem declarative_preserves :
  forall (known : list id) (l : list stm), g_valid known l = true ->
  forall (fi : finterp) (ode : id -> list (option Q) -> option Q) (r : env) (x : id),
    sexec fi ode r (declarative l) x = sexec fi ode r l x.
Proof. exact declarative_correct_lemma. Qed.

(* ... and on arbitrary programs (also ones that assign parameters or read symbols before their definition)
   whenever no pending expression is substituted after a symbol it mentions was re-assigned. *)
Theorem declarative_preserves_general :
  forall (l : list stm), g_no_stale_capture l = true ->
  forall (fi : finterp) (ode : id -> list (option Q) -> option Q) (r : env) (x : id),
    sexec fi ode r (declarative l) x = sexec fi ode r l x.
Proof. intros l H fi ode. exact (declarative_preserves_lemma fi ode l H). Qed.

Theorem valid_no_stale_capture :
  forall (known : list id) (l : list stm), g_valid known l = true -> g_no_stale_capture l = true.
Proof. exact guard_on_valid. Qed.

(* The bookkeeping of make_declarative is consistent for EVERY program: the table of duplicate
   indices built by the first loop drives the second loop so that `current` is empty at the end (every
   pending expression is emitted by the last assignment of its symbol; `del current[...]` never
   raises KeyError). *)
Theorem declarative_table_consistent :
  forall (l : list stm), decl_final_gen true l 0 nil (dup_table l) = nil.
Proof. exact (decl_final_empty true). Qed.

(* cleanup_model's inlining loop leaves every symbol except the removed aliases unchanged, provided
   nothing an alias involves is reassigned while it is pending (g_inline_ok; chains of aliases need no
   side condition since 185d1d3). *)
Theorem inline_preserves :
  forall (dvs : list id) (l : list stm), g_inline_ok dvs l = true ->
  forall (fi : finterp) (ode : id -> list (option Q) -> option Q) (r : env) (x : id),
    ~ In x (inlined dvs l) -> sexec fi ode r (inline dvs l) x = sexec fi ode r l x.
Proof. intros dvs l H fi ode. exact (inline_preserves_lemma fi ode dvs l H). Qed.

(* a dependent variable is never one of the removed aliases (b7852b9) *)
Theorem inlined_never_dv :
  forall (dvs : list id) (l : list stm) (x : id), In x dvs -> ~ In x (inlined dvs l).
Proof. exact inlined_not_dv. Qed.

(* ... and the value of a removed alias is the value of the symbol it was replaced by. *)
Theorem inline_alias_value :
  forall (dvs : list id) (l : list stm), g_inline_ok dvs l = true ->
  forall (fi : finterp) (ode : id -> list (option Q) -> option Q) (r : env) (x : id),
    sexec fi ode r l x = upd_map (sexec fi ode r (inline dvs l)) fi (inline_final dvs l nil) x.
Proof.
  intros dvs l H fi ode r x. unfold inline. apply inline_alias_lemma; [exact H|]. intros y. reflexivity.
Qed.

(* rename_symbols with a renaming that is injective on the names of the model (the documented "make
   sure that no name clash occur") commutes with execution: the renamed program run in the renamed
   environment gives every symbol's new name the value the old name had. *)
Theorem rename_preserves :
  forall (d : list (id * id)) (extra : list id) (l : list stm), g_rename_ok d extra l = true ->
  forall (fi : finterp) (ode : id -> list (option Q) -> option Q) (r r' : env),
    (forall x, In x (all_ssyms l ++ extra) -> r' (ren d x) = r x) ->
    forall x, In x (all_ssyms l ++ extra) ->
      sexec fi ode r' (rename d l) (ren d x) = sexec fi ode r l x.
Proof. intros d extra l H fi ode. exact (rename_preserves_lemma fi ode d extra l H). Qed.

(* greekify_model = rename_symbols with Model.greek_table.  A renaming whose targets are pairwise different and
   are not names of the model (what theta_<i>, sigma_<r><c>, eta_<i>, epsilon_<i> are for a model that does not
   already use such names) is injective on the model's names, hence commutes with execution: for every table,
   program, interpretation, solver oracle, environment. *)
Theorem rename_fresh_injective :
  forall (d : list (id * id)) (S : list id),
    NoDup (map snd d) -> (forall t, In t (map snd d) -> ~ In t S) ->
    forall x y, In x S -> In y S -> ren d x = ren d y -> x = y.
Proof. exact ren_fresh_injective. Qed.

Theorem rename_fresh_preserves :
  forall (fi : finterp) (ode : id -> list (option Q) -> option Q) (d : list (id * id)) (S : list id) (l : list stm),
    NoDup (map snd d) -> (forall t, In t (map snd d) -> ~ In t S) ->
    (forall x, In x (all_ssyms l) -> In x S) ->
    amounts_unrenamed d l = true ->
    forall r r', (forall x, In x S -> r' (ren d x) = r x) ->
    forall x, In x S -> sexec fi ode r' (rename d l) (ren d x) = sexec fi ode r l x.
Proof. exact rename_fresh_preserves_lemma. Qed.

(* statements.subs(d) with constants (replace_non_random_rvs: etas and omegas of a distribution fixed
   to zero become 0) changes no value when the substituted symbols already have these values. *)
Theorem consts_preserve :
  forall (m : list (id * expr)) (l : list stm), g_consts_ok m l = true ->
  forall (fi : finterp) (ode : id -> list (option Q) -> option Q) (r : env),
    (forall k t, In (k, t) m -> eval r fi t = r k) ->
    forall x, sexec fi ode r (map (subs_stm m) l) x = sexec fi ode r l x.
Proof. intros m l H fi ode r. exact (consts_preserves_lemma fi ode m l r H). Qed.

(* replace_fixed_thetas: prepending `theta = init` changes nothing at parameter vectors that have
   the fixed thetas at their fixed value (no side condition on the program). *)
Theorem replace_fixed_preserves :
  forall (fx : list (id * Q)) (l : list stm) (fi : finterp) (ode : id -> list (option Q) -> option Q) (r : env),
    (forall th q, In (th, q) fx -> r th = Some q) ->
    forall x, sexec fi ode r (replace_fixed fx l) x = sexec fi ode r l x.
Proof. intros fx l fi ode r. exact (replace_fixed_lemma fi ode fx l r). Qed.

(* cleanup_model as a whole. *)
Theorem cleanup_preserves :
  forall (dvs : list id) (fixed : list (id * Q)) (dists : list dist) (l : list stm),
    g_cleanup dvs fixed dists l = true ->
  forall (fi : finterp) (ode : id -> list (option Q) -> option Q) (r : env),
    (forall th q, In (th, q) fixed -> r th = Some q) ->
    (forall k, In k (akeys (zero_map fixed dists)) -> r k = Some 0%Q) ->
    forall x, ~ In x (inlined dvs (declarative l)) ->
      sexec fi ode r (cleanup_stmts dvs fixed dists l) x = sexec fi ode r l x.
Proof. intros dvs fixed dists l H fi ode. exact (cleanup_preserves_lemma fi ode dvs fixed dists l H). Qed.

(* ... in particular every dependent variable keeps its value, with no side condition about it (the
   hypothesis `~ In x (inlined ...)` above is only about auxiliary aliases like S1 = VC). *)
Theorem cleanup_preserves_dv :
  forall (dvs : list id) (fixed : list (id * Q)) (dists : list dist) (l : list stm),
    g_cleanup dvs fixed dists l = true ->
  forall (fi : finterp) (ode : id -> list (option Q) -> option Q) (r : env),
    (forall th q, In (th, q) fixed -> r th = Some q) ->
    (forall k, In k (akeys (zero_map fixed dists)) -> r k = Some 0%Q) ->
    forall dv, In dv dvs -> sexec fi ode r (cleanup_stmts dvs fixed dists l) dv = sexec fi ode r l dv.
Proof. intros dvs fixed dists l H fi ode. exact (cleanup_preserves_dv_lemma fi ode dvs fixed dists l H). Qed.

(* cleanup_model's parameter set: exactly the parameters that replace_non_random_rvs does not remove
   and replace_fixed_thetas does not replace ... *)
Theorem cleanup_params_spec :
  forall (fixed : list (id * Q)) (dists : list dist) (params : list id) (p : id),
    In p (cleanup_params fixed dists params) <-> In p params /\ ~ In p (removed_params fixed dists) /\
                                                 ~ In p (akeys (fixed_after fixed dists)).
Proof. exact cleanup_params_exact. Qed.

(* ... and replace_fixed_thetas never removes a parameter that a remaining distribution uses (no guard since
   142d5a3; the hypothesis excludes only a zero-fixed parameter shared with a REMOVED distribution, which
   replace_non_random_rvs removes). *)
Theorem cleanup_keeps_rv_params :
  forall (fixed : list (id * Q)) (dists : list dist) (params : list id) (p : id),
    In p (flat_map d_params (kept_dists fixed dists)) -> In p params ->
    ~ In p (removed_params fixed dists) ->
    In p (cleanup_params fixed dists params).
Proof. exact cleanup_keeps_rv_params_lemma. Qed.

(* remove_unused_parameters_and_rvs: a parameter is kept iff a statement mentions it, a kept
   distribution mentions it, or it is fixed to zero ... *)
Theorem unused_removed_exact :
  forall (symbols : list id) (dists : list rdist) (fixed : list (id * Q)) (params : list id) (p : id),
    In p (unused_new_params symbols dists fixed params) <->
    In p params /\ (In p symbols \/ In p (flat_map rdist_syms (unused_new_dists symbols dists))
                    \/ is_fixed_zero fixed p = true).
Proof. exact unused_params_exact. Qed.

(* ... a one-dimensional distribution is kept only if a statement mentions its rv or its variance ... *)
Theorem unused_normal_kept_used :
  forall (symbols : list id) (dists : list rdist) (n : id) (v : list id),
    In (DNormal n v) (unused_new_dists symbols dists) -> exists x, In x (n :: v) /\ In x symbols.
Proof. exact unused_dists_normal_used. Qed.

(* ... remove_unused_parameters_and_rvs never removes anything a statement mentions: a random variable (through
   to_unjoin / unjoin / the filter on one-dimensional distributions) or a parameter whose symbol occurs in the
   statements stays, and no random variable is invented — for every symbol set, collection of distributions (any
   block sizes), fixed-parameter table and parameter list. *)
Theorem unused_keeps_used_rvs :
  forall (symbols : list id) (dists : list rdist) (n : id),
    In n (flat_map rdist_names dists) -> In n symbols -> In n (unused_new_rv_names symbols dists).
Proof. exact unused_keeps_used_rvs_lemma. Qed.

Theorem unused_rvs_not_invented :
  forall (symbols : list id) (dists : list rdist) (n : id),
    In n (unused_new_rv_names symbols dists) -> In n (flat_map rdist_names dists).
Proof. exact unused_rvs_sub. Qed.

Theorem unused_keeps_used_params :
  forall (symbols : list id) (dists : list rdist) (fixed : list (id * Q)) (params : list id) (p : id),
    In p params -> In p symbols -> In p (unused_new_params symbols dists fixed params).
Proof. intros. apply unused_params_exact. tauto. Qed.

(* ... and a symbol that no statement mentions cannot influence any symbol of the program: removing
   it does not change the model function. *)
Theorem unused_removed_irrelevant :
  forall (fi : finterp) (ode : id -> list (option Q) -> option Q) (l : list stm) (p : id) (q : option Q) (r : env),
    ~ In p (all_ssyms l) -> forall x, In x (all_ssyms l) ->
    sexec fi ode (upd r p q) l x = sexec fi ode r l x.
Proof. exact unused_irrelevant. Qed.

(* get_observation_expression evaluates to the value execution gives the dependent variable — for every
   program on which it answers, however often the dependent variable is assigned (df3152c).  The only
   hypothesis is representational: the dependent variable is a symbol, not a compartment amount A_x(t). *)
Theorem obs_expr_sound :
  forall (fi : finterp) (ode : id -> list (option Q) -> option Q) (l : list stm) (dv : id) (y : expr) (r : env),
    obs_expr l dv = Some y -> ~ In dv (amounts l) -> eval r fi y = sexec fi ode r l dv.
Proof. exact obs_expr_sound_lemma. Qed.

(* get_individual_prediction_expression: the observation at epsilon = 0 *)
Theorem ipred_expr_sound :
  forall (fi : finterp) (ode : id -> list (option Q) -> option Q) (l : list stm) (dv : id) (epss : list id)
         (y : expr) (r : env),
    ipred_expr l dv epss = Some y -> ~ In dv (amounts l) ->
    eval r fi y = sexec fi ode (upd_map r fi (zeros epss)) l dv.
Proof. exact ipred_expr_sound_lemma. Qed.

(* mu_reference_model.  [etas]: the etas of the model with their symbols mu_<index>; [table]: for every
   rewritten statement what sympy answered (mu_expr, new_def) — sympy's as_independent / solve are engines.
   Whenever every answer solves its equation (new_def[mu := mu_expr] = old_def wherever mu_expr is defined), the
   inserted mu symbols are fresh and evaluate to defined values, the statement list that the selection
   (_find_eta_assignments), skip ("mu already used") and insertion logic produces gives EVERY symbol of the
   original program its original value: all programs, tables, interpretations, solver oracles, environments. *)
Theorem mu_reference_preserves :
  forall (fi : finterp) (ode : id -> list (option Q) -> option Q) (etas : list (id * id))
         (table : list (nat * (expr * expr))) (l out : list stm),
    mu_reference etas table l = Some out ->
    let sel := find_eta_assignments (map fst etas) l in
    g_mu_fresh etas table sel l = true ->
    (forall j p old mu m new, nth_error l j = Some (SAssign p old) ->
        mu_action etas table sel j (SAssign p old) = MRewrite mu m p new -> forall r0, sol_at fi mu m new old r0) ->
    forall r, mu_run_ok fi ode etas table sel l 0 r ->
    forall x, ~ In x (inserted_mus etas table sel l 0) -> sexec fi ode r out x = sexec fi ode r l x.
Proof. exact mu_reference_preserves_lemma. Qed.

(* the additive form  P = T + eta  ->  mu = T ; P = mu + eta  solves its equation in every interpretation *)
Theorem mu_additive_form_sol :
  forall (fi : finterp) (T : expr) (eta mu : id) (r : env), mu <> eta ->
    sol_at fi mu T (Add (Sym mu) (Sym eta)) (Add T (Sym eta)) r.
Proof. exact additive_sol. Qed.

(* the exponential form  P = T * exp(eta)  ->  mu = log(T) ; P = exp(mu + eta)  solves its equation in every
   interpretation where exp(log t + e) = t * exp(e) wherever log t is defined *)
Theorem mu_exponential_form_sol :
  forall (fi : finterp) (T : expr) (eta mu : id) (r : env), mu <> eta -> exp_log_law fi ->
    sol_at fi mu (Fn1 F_LOG T) (Fn1 F_EXP (Add (Sym mu) (Sym eta))) (Mul T (Fn1 F_EXP (Sym eta))) r.
Proof. exact exponential_sol. Qed.

(* convert_model to generic and back to NONMEM passes statements, parameters, random variables, dependent
   variables and the value type on unchanged (Model.convert_generic / convert_nonmem mirror the two constructors; that update_source
   does not touch them is what the correspondence checks), so the model function is the same: every model,
   interpretation, solver oracle, environment, symbol. *)
Theorem convert_roundtrip_identity : forall (m : pmodel), convert_nonmem (convert_generic m) = m.
Proof. exact convert_roundtrip_id. Qed.

Theorem convert_roundtrip_preserves :
  forall (fi : finterp) (ode : id -> list (option Q) -> option Q) (m : pmodel) (r : env) (x : id),
    sexec fi ode r (pm_stmts (convert_nonmem (convert_generic m))) x = sexec fi ode r (pm_stmts m) x.
Proof. exact convert_roundtrip_lemma. Qed.

(* split_joint_distribution changes only the random variables (unjoin) and drops parameters: the structural
   model function (statements, dependent variables) is unchanged, no parameter is invented, and a parameter is
   dropped only if the random variables mentioned it before and do not mention it any more. *)
Theorem split_joint_preserves_function :
  forall (fi : finterp) (ode : id -> list (option Q) -> option Q) (inds : list id) (m : pmodel) (r : env) (x : id),
    sexec fi ode r (pm_stmts (split_joint inds m)) x = sexec fi ode r (pm_stmts m) x /\
    pm_dvs (split_joint inds m) = pm_dvs m /\
    pm_value_type (split_joint inds m) = pm_value_type m.
Proof. intros. repeat split; reflexivity. Qed.

Theorem split_joint_parameters :
  forall (inds : list id) (m : pmodel) (p : id * Q * bool),
    (In p (pm_params (split_joint inds m)) -> In p (pm_params m)) /\
    (In p (pm_params m) ->
     (In (fst (fst p)) (flat_map rdist_params (unjoin inds (pm_rvs m))) \/
      ~ In (fst (fst p)) (flat_map rdist_params (pm_rvs m))) ->
     In p (pm_params (split_joint inds m))).
Proof. intros. split; [apply split_joint_params_sub | apply split_joint_params_kept]. Qed.

(* RandomVariables.unjoin keeps the random variables: for every list of names to unjoin and every collection of
   distributions (any sizes, also ill-formed matrices), the names after unjoin are a permutation of the names
   before (same set, same multiplicities), and so are the pairs (name, symbols of its variance): every random
   variable keeps its variance parameter (the diagonal entry of its block). *)
Theorem unjoin_preserves_rv_names :
  forall (inds : list id) (ds : list rdist),
    Permutation (flat_map rdist_names (unjoin inds ds)) (flat_map rdist_names ds).
Proof. exact unjoin_names_perm. Qed.

Theorem unjoin_preserves_rv_variances :
  forall (inds : list id) (ds : list rdist),
    Permutation (flat_map rv_vars (unjoin inds ds)) (flat_map rv_vars ds).
Proof. exact unjoin_vars_perm. Qed.

(* hence split_joint_distribution changes neither the model function (split_joint_preserves_function) nor which
   random variables exist and what their variances are *)
Theorem split_joint_keeps_random_variables :
  forall (inds : list id) (m : pmodel),
    Permutation (flat_map rdist_names (pm_rvs (split_joint inds m))) (flat_map rdist_names (pm_rvs m)) /\
    Permutation (flat_map rv_vars (pm_rvs (split_joint inds m))) (flat_map rv_vars (pm_rvs m)).
Proof. intros. split; [apply unjoin_names_perm | apply unjoin_vars_perm]. Qed.

(* the statement type of this model extends Base.Stmts: same semantics on embedded programs *)
Theorem sexec_embeds_base :
  forall (fi : finterp) (ode : id -> list (option Q) -> option Q) (l : list stmt) (r : env),
    sexec fi ode r (map of_stmt l) = exec fi ode r l.
Proof. exact sexec_of_stmt. Qed.
