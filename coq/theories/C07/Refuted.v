(* PV.C07.Refuted — counter-models: one per guard conjunct that exists because the CODE fails.
   Every witness was reproduced on the real pharmpy functions (known_findings.d/C07.json). *)
From Coq Require Import QArith List Bool PArith Arith.
From PV Require Import Base.PyData Base.Expr Base.Interp Base.Stmts C07.Model.
Import ListNotations.

Definition sA : id := 1%positive. Definition sB : id := 2%positive. Definition sC : id := 3%positive.
Definition sY : id := 4%positive. Definition sT1 : id := 5%positive. Definition sT2 : id := 6%positive.
Definition sV : id := 7%positive. Definition sS1 : id := 8%positive. Definition sW : id := 9%positive.
Definition sF : id := 10%positive. Definition sE1 : id := 11%positive. Definition sVC : id := 12%positive.

(* B = TH1; A = B; B = TH2; C = A; A = 5; Y = A + B + C *)
Definition stale_prog : list stm :=
  [SAssign sB (Sym sT1); SAssign sA (Sym sB); SAssign sB (Sym sT2); SAssign sC (Sym sA);
   SAssign sA (Num 5); SAssign sY (Add (Add (Sym sA) (Sym sB)) (Sym sC))].
Definition stale_env : env := env_of [(sT1, 1); (sT2, 2)]%Q.

Example stale_result :
  declarative stale_prog =
  [SAssign sB (Sym sT2); SAssign sC (Sym sB); SAssign sA (Num 5);
   SAssign sY (Add (Add (Sym sA) (Sym sB)) (Sym sC))].
Proof. vm_compute. reflexivity. Qed.

(* make_declarative changes Y from TH1 + TH2 + 5 to 2 TH2 + 5 *)
Theorem declarative_refuted :
  exists l, g_no_stale_capture l = false /\
            ~ (forall fi ode r x, sexec fi ode r (declarative l) x = sexec fi ode r l x).
Proof.
  exists stale_prog. split; [vm_compute; reflexivity|].
  intro H. specialize (H std_fi std_ode stale_env sY). vm_compute in H. discriminate.
Qed.

(* the raw first-occurrence capture: A = TH1; B = A; A = TH2; B = B + 1; Y = B gives TH2 + 1 *)
Definition raw_prog : list stm :=
  [SAssign sA (Sym sT1); SAssign sB (Sym sA); SAssign sA (Sym sT2); SAssign sB (Add (Sym sB) (Num 1));
   SAssign sY (Sym sB)].
Theorem declarative_raw_capture_refuted :
  g_no_stale_capture raw_prog = false /\
  sexec std_fi std_ode stale_env raw_prog sY = Some 2%Q /\
  sexec std_fi std_ode stale_env (declarative raw_prog) sY = Some 3%Q.
Proof. repeat split; vm_compute; reflexivity. Qed.

(* VC = TH1*2; V = VC; S1 = V; Y = W / S1 : the inlining loop turns Y into W / V and drops V *)
Definition chain_prog : list stm :=
  [SAssign sVC (Mul (Sym sT1) (Num 2)); SAssign sV (Sym sVC); SAssign sS1 (Sym sV);
   SAssign sY (Div (Sym sW) (Sym sS1))].
Definition chain_known : list id := [sT1; sT2; sW; sE1].

Theorem inline_chain_refuted :
  exists l, g_no_alias_chain l = false /\
            ~ (forall fi ode r x, ~ In x (inlined l) -> sexec fi ode r (inline l) x = sexec fi ode r l x).
Proof.
  exists chain_prog. split; [vm_compute; reflexivity|].
  intro H. specialize (H std_fi std_ode (env_of [(sT1, 1); (sW, 4)]%Q) sY).
  assert (Hn : ~ In sY (inlined chain_prog)).
  { vm_compute. intros [E|[E|[]]]; discriminate. }
  specialize (H Hn). vm_compute in H. discriminate.
Qed.

(* ... which Model.replace then refuses: cleanup_model raises ValueError on a valid model *)
Theorem cleanup_chain_raises :
  canon_ok chain_known chain_prog = true /\ g_no_stale_capture chain_prog = true /\
  g_no_alias_chain (declarative chain_prog) = false /\
  cleanup_m chain_known [] [] chain_prog = RValueError.
Proof. repeat split; vm_compute; reflexivity. Qed.

(* F = TH1 * W; Y = F : the dependent variable is a pure alias and its definition disappears *)
Definition dropdv_prog : list stm := [SAssign sF (Mul (Sym sT1) (Sym sW)); SAssign sY (Sym sF)].
Theorem cleanup_drops_dv_refuted :
  exists l dv, g_dv_not_alias [dv] (declarative l) = false /\
               cleanup_m chain_known [] [] l = ROk (cleanup_stmts [] [] l) /\
               In dv (all_sdefs l) /\ ~ In dv (all_sdefs (cleanup_stmts [] [] l)) /\
               ~ (forall fi ode r, sexec fi ode r (cleanup_stmts [] [] l) dv = sexec fi ode r l dv).
Proof.
  exists dropdv_prog, sY. repeat split; try (vm_compute; tauto).
  - vm_compute. intros [E|[]]. discriminate.
  - intro H. specialize (H std_fi std_ode (env_of [(sT1, 1); (sW, 4)]%Q)). vm_compute in H. discriminate.
Qed.

(* Y = TH1 + E1; Y = Piecewise((TH2 + E1, W > 5), (Y, True)) : the extractor reads the FIRST assignment *)
Definition twoy_prog : list stm :=
  [SAssign sY (Add (Sym sT1) (Sym sE1));
   SAssign sY (PwCons (CRel OGt (Sym sW) (Num 5)) (Add (Sym sT2) (Sym sE1)) (PwCons CTrue (Sym sY) PwNil))].
Theorem obs_expr_refuted :
  exists l dv y, g_dv_single l dv = false /\ obs_expr l dv = Some y /\
                 ~ (forall fi ode r, eval r fi y = sexec fi ode r l dv).
Proof.
  exists twoy_prog, sY, (Add (Sym sT1) (Sym sE1)). repeat split; try (vm_compute; reflexivity).
  intro H. specialize (H std_fi std_ode (env_of [(sT1, 1); (sT2, 2); (sE1, 0); (sW, 8)]%Q)).
  vm_compute in H. discriminate.
Qed.

(* EPS1 ~ N(0, SI1) with SI1 fixed to 1: replace_fixed_thetas removes the parameter SI1 although the
   distribution of EPS1 still uses it *)
Definition sSI : id := 13%positive.
Theorem replace_fixed_dangling_refuted :
  exists fixed dists params p,
    g_fixed_are_thetas fixed dists = false /\
    In p (flat_map d_params (kept_dists fixed dists)) /\ In p params /\
    ~ In p (cleanup_params fixed dists params).
Proof.
  exists [(sSI, 1%Q)], [mkDist [sE1] [sSI]], [sT1; sSI], sSI. repeat split; try (vm_compute; tauto).
  vm_compute. intros [E|[]]. discriminate.
Qed.

(* a fixed entry of a block: Model.replace cannot validate the covariance matrix any more (TypeError) *)
Example cleanup_block_internal_error :
  cleanup_m chain_known [(sSI, (1#2)%Q)] [mkDist [sE1; sW] [sSI; sVC]] dropdv_prog = RInternal.
Proof. vm_compute. reflexivity. Qed.
