(* PV.C07.Refuted — counter-models: one per guard conjunct that exists because the CODE fails, and regression
   `Example`s of the repaired behaviour for the findings that were fixed in /repo
   (C07-DECL-STALE-CAPTURE 0e1c190, C07-CLEANUP-ALIAS-CHAIN 185d1d3, C07-OBS-EXPR-FIRST-ASSIGNMENT df3152c,
   C07-FIXED-THETAS-REMOVES-OMEGAS 142d5a3, C07-CLEANUP-DROPS-DV b7852b9).  Refuted: mu_reference_piecewise_refuted. *)
From Coq Require Import QArith List Bool PArith Arith.
From PV Require Import Base.PyData Base.Expr Base.Interp Base.Stmts C07.Model.
Import ListNotations.

Definition sA : id := 1%positive. Definition sB : id := 2%positive. Definition sC : id := 3%positive.
Definition sY : id := 4%positive. Definition sT1 : id := 5%positive. Definition sT2 : id := 6%positive.
Definition sV : id := 7%positive. Definition sS1 : id := 8%positive. Definition sW : id := 9%positive.
Definition sF : id := 10%positive. Definition sE1 : id := 11%positive. Definition sVC : id := 12%positive.

(* B = TH1; A = B; B = TH2; C = A; A = 5; Y = A + B + C *)
Definition stale_prog : list stm :=
  [SAssign sB (Sym sT1); SAssign sA (Sym sB); SAssign sB (Sym sT2); SAssign sC (Sym sA);
   SAssign sA (Num 5); SAssign sY (Add (Add (Sym sA) (Sym sB)) (Sym sC))].
Definition stale_env : env := env_of [(sT1, 1); (sT2, 2)]%Q.

(* formerly `B=TH2; C=B; A=5; Y=...` (Y = 2 TH2 + 5): C now keeps the value TH1 *)
Example stale_fixed :
  declarative stale_prog =
  [SAssign sB (Sym sT2); SAssign sC (Sym sT1); SAssign sA (Num 5);
   SAssign sY (Add (Add (Sym sA) (Sym sB)) (Sym sC))] /\
  g_no_stale_capture stale_prog = true /\
  sexec std_fi std_ode stale_env (declarative stale_prog) sY = sexec std_fi std_ode stale_env stale_prog sY /\
  sexec std_fi std_ode stale_env stale_prog sY = Some 8%Q.
Proof. repeat split; vm_compute; reflexivity. Qed.

(* the code before the fix on the same program (kept as Model.declarative_before_fix) *)
Example stale_before_fix :
  g_no_stale_capture_before_fix stale_prog = false /\
  sexec std_fi std_ode stale_env (declarative_before_fix stale_prog) sY = Some 9%Q.
Proof. split; vm_compute; reflexivity. Qed.

(* the raw first-occurrence capture: A = TH1; B = A; A = TH2; B = B + 1; Y = B gave TH2 + 1, now TH1 + 1 *)
Definition raw_prog : list stm :=
  [SAssign sA (Sym sT1); SAssign sB (Sym sA); SAssign sA (Sym sT2); SAssign sB (Add (Sym sB) (Num 1));
   SAssign sY (Sym sB)].
Example raw_capture_fixed :
  g_no_stale_capture raw_prog = true /\
  sexec std_fi std_ode stale_env raw_prog sY = Some 2%Q /\
  sexec std_fi std_ode stale_env (declarative raw_prog) sY = Some 2%Q /\
  sexec std_fi std_ode stale_env (declarative_before_fix raw_prog) sY = Some 3%Q.
Proof. repeat split; vm_compute; reflexivity. Qed.

(* VC = TH1*2; V = VC; S1 = V; Y = W / S1 : formerly Y = W / V with V removed (ValueError "Symbol V is not
   defined"); now S1 is resolved to VC *)
Definition chain_prog : list stm :=
  [SAssign sVC (Mul (Sym sT1) (Num 2)); SAssign sV (Sym sVC); SAssign sS1 (Sym sV);
   SAssign sY (Div (Sym sW) (Sym sS1))].
Definition chain_known : list id := [sT1; sT2; sW; sE1].

Example alias_chain_fixed :
  g_inline_ok [sY] chain_prog = true /\
  inline [sY] chain_prog = [SAssign sVC (Mul (Sym sT1) (Num 2)); SAssign sY (Div (Sym sW) (Sym sVC))] /\
  cleanup_m chain_known [sY] [] [] chain_prog = ROk (cleanup_stmts [sY] [] [] chain_prog) /\
  sexec std_fi std_ode (env_of [(sT1, 1); (sW, 4)]%Q) (cleanup_stmts [sY] [] [] chain_prog) sY = Some 2%Q /\
  sexec std_fi std_ode (env_of [(sT1, 1); (sW, 4)]%Q) chain_prog sY = Some 2%Q.
Proof. repeat split; vm_compute; reflexivity. Qed.

(* F = TH1 * W; Y = F : the dependent variable is a pure alias and its definition disappears *)
Definition dropdv_prog : list stm := [SAssign sF (Mul (Sym sT1) (Sym sW)); SAssign sY (Sym sF)].
(* formerly the cleaned statements were `F = TH1 * W` only; now `Y = F` stays *)
Example cleanup_keeps_dv :
  cleanup_m chain_known [sY] [] [] dropdv_prog = ROk dropdv_prog /\
  inlined [sY] (declarative dropdv_prog) = [] /\
  sexec std_fi std_ode (env_of [(sT1, 1); (sW, 4)]%Q) (cleanup_stmts [sY] [] [] dropdv_prog) sY = Some 4%Q /\
  (* an auxiliary alias is still inlined: without Y among the dependent variables the old result *)
  cleanup_stmts [] [] [] dropdv_prog = [SAssign sF (Mul (Sym sT1) (Sym sW))].
Proof. repeat split; vm_compute; reflexivity. Qed.

(* Y = TH1 + E1; Y = Piecewise((TH2 + E1, W > 5), (Y, True)) : the extractor formerly read the FIRST assignment
   (TH1 + E1 for every W); now the last one, expanded over the first *)
Definition twoy_prog : list stm :=
  [SAssign sY (Add (Sym sT1) (Sym sE1));
   SAssign sY (PwCons (CRel OGt (Sym sW) (Num 5)) (Add (Sym sT2) (Sym sE1)) (PwCons CTrue (Sym sY) PwNil))].
Example obs_expr_fixed :
  obs_expr twoy_prog sY =
    Some (PwCons (CRel OGt (Sym sW) (Num 5)) (Add (Sym sT2) (Sym sE1))
                 (PwCons CTrue (Add (Sym sT1) (Sym sE1)) PwNil)) /\
  match obs_expr twoy_prog sY with
  | Some y => eval (env_of [(sT1, 1); (sT2, 2); (sE1, 0); (sW, 8)]%Q) std_fi y = Some 2%Q
  | None => False end /\
  sexec std_fi std_ode (env_of [(sT1, 1); (sT2, 2); (sE1, 0); (sW, 8)]%Q) twoy_prog sY = Some 2%Q.
Proof. repeat split; vm_compute; reflexivity. Qed.

(* a second assignment that reads the first: Y = TH1; Y = Y + 1 is TH1 + 1 (the loop no longer substitutes
   the last assignment into itself) *)
Example obs_expr_self_reference :
  obs_expr [SAssign sY (Sym sT1); SAssign sY (Add (Sym sY) (Num 1))] sY = Some (Add (Sym sT1) (Num 1)).
Proof. vm_compute. reflexivity. Qed.

(* EPS1 ~ N(0, SI1) with SI1 fixed to 1: replace_fixed_thetas formerly removed the parameter SI1 although the
   distribution of EPS1 still uses it; now only the fixed theta is replaced *)
Definition sSI : id := 13%positive.
Example fixed_sigma_kept :
  cleanup_params [(sT1, 2%Q); (sSI, 1%Q)] [mkDist [sE1] [sSI]] [sT1; sT2; sSI] = [sT2; sSI] /\
  fixed_after [(sT1, 2%Q); (sSI, 1%Q)] [mkDist [sE1] [sSI]] = [(sT1, 2%Q)] /\
  dangling [(sT1, 2%Q); (sSI, 1%Q)] [mkDist [sE1] [sSI]] = [].
Proof. repeat split; vm_compute; reflexivity. Qed.

(* a fixed entry of a block no longer makes Model.replace fail *)
Example cleanup_block_fixed :
  cleanup_m chain_known [sY] [(sSI, (1#2)%Q)] [mkDist [sE1; sW] [sSI; sVC]] dropdv_prog =
  ROk (cleanup_stmts [sY] [(sSI, (1#2)%Q)] [mkDist [sE1; sW] [sSI; sVC]] dropdv_prog).
Proof. vm_compute. reflexivity. Qed.

(* CL = Piecewise((TH1*exp(ETA1), W > 2), (TH2*exp(ETA1), True)): sympy.solve answers
   mu_1 = Piecewise((0, W <= 2), (nan, True)) — for W > 2 the inserted mu is nan and CL is lost
   (reproduced on the real mu_reference_model; finding C07-MU-REFERENCE-PIECEWISE-NAN).  [sSI] plays nan: a symbol
   that never has a value. *)
Definition sMU : id := 14%positive.
Definition pw_prog : list stm :=
  [SAssign sVC (PwCons (CRel OGt (Sym sW) (Num 2)) (Mul (Sym sT1) (Fn1 F_EXP (Sym sE1)))
                       (PwCons CTrue (Mul (Sym sT2) (Fn1 F_EXP (Sym sE1))) PwNil));
   SAssign sY (Sym sVC)].
Definition pw_table : list (nat * (expr * expr)) :=
  [(0%nat, (PwCons (CRel OLe (Sym sW) (Num 2)) (Num 0) (PwCons CTrue (Sym sSI) PwNil),
            PwCons (CRel OGt (Sym sW) (Num 2)) (Mul (Sym sT1) (Fn1 F_EXP (Add (Sym sE1) (Sym sMU))))
                   (PwCons CTrue (Mul (Sym sT2) (Fn1 F_EXP (Add (Sym sE1) (Sym sMU)))) PwNil)))].
Theorem mu_reference_piecewise_refuted :
  exists etas table l out,
    mu_reference etas table l = Some out /\
    g_mu_fresh etas table (find_eta_assignments (map fst etas) l) l = true /\
    ~ (forall fi ode r x, ~ In x (inserted_mus etas table (find_eta_assignments (map fst etas) l) l 0) ->
                          sexec fi ode r out x = sexec fi ode r l x).
Proof.
  exists [(sE1, sMU)], pw_table, pw_prog.
  eexists. split; [vm_compute; reflexivity|]. split; [vm_compute; reflexivity|].
  intro H. specialize (H std_fi std_ode (env_of [(sT1, 1); (sT2, 2); (sE1, 0); (sW, 4)]%Q) sY).
  assert (Hn : ~ In sY (inserted_mus [(sE1, sMU)] pw_table (find_eta_assignments (map fst [(sE1, sMU)]) pw_prog) pw_prog 0)).
  { vm_compute. intros [E|[]]. discriminate. }
  specialize (H Hn). vm_compute in H. discriminate.
Qed.
