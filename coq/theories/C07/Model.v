(* PV.C07.Model — executable model of pharmpy's statement refactorings
   (modeling/expressions.py make_declarative, cleanup_model's inlining pass; modeling/common.py
   rename_symbols, _get_unused_parameters_and_rvs; modeling/parameters.py replace_fixed_thetas;
   modeling/random_variables.py replace_non_random_rvs; model/model.py _canonicalize_statements as far
   as the refactorings can trip over it), mirroring the Python statement by statement.
   No proofs in this file. *)
From Coq Require Import QArith List Bool PArith Arith Lia.
From PV Require Import Base.PyData Base.Expr Base.Interp Base.Stmts.
Import ListNotations.
Local Open Scope nat_scope.

(* ---- statements ----------------------------------------------------------------------------
   Like Base.Stmts.stmt, but a compartmental system keeps the EXPRESSIONS it is built from (flow
   rates, dose amounts/rates/durations, lag times, bioavailabilities, in a fixed order) because the
   refactorings substitute into them.  Its solution is an oracle: every amount is an arbitrary
   function [ode a] of the VALUES of these expressions. *)
Inductive stm :=
| SAssign (s : id) (e : expr)
| SOde (amts : list id) (args : list expr).

Definition sdefs (st : stm) : list id := match st with SAssign s _ => [s] | SOde a _ => a end.
Definition srhs (st : stm) : list id :=
  match st with SAssign _ e => free_syms e | SOde _ args => flat_map free_syms args end.
Definition ssyms (st : stm) : list id := sdefs st ++ srhs st.
Definition all_sdefs (l : list stm) : list id := flat_map sdefs l.
Definition all_ssyms (l : list stm) : list id := flat_map ssyms l.

Definition of_stmt (st : stmt) : stm :=
  match st with Assign s e => SAssign s e | Ode a rh => SOde a (map Sym rh) end.

Section Exec.
  Variable fi : finterp.
  Variable ode : id -> list (option Q) -> option Q.

  Definition sexec1 (r : env) (st : stm) : env :=
    match st with
    | SAssign s e => upd r s (eval r fi e)
    | SOde amts args => upd_list r amts (fun a => ode a (map (fun e => eval r fi e) args))
    end.

  Fixpoint sexec (r : env) (l : list stm) : env :=
    match l with
    | [] => r
    | st :: tl => sexec (sexec1 r st) tl
    end.
End Exec.

(* ---- Python dict with symbol keys: association list, at most one entry per key ---------------- *)
Fixpoint aremove {A} (k : id) (m : list (id * A)) : list (id * A) :=
  match m with
  | [] => []
  | (k', v) :: tl => if Pos.eqb k' k then aremove k tl else (k', v) :: aremove k tl
  end.
Definition aset {A} (k : id) (v : A) (m : list (id * A)) : list (id * A) := (k, v) :: aremove k m.
Definition akeys {A} (m : list (id * A)) : list id := map fst m.
Definition haskey {A} (m : list (id * A)) (k : id) : bool :=
  match alookup m k with Some _ => true | None => false end.

(* ---- Statement.subs(d): simultaneous substitution; Assignment.subs also substitutes the lhs ---- *)
Definition ren_of (m : list (id * expr)) (s : id) : id :=
  match alookup m s with Some (Sym y) => y | _ => s end.

Definition subs_stm (m : list (id * expr)) (st : stm) : stm :=
  match st with
  | SAssign s e => SAssign (ren_of m s) (subs_map m e)
  | SOde amts args => SOde amts (map (subs_map m) args)
  end.

(* ---- make_declarative, first loop: indices of the 2nd, 3rd, ... assignment of every symbol ----- *)
Fixpoint aappend (s : id) (i : nat) (d : list (id * list nat)) : list (id * list nat) :=
  match d with
  | [] => [(s, [i])]
  | (k, v) :: tl => if Pos.eqb k s then (k, v ++ [i]) :: tl else (k, v) :: aappend s i tl
  end.

Fixpoint dup_scan (l : list stm) (i : nat) (assigned : list id) (dups : list (id * list nat))
  : list (id * list nat) :=
  match l with
  | [] => dups
  | SOde _ _ :: tl => dup_scan tl (S i) assigned dups
  | SAssign s _ :: tl =>
      if memp s assigned then dup_scan tl (S i) assigned (aappend s i dups)
      else dup_scan tl (S i) (s :: assigned) dups
  end.
Definition dup_table (l : list stm) : list (id * list nat) := dup_scan l 0 [] [].

(* ---- make_declarative, second loop -------------------------------------------------------------
   which branch the statement `s.symbol = ...` at index i takes *)
Inductive kind := KPlain | KFirst | KMiddle | KLast.

Fixpoint areplace (s : id) (v : list nat) (d : list (id * list nat)) : list (id * list nat) :=
  match d with
  | [] => []
  | (k, w) :: tl => if Pos.eqb k s then (k, v) :: tl else (k, w) :: areplace s v tl
  end.

Definition classify (dups : list (id * list nat)) (i : nat) (s : id) : kind * list (id * list nat) :=
  match alookup dups s with
  | None => (KPlain, dups)                                   (* s.symbol not in duplicated_symbols *)
  | Some idx =>
      if memn i idx then
        let rest := tl idx in                                 (* duplicated_symbols[s] = ...[1:] *)
        (match rest with [] => KLast | _ => KMiddle end, areplace s rest dups)
      else (KFirst, dups)
  end.

(* one iteration: new `current`, new table, emitted statement.
   [fx = true] is the code as it is since commit 0e1c190 (`current[s.symbol] = s.expression.subs(current)` in the
   first-occurrence branch); [fx = false] is the code before that fix (raw capture), kept for the regression
   examples. *)
Definition decl_step_gen (fx : bool) (cur : list (id * expr)) (dups : list (id * list nat)) (i : nat) (st : stm)
  : list (id * expr) * list (id * list nat) * option stm :=
  match st with
  | SOde amts args => (cur, dups, Some (SOde amts (map (subs_map cur) args)))
  | SAssign s e =>
      match classify dups i s with
      | (KPlain, d') => (cur, d', Some (SAssign s (subs_map cur e)))
      | (KFirst, d') => (aset s (if fx then subs_map cur e else e) cur, d', None)
                                                             (* current[s] = s.expression.subs(current) *)
      | (KMiddle, d') => (aset s (subs_map cur e) cur, d', None)
      | (KLast, d') => (aremove s cur, d', Some (SAssign s (subs_map cur e)))
      end
  end.

Fixpoint decl_walk_gen (fx : bool) (l : list stm) (i : nat) (cur : list (id * expr)) (dups : list (id * list nat))
  : list stm :=
  match l with
  | [] => []
  | st :: tl =>
      match decl_step_gen fx cur dups i st with
      | (cur', dups', Some out) => out :: decl_walk_gen fx tl (S i) cur' dups'
      | (cur', dups', None) => decl_walk_gen fx tl (S i) cur' dups'
      end
  end.

Definition declarative_gen (fx : bool) (l : list stm) : list stm := decl_walk_gen fx l 0 [] (dup_table l).
(* make_declarative as it is *)
Definition declarative (l : list stm) : list stm := declarative_gen true l.
(* make_declarative before commit 0e1c190 *)
Definition declarative_before_fix (l : list stm) : list stm := declarative_gen false l.

(* `current` after the loop (always empty: Proofs.decl_final_empty) *)
Fixpoint decl_final_gen (fx : bool) (l : list stm) (i : nat) (cur : list (id * expr)) (dups : list (id * list nat))
  : list (id * expr) :=
  match l with
  | [] => cur
  | st :: tl => let '(cur', dups', _) := decl_step_gen fx cur dups i st in decl_final_gen fx tl (S i) cur' dups'
  end.

(* ---- guard of make_declarative ------------------------------------------------------------------
   [poisoned] = keys of `current` whose stored expression mentions a symbol that has been assigned by
   an emitted statement since the expression was stored: substituting such an entry is a stale
   capture.  The first-occurrence branch stores the RAW expression, so it must not mention a key.
   A compartmental system must not define a symbol that has a pending expression.  (That `current`
   is empty after the loop needs no conjunct: Proofs.decl_final_empty proves it for every program.) *)
Definition mentions (e : expr) (xs : list id) : bool := interp_nonempty (free_syms e) xs.

Definition poison_after (cur : list (id * expr)) (xs : list id) (poisoned : list id) : list id :=
  poisoned ++ map fst (filter (fun kv => mentions (snd kv) xs) cur).

Definition removep (s : id) (l : list id) : list id := filter (fun x => negb (Pos.eqb x s)) l.

Definition use_ok (poisoned : list id) (syms : list id) : bool := negb (interp_nonempty syms poisoned).

Fixpoint decl_guard_gen (fx : bool) (l : list stm) (i : nat) (cur : list (id * expr)) (dups : list (id * list nat))
         (poisoned : list id) : bool :=
  match l with
  | [] => true
  | st :: tl =>
      let '(cur', dups', _) := decl_step_gen fx cur dups i st in
      match st with
      | SOde amts args =>
          use_ok poisoned (flat_map free_syms args)
          && negb (interp_nonempty amts (akeys cur))
          && decl_guard_gen fx tl (S i) cur' dups' (poison_after cur' amts poisoned)
      | SAssign s e =>
          match fst (classify dups i s) with
          | KPlain => use_ok poisoned (free_syms e)
                      && decl_guard_gen fx tl (S i) cur' dups' (poison_after cur' [s] poisoned)
          | KFirst => (if fx then use_ok poisoned (free_syms e)
                       else negb (interp_nonempty (free_syms e) (akeys cur)))
                      && decl_guard_gen fx tl (S i) cur' dups' (removep s poisoned)
          | KMiddle => use_ok poisoned (free_syms e)
                       && decl_guard_gen fx tl (S i) cur' dups' (removep s poisoned)
          | KLast => use_ok poisoned (free_syms e)
                     && decl_guard_gen fx tl (S i) cur' dups' (poison_after cur' [s] (removep s poisoned))
          end
      end
  end.

(* no pending expression is substituted after a symbol it mentions was re-assigned.  True for every valid model
   (Proofs.guard_on_valid); it can only fail when a statement assigns a parameter / rv / column. *)
Definition g_no_stale_capture (l : list stm) : bool := decl_guard_gen true l 0 [] (dup_table l) [].
Definition g_no_stale_capture_before_fix (l : list stm) : bool := decl_guard_gen false l 0 [] (dup_table l) [].

(* ---- cleanup_model: the inlining loop -------------------------------------------------------------
   for s in statements: if Assignment and s.expression.is_symbol()
                           and s.symbol not in model.dependent_variables:          (since commit b7852b9)
                            current[s.symbol] = s.expression.subs(current)        (since commit 185d1d3)
                        else: newstats.append(s.subs(current))                                      *)
(* [dvs] = the dependent variables of the model *)
Definition alias_of (dvs : list id) (st : stm) : option (id * id) :=
  match st with SAssign s (Sym y) => if memp s dvs then None else Some (s, y) | _ => None end.

Fixpoint inline_walk (dvs : list id) (l : list stm) (cur : list (id * expr)) : list stm :=
  match l with
  | [] => []
  | st :: tl =>
      match alias_of dvs st with
      | Some (s, y) => inline_walk dvs tl (aset s (subs_map cur (Sym y)) cur)
      | None => subs_stm cur st :: inline_walk dvs tl cur
      end
  end.
Definition inline (dvs : list id) (l : list stm) : list stm := inline_walk dvs l [].

Fixpoint inline_final (dvs : list id) (l : list stm) (cur : list (id * expr)) : list (id * expr) :=
  match l with
  | [] => cur
  | st :: tl =>
      match alias_of dvs st with
      | Some (s, y) => inline_final dvs tl (aset s (subs_map cur (Sym y)) cur)
      | None => inline_final dvs tl cur
      end
  end.
(* the aliases that disappear from the program *)
Definition inlined (dvs : list id) (l : list stm) : list id := akeys (inline_final dvs l []).

Definition targets (cur : list (id * expr)) : list id := flat_map (fun kv => free_syms (snd kv)) cur.

(* guard: neither an alias nor the symbol it points to is assigned again while the alias is pending (true for
   every program in which no statement assigns a parameter / rv / column after make_declarative; chains of aliases
   need no conjunct any more) *)
Fixpoint inline_guard (dvs : list id) (l : list stm) (cur : list (id * expr)) : bool :=
  match l with
  | [] => true
  | st :: tl =>
      match alias_of dvs st with
      | Some (s, y) => inline_guard dvs tl (aset s (subs_map cur (Sym y)) cur)
      | None => negb (interp_nonempty (sdefs st) (akeys cur ++ targets cur)) && inline_guard dvs tl cur
      end
  end.
Definition g_inline_ok (dvs : list id) (l : list stm) : bool := inline_guard dvs l [].

(* ---- rename_symbols: statements.subs(d) with a symbol-to-symbol dict ------------------------------ *)
Definition ren_map (d : list (id * id)) : list (id * expr) := map (fun kv => (fst kv, Sym (snd kv))) d.
Definition ren (d : list (id * id)) (x : id) : id := match alookup d x with Some y => y | None => x end.
Definition rename (d : list (id * id)) (l : list stm) : list stm := map (subs_stm (ren_map d)) l.
(* parameters / random variable names: renamed when they are a key *)
Definition rename_names (d : list (id * id)) (names : list id) : list id := map (ren d) names.

Fixpoint nodup_p (l : list id) : bool :=
  match l with [] => true | x :: tl => negb (memp x tl) && nodup_p tl end.

(* "Make sure that no name clash occur": the renaming is injective on the symbols of the program and
   the other names of the model ([extra]: parameters, rvs, columns), and does not touch amounts *)
Definition g_rename_ok (d : list (id * id)) (extra : list id) (l : list stm) : bool :=
  nodup_p (map (ren d) (normp (all_ssyms l ++ extra)))
  && forallb (fun st => match st with
                        | SOde amts _ => negb (interp_nonempty amts (akeys d))
                        | _ => true end) l.

(* ---- replace_non_random_rvs / replace_fixed_thetas ------------------------------------------------- *)
(* a distribution as far as these passes look at it: its rv names and its parameter_names *)
Record dist := mkDist { d_names : list id; d_params : list id }.

Definition is_fixed_zero (fixed : list (id * Q)) (p : id) : bool :=
  match alookup fixed p with Some q => Qeq_bool q 0 | None => false end.

(* dists whose every parameter is fixed to 0 (for ... else of the Python loop) *)
Definition non_random (fixed : list (id * Q)) (dists : list dist) : list dist :=
  filter (fun d => forallb (is_fixed_zero fixed) (d_params d)) dists.

Definition zero_map (fixed : list (id * Q)) (dists : list dist) : list (id * expr) :=
  flat_map (fun d => map (fun x => (x, Num 0)) (d_params d ++ d_names d)) (non_random fixed dists).

Definition replace_non_random (fixed : list (id * Q)) (dists : list dist) (l : list stm) : list stm :=
  map (subs_stm (zero_map fixed dists)) l.
Definition removed_params (fixed : list (id * Q)) (dists : list dist) : list id :=
  flat_map d_params (non_random fixed dists).

Definition fixed_assigns (fixed : list (id * Q)) : list stm := map (fun kv => SAssign (fst kv) (Num (snd kv))) fixed.
Definition replace_fixed (fixed : list (id * Q)) (l : list stm) : list stm := fixed_assigns fixed ++ l.

(* keys are not assigned by the program and the substituted values are closed *)
Definition g_consts_ok (m : list (id * expr)) (l : list stm) : bool :=
  negb (interp_nonempty (akeys m) (all_sdefs l))
  && forallb (fun kv => match free_syms (snd kv) with [] => true | _ => false end) m.

(* ---- Model._canonicalize_statements (what Model.replace(statements=...) checks) -------------------
   every symbol of an assignment's expression is known (parameter, rv, column, t) or assigned by an
   earlier statement *)
Fixpoint canon_ok_from (known : list id) (l : list stm) (assigned : list id) : bool :=
  match l with
  | [] => true
  | SOde _ _ :: tl => canon_ok_from known tl assigned
  | SAssign s e :: tl =>
      forallb (fun x => memp x known || memp x assigned) (free_syms e)
      && canon_ok_from known tl (s :: assigned)
  end.
Definition canon_ok (known : list id) (l : list stm) : bool := canon_ok_from known l [].

Inductive res (A : Type) := ROk (a : A) | RValueError | RInternal.
Arguments ROk {A} a. Arguments RValueError {A}. Arguments RInternal {A}.

(* make_declarative as a model transformation: Model.replace raises when the result is not canonical *)
Definition make_declarative_m (known : list id) (l : list stm) : res (list stm) :=
  let d := declarative l in if canon_ok known d then ROk d else RValueError.

(* replace_fixed_thetas replaces the fixed parameters that no random variable uses
   (`if p.fix and p.symbol not in model.random_variables.free_symbols`, since commit 142d5a3).
   [kept_dists] = the distributions still present after replace_non_random_rvs; [fixed_after] = the fixed
   parameters that are replaced by assignments. *)
Definition kept_dists (fixed : list (id * Q)) (dists : list dist) : list dist :=
  filter (fun d => negb (forallb (is_fixed_zero fixed) (d_params d))) dists.
Definition rv_symbols (ds : list dist) : list id := flat_map (fun d => d_names d ++ d_params d) ds.
Definition fixed_after (fixed : list (id * Q)) (dists : list dist) : list (id * Q) :=
  filter (fun kv => negb (memp (fst kv) (removed_params fixed dists))
                    && negb (memp (fst kv) (rv_symbols (kept_dists fixed dists)))) fixed.
Definition cleanup_params (fixed : list (id * Q)) (dists : list dist) (params : list id) : list id :=
  filter (fun p => negb (memp p (removed_params fixed dists)) && negb (memp p (akeys (fixed_after fixed dists))))
         params.
(* variance parameters of the remaining distributions that are no longer parameters of the model: only a
   zero-fixed parameter SHARED between a removed and a kept distribution (replace_non_random_rvs removes it) *)
Definition dangling (fixed : list (id * Q)) (dists : list dist) : list id :=
  filter (fun p => memp p (removed_params fixed dists)) (flat_map d_params (kept_dists fixed dists)).
(* Model.replace -> validate_parameters: a joint distribution with a variance entry that is not a
   parameter any more cannot be made numeric (TypeError) *)
Definition joint_dangling (fixed : list (id * Q)) (dists : list dist) : bool :=
  existsb (fun d => match d_names d with
                    | _ :: _ :: _ => existsb (fun p => memp p (removed_params fixed dists)) (d_params d)
                    | _ => false end) (kept_dists fixed dists).

(* cleanup_model: declarative; inline; replace_non_random_rvs; replace_fixed_thetas (the statements only:
   cleanup_m below adds the checks Model.replace performs) *)
Definition cleanup_stmts (dvs : list id) (fixed : list (id * Q)) (dists : list dist) (l : list stm) : list stm :=
  replace_fixed (fixed_after fixed dists) (replace_non_random fixed dists (inline dvs (declarative l))).

(* the part of cleanup_model after make_declarative, on the declarative statements [d].  (The test
   `s.expression.is_symbol()` looks at the expression AFTER symengine canonicalised the substituted
   expression, so the correspondence check feeds this stage with the implementation's own declarative
   statements.) *)
Definition cleanup_from_decl (known dvs : list id) (fixed : list (id * Q)) (dists : list dist) (d : list stm)
  : res (list stm) :=
  let i := inline dvs d in
  if canon_ok known i then
    if joint_dangling fixed dists then RInternal
    else ROk (replace_fixed (fixed_after fixed dists) (replace_non_random fixed dists i))
  else RValueError.

Definition cleanup_m (known dvs : list id) (fixed : list (id * Q)) (dists : list dist) (l : list stm)
  : res (list stm) :=
  let d := declarative l in
  if canon_ok known d then cleanup_from_decl known dvs fixed dists d else RValueError.

(* no statement assigns a parameter, random variable or data column (domain of the property) *)
Definition g_no_shadowing (known : list id) (l : list stm) : bool :=
  forallb (fun st => match st with
                     | SAssign s _ => negb (memp s known)
                     | SOde _ _ => true end) l.

(* ---- _get_unused_parameters_and_rvs ------------------------------------------------------------------
   A distribution for this pass: Normal (name, free symbols of the variance) or Joint (names, matrix
   of the free symbols of every variance entry). *)
Inductive rdist :=
| DNormal (name : id) (var : list id)
| DJoint (names : list id) (m : list (list (list id))).

Definition rdist_names (d : rdist) : list id := match d with DNormal n _ => [n] | DJoint ns _ => ns end.
Definition rdist_syms (d : rdist) : list id :=
  match d with DNormal n v => n :: v | DJoint ns m => ns ++ flat_map (fun row => flat_map (fun x => x) row) m end.

Definition row_syms (m : list (list (list id))) (i : nat) : list id := flat_map (fun x => x) (nth i m []).
Definition diag_syms (m : list (list (list id))) (i : nat) : list id := nth i (nth i m []) [].

Fixpoint enum_from {A} (i : nat) (l : list A) : list (nat * A) :=
  match l with [] => [] | x :: tl => (i, x) :: enum_from (S i) tl end.

Definition to_unjoin (symbols : list id) (dists : list rdist) : list id :=
  flat_map (fun d => match d with
                     | DNormal _ _ => []
                     | DJoint ns m =>
                         map snd (filter (fun ix => negb (memp (snd ix) symbols)
                                                    && negb (interp_nonempty symbols (row_syms m (fst ix))))
                                         (enum_from 0 ns))
                     end) dists.

Definition keep_idx {A} (keep : list nat) (l : list A) : list A :=
  map snd (filter (fun ix => memn (fst ix) keep) (enum_from 0 l)).

(* RandomVariables.unjoin(inds): unjoined names become Normal(name, variance[i,i]) in place, the kept
   rest follows as one distribution (Normal when a single one is left) *)
Definition unjoin_dist (inds : list id) (d : rdist) : list rdist :=
  match d with
  | DNormal _ _ => [d]
  | DJoint ns m =>
      if existsb (fun n => memp n inds) ns then
        let keep := map fst (filter (fun ix => negb (memp (snd ix) inds)) (enum_from 0 ns)) in
        let singles := flat_map (fun ix => if memp (snd ix) inds
                                           then [DNormal (snd ix) (diag_syms m (fst ix))] else [])
                                (enum_from 0 ns) in
        let kept := match keep with
                    | [] => []
                    | [i] => [DNormal (nth i ns 1%positive) (diag_syms m i)]
                    | _ => [DJoint (keep_idx keep ns) (map (keep_idx keep) (keep_idx keep m))]
                    end in
        singles ++ kept
      else [d]
  end.
Definition unjoin (inds : list id) (dists : list rdist) : list rdist := flat_map (unjoin_dist inds) dists.

(* new_dists: a Normal distribution is kept iff one of its free symbols occurs in the statements *)
Definition unused_new_dists (symbols : list id) (dists : list rdist) : list rdist :=
  filter (fun d => match d with
                   | DNormal n v => interp_nonempty (n :: v) symbols
                   | DJoint _ _ => true end)
         (unjoin (to_unjoin symbols dists) dists).

(* new_params: kept iff used by a statement, by a kept distribution, or fixed to zero *)
Definition unused_new_params (symbols : list id) (dists : list rdist) (fixed : list (id * Q)) (params : list id)
  : list id :=
  let rv_syms := flat_map rdist_syms (unused_new_dists symbols dists) in
  filter (fun p => memp p symbols || memp p rv_syms || is_fixed_zero fixed p) params.

Definition unused_new_rv_names (symbols : list id) (dists : list rdist) : list id :=
  flat_map rdist_names (unused_new_dists symbols dists).

(* ---- get_observation_expression / get_individual_prediction_expression / get_population_... -------
   i = stats.find_assignment_index(dv)          (the LAST assignment, since commit df3152c)
   y = stats[i].expression
   for j in range(i - 1, -1, -1): y = y.subs({stats[j].symbol: stats[j].expression})
   A CompartmentalSystem has no `.symbol`: AttributeError (None) when one precedes the assignment. *)
(* [rl] = the statements in reverse order; result: (statements i-1..0, expression, statements after i) *)
Fixpoint split_rev (s : id) (rl : list stm) (post : list stm) : option (list stm * expr * list stm) :=
  match rl with
  | [] => None                                               (* ValueError: could not locate ... *)
  | SAssign x e :: tl =>
      if Pos.eqb x s then Some (tl, e, post) else split_rev s tl (SAssign x e :: post)
  | st :: tl => split_rev s tl (st :: post)
  end.

Definition subs1 (acc : expr) (st : stm) : expr :=
  match st with SAssign s t => subs s t acc | SOde _ _ => acc end.

Definition has_sode (l : list stm) : bool :=
  existsb (fun st => match st with SOde _ _ => true | _ => false end) l.

Definition obs_expr (l : list stm) (dv : id) : option expr :=
  match split_rev dv (rev l) [] with
  | None => None
  | Some (pre, e, _) => if has_sode pre then None (* AttributeError *) else Some (fold_left subs1 pre e)
  end.

Definition zeros (xs : list id) : list (id * expr) := map (fun x => (x, Num 0)) xs.
Definition ipred_expr (l : list stm) (dv : id) (epss : list id) : option expr :=
  option_map (subs_map (zeros epss)) (obs_expr l dv).
Definition pred_expr (l : list stm) (dv : id) (epss etas : list id) : option expr :=
  option_map (subs_map (zeros etas)) (ipred_expr l dv epss).

(* all compartment amounts of a program (functions A_x(t), never an assignable symbol in pharmpy) *)
Definition amounts (l : list stm) : list id := flat_map (fun st => match st with SOde a _ => a | _ => [] end) l.

(* ---- validity of a statement list as a model (what Model.create accepts, plus: no statement assigns a
   parameter / rv / column, compartment amounts are defined once, by their system, and read only after it).
   [known] = parameters, rvs, columns, t. *)
Fixpoint valid_from (known : list id) (l : list stm) (assigned odedefs : list id) : bool :=
  match l with
  | [] => true
  | SAssign s e :: tl =>
      negb (memp s known) && negb (memp s odedefs)
      && forallb (fun y => memp y known || memp y assigned || memp y odedefs) (free_syms e)
      && valid_from known tl (s :: assigned) odedefs
  | SOde amts args :: tl =>
      negb (interp_nonempty amts (known ++ assigned ++ odedefs))
      && forallb (fun y => memp y known || memp y assigned || memp y odedefs) (flat_map free_syms args)
      && valid_from known tl assigned (amts ++ odedefs)
  end.
Definition g_valid (known : list id) (l : list stm) : bool := valid_from known l [] [].

(* ---- mu_reference_model (modeling/expressions.py) -------------------------------------------------
   _find_eta_assignments: over statements.before_odes, i = n-1 .. 0: a statement is selected when its symbol
   was not "found" yet, it mentions an eta, and the full expression of its rhs over statements[:i] mentions
   exactly one eta; then all its symbols are added to `found`. *)
Fixpoint before_odes (l : list stm) : list stm :=
  match l with
  | [] => []
  | SOde _ _ :: _ => []
  | st :: tl => st :: before_odes tl
  end.

Definition inter_count (etas syms : list id) : nat := length (filter (fun e => memp e syms) etas).

(* [rl] = statements i, i-1, ..., 0 (reversed prefix); statements[:i].full_expression(e) substitutes the
   statements i-1, ..., 0 in this order *)
Fixpoint find_eta_rev (etas : list id) (rl : list stm) (i : nat) (found : list id) : list nat :=
  match rl with
  | [] => []
  | SAssign s e :: tl =>
      if negb (memp s found) && interp_nonempty etas (s :: free_syms e)
         && Nat.eqb (inter_count etas (free_syms (fold_left subs1 tl e))) 1
      then i :: find_eta_rev etas tl (pred i) (s :: free_syms e ++ found)
      else find_eta_rev etas tl (pred i) found
  | SOde _ _ :: tl => find_eta_rev etas tl (pred i) found
  end.

Definition find_eta_assignments (etas : list id) (l : list stm) : list nat :=
  let b := before_odes l in find_eta_rev etas (rev b) (pred (length b)) [].

(* [etas] = the etas of the model in order, each with its symbol mu_<index>;
   eta = next(iter(etas.intersection(assignment.expression.free_symbols))) *)
Definition eta_of (etas : list (id * id)) (e : expr) : option (id * id) :=
  find (fun em => memp (fst em) (free_syms e)) etas.

(* [table]: original statement index -> (mu_expr, new_def): what sympy's as_independent / subs / solve answered
   (engines: observed, and validated by the solution property, Check tag 52) *)
Inductive mu_act := MKeep | MRewrite (mu : id) (m : expr) (p : id) (new : expr) | MFail.

Definition mu_action (etas : list (id * id)) (table : list (nat * (expr * expr))) (sel : list nat) (i : nat) (st : stm)
  : mu_act :=
  if memn i sel then
    match st with
    | SAssign p old =>
        match eta_of etas old with
        | Some (_, mu) =>
            if memp mu (free_syms old) then MKeep          (* mu reference already used: ignore *)
            else match find (fun kv => Nat.eqb (fst kv) i) table with
                 | Some (_, (m, new)) => MRewrite mu m p new
                 | None => MFail
                 end
        | None => MFail                                      (* StopIteration *)
        end
    | SOde _ _ => MFail
    end
  else MKeep.

(* statements[0:i] + (mu = mu_expr) + (P = new_def) + statements[i+1:] for every selected statement *)
Fixpoint mu_walk (etas : list (id * id)) (table : list (nat * (expr * expr))) (sel : list nat)
         (l : list stm) (i : nat) : option (list stm) :=
  match l with
  | [] => Some []
  | st :: tl =>
      match mu_walk etas table sel tl (S i) with
      | None => None
      | Some b =>
          match mu_action etas table sel i st with
          | MKeep => Some (st :: b)
          | MRewrite mu m p new => Some (SAssign mu m :: SAssign p new :: b)
          | MFail => None
          end
      end
  end.

Definition mu_reference (etas : list (id * id)) (table : list (nat * (expr * expr))) (l : list stm)
  : option (list stm) :=
  mu_walk etas table (find_eta_assignments (map fst etas) l) l 0.

(* the mu symbols that the walk inserts *)
Fixpoint inserted_mus (etas : list (id * id)) (table : list (nat * (expr * expr))) (sel : list nat)
         (l : list stm) (i : nat) : list id :=
  match l with
  | [] => []
  | st :: tl =>
      match mu_action etas table sel i st with
      | MRewrite mu _ _ _ => mu :: inserted_mus etas table sel tl (S i)
      | _ => inserted_mus etas table sel tl (S i)
      end
  end.

(* the inserted mu symbols are fresh: no statement of the program mentions them *)
Definition g_mu_fresh (etas : list (id * id)) (table : list (nat * (expr * expr))) (sel : list nat) (l : list stm)
  : bool :=
  negb (interp_nonempty (inserted_mus etas table sel l 0) (all_ssyms l)).


(* ---- greekify_model(named_subscripts=False): the renaming table handed to rename_symbols ----------------
   subs[theta_i] = theta_<i>; for the lower triangle of random_variables.covariance_matrix, non-zero entries:
   subs[elt] = omega_<row><col>; then THE SAME matrix again: subs[elt] = sigma_<row><col> (the code reads
   `sigma = model.random_variables.covariance_matrix`, so every omega ends up named sigma_<row><col>);
   subs[eta_i] = eta_<i>; subs[eps_i] = epsilon_<i>.  Names are strings: the namers [tn], [on], [sn], [en], [pn]
   stand for f"theta_{i}" etc.  A Python dict: a later assignment to the same key wins, so the table is the
   list of assignments in reverse order (first match = last assignment). *)
Definition greek_assignments (tn en pn : nat -> id) (on sn : nat -> nat -> id)
           (thetas : list id) (cov : list (nat * nat * id)) (etas epss : list id) : list (id * id) :=
  map (fun it => (snd it, tn (fst it))) (enum_from 1 thetas)
  ++ map (fun rce => (snd rce, on (fst (fst rce)) (snd (fst rce)))) cov
  ++ map (fun rce => (snd rce, sn (fst (fst rce)) (snd (fst rce)))) cov
  ++ map (fun it => (snd it, en (fst it))) (enum_from 1 etas)
  ++ map (fun it => (snd it, pn (fst it))) (enum_from 1 epss).

Definition greek_table (tn en pn : nat -> id) (on sn : nat -> nat -> id)
           (thetas : list id) (cov : list (nat * nat * id)) (etas epss : list id) : list (id * id) :=
  rev (greek_assignments tn en pn on sn thetas cov etas epss).

(* two renaming tables rename every symbol of [keys] alike *)
Definition same_renaming (d d' : list (id * id)) (keys : list id) : bool :=
  forallb (fun k => Pos.eqb (ren d k) (ren d' k)) keys.


(* ---- the components of a model that define its function, and refactorings that act on them -----------------
   statements, parameters (name, initial estimate, fix), random variables, dependent variables *)
Record pmodel := mkPM {
  pm_stmts : list stm;
  pm_params : list (id * Q * bool);
  pm_rvs : list rdist;
  pm_dvs : list id;
  pm_value_type : positive       (* value_type: 1 PREDICTION, 2 LIKELIHOOD, 3 -2LL, 4 a symbol *)
}.

(* convert_model(model, 'generic'): model/external/generic/generic.py passes every component on;
   convert_model(model, 'nonmem'): model/external/nonmem/model.py replaces the components of a template model by
   the given ones and calls update_source, which must not change them *)
(* (value_type is passed on by both since commit 7115d86) *)
Definition convert_generic (m : pmodel) : pmodel :=
  mkPM (pm_stmts m) (pm_params m) (pm_rvs m) (pm_dvs m) (pm_value_type m).
Definition convert_nonmem (m : pmodel) : pmodel :=
  mkPM (pm_stmts m) (pm_params m) (pm_rvs m) (pm_dvs m) (pm_value_type m).

(* RandomVariables.parameter_names: the symbols of the variances *)
Definition rdist_params (d : rdist) : list id :=
  match d with DNormal _ v => v | DJoint _ m => flat_map (fun row => flat_map (fun x => x) row) m end.

(* split_joint_distribution(model, names): unjoin, drop the parameters the random variables do not mention any
   more; statements and dependent variables are not touched *)
Definition split_joint (inds : list id) (m : pmodel) : pmodel :=
  let r' := unjoin inds (pm_rvs m) in
  let before := flat_map rdist_params (pm_rvs m) in
  let after := flat_map rdist_params r' in
  mkPM (pm_stmts m)
       (filter (fun p => negb (memp (fst (fst p)) before && negb (memp (fst (fst p)) after))) (pm_params m))
       r' (pm_dvs m) (pm_value_type m).

(* what create_joint_distribution may do to the components (its choice of covariance parameters and their
   initial estimates is C11's subject): statements and dependent variables untouched, the same random variable
   names, no parameter lost except variance parameters of the old distributions (a covariance of a block that
   an eta leaves is dropped) *)
Definition same_structure (m m' : pmodel) : bool :=
  list_eqb Pos.eqb (pm_dvs m) (pm_dvs m')
  && setp_eqb (flat_map rdist_names (pm_rvs m)) (flat_map rdist_names (pm_rvs m'))
  && forallb (fun p => memp (fst (fst p)) (flat_map rdist_params (pm_rvs m))
                       || memp (fst (fst p)) (map (fun q => fst (fst q)) (pm_params m'))) (pm_params m).

(* (name, symbols of its variance) of every random variable of a distribution *)
Definition rv_vars (d : rdist) : list (id * list id) :=
  match d with
  | DNormal n v => [(n, v)]
  | DJoint ns m => map (fun ix => (snd ix, diag_syms m (fst ix))) (enum_from 0 ns)
  end.

