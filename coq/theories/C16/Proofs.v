(* PV.C16.Proofs — lemmas for the theorems of C16/Properties.v. *)
From Coq Require Import List Bool NArith Arith Lia.
From PV Require Import C16.Model.
Import ListNotations.
Local Open Scope nat_scope.

(* ========================================================================================= *)
(* 0. equality tests                                                                          *)
Lemma list_eqb_eq {A} (eqb : A -> A -> bool) :
  (forall x y, eqb x y = true <-> x = y) -> forall a b, list_eqb eqb a b = true <-> a = b.
Proof.
  intros H. induction a as [|x a IH]; destruct b as [|y b]; cbn; split; try congruence; try tauto.
  - rewrite andb_true_iff, H, IH. intros [-> ->]. reflexivity.
  - intros E. injection E as -> ->. rewrite andb_true_iff. split; [apply H | apply IH]; reflexivity.
Qed.

Lemma str_eqb_eq a b : str_eqb a b = true <-> a = b.
Proof. apply list_eqb_eq. apply N.eqb_eq. Qed.

Lemma comp_eqb_eq a b : comp_eqb a b = true <-> a = b.
Proof.
  destruct a, b; cbn; split; intros H; try congruence; try reflexivity;
    try (apply N.eqb_eq in H; subst; reflexivity);
    try (apply str_eqb_eq in H; subst; reflexivity);
    try (injection H as ->; apply N.eqb_refl);
    try (injection H as ->; apply str_eqb_eq; reflexivity).
Qed.

Lemma path_eqb_eq a b : path_eqb a b = true <-> a = b.
Proof. apply list_eqb_eq. apply comp_eqb_eq. Qed.
Lemma path_eqb_refl p : path_eqb p p = true.
Proof. apply path_eqb_eq. reflexivity. Qed.
Lemma path_eqb_neq p q : p <> q -> path_eqb p q = false.
Proof. intros H. destruct (path_eqb p q) eqn:E; [apply path_eqb_eq in E; contradiction | reflexivity]. Qed.
Lemma path_eq_dec (p q : path) : p = q \/ p <> q.
Proof. destruct (path_eqb p q) eqn:E; [left; apply path_eqb_eq; exact E | right; intros ->; rewrite path_eqb_refl in E; discriminate]. Qed.

(* ========================================================================================= *)
(* 1. the association-list file system                                                        *)
Lemma lookup_remove_same f p : lookup (remove f p) p = None.
Proof.
  induction f as [|[q n] tl IH]; cbn; [reflexivity|].
  destruct (path_eqb p q) eqn:E; cbn; [exact IH|]. rewrite E. exact IH.
Qed.

Lemma lookup_remove_other f p q : p <> q -> lookup (remove f p) q = lookup f q.
Proof.
  intros H. induction f as [|[r n] tl IH]; cbn; [reflexivity|].
  destruct (path_eqb p r) eqn:E; cbn.
  - apply path_eqb_eq in E. subst r. rewrite (path_eqb_neq q p) by congruence. exact IH.
  - destruct (path_eqb q r); [reflexivity | exact IH].
Qed.

Lemma lookup_set_same f p n : lookup (set f p n) p = Some n.
Proof. unfold set. cbn. rewrite path_eqb_refl. reflexivity. Qed.

Lemma lookup_set_other f p q n : p <> q -> lookup (set f p n) q = lookup f q.
Proof.
  intros H. unfold set. cbn. rewrite (path_eqb_neq q p) by congruence. apply lookup_remove_other. exact H.
Qed.

(* every operation leaves every path other than its target alone *)
Lemma apply_op_frame o f q :
  wtarget o <> Some q -> wsource o <> Some q -> lookup (apply_op o f) q = lookup f q.
Proof.
  destruct o; cbn [wtarget wsource apply_op]; intros H Hs; try reflexivity;
    repeat match goal with
           | |- context [if ?b then _ else _] => destruct b
           | |- context [match lookup ?g ?r with _ => _ end] => destruct (lookup g r) as [[| | |]|]
           end; try reflexivity;
    try (apply lookup_set_other; congruence); try (apply lookup_remove_other; congruence);
    try (rewrite lookup_set_other, lookup_remove_other by congruence; reflexivity).
Qed.

Lemma tear_op_frame o j f q : wtarget o <> Some q -> lookup (tear_op o j f) q = lookup f q.
Proof.
  destruct o; cbn [wtarget tear_op]; intros H; try reflexivity;
    repeat match goal with
           | |- context [if ?b then _ else _] => destruct b
           | |- context [match lookup ?g ?r with _ => _ end] => destruct (lookup g r) as [[| | |]|]
           end; try reflexivity;
    try (apply lookup_set_other; congruence).
Qed.

Lemma run_ops_app a b f : run_ops (a ++ b) f = run_ops b (run_ops a f).
Proof. unfold run_ops. apply fold_left_app. Qed.
Lemma run_ops_cons o a f : run_ops (o :: a) f = run_ops a (apply_op o f).
Proof. reflexivity. Qed.

(* ========================================================================================= *)
(* 2. the transaction protocol as a predicate on single steps                                 *)

(* the paths that only a transaction on a key may touch, with their key *)
Definition special_key (p : path) : option N :=
  match p with
  | [CDb; CKey K; CModelFile] => Some K
  | [CDb; CKey K; CPharmpy; CResults] => Some K
  | [CDb; CKey K; CPharmpy; CMetadata] => Some K
  | [CDb; CKey K; CPharmpy; CPending] => Some K
  | _ => None
  end.

Definition not_special (p : option path) : bool :=
  match p with Some q => match special_key q with Some _ => false | None => true end | None => true end.
Definition neutralb (o : op) : bool := not_special (wtarget o) && not_special (wsource o).

(* a rename never involves a protected path *)
Definition src_ok (o : op) : Prop := not_special (wsource o) = true.

(* what the protocol allows a step to do in state f *)
Definition proto (f : fs) (o : op) : Prop :=
  src_ok o /\
  match wtarget o with
  | None => True
  | Some p =>
      match special_key p with
      | None => True
      | Some K =>
          (p = pending K -> o = OpenX p \/ (o = Remove p /\ good_local f K = true))
          /\ (p <> pending K ->
              exists c, o = OpenW p c
                        /\ exists_ f (pending K) = true
                        /\ (p = model_file K -> is_file f p = false /\ exists h n, c = [T_MODEL; K; h; n]))
      end
  end.

(* readers' view of a key depends on these paths only *)
Lemma special_key_spec p K :
  special_key p = Some K <->
  p = model_file K \/ p = results_file K \/ p = metadata_file K \/ p = pending K.
Proof.
  unfold model_file, results_file, metadata_file, pending. split.
  - intros H.
    destruct p as [|c1 p]; cbn in H; try discriminate.
    destruct c1; cbn in H; try discriminate.
    destruct p as [|c2 p]; cbn in H; try discriminate.
    destruct c2; cbn in H; try discriminate.
    destruct p as [|c3 p]; cbn in H; try discriminate.
    destruct c3; cbn in H; try discriminate.
    + destruct p as [|c4 p]; cbn in H; try discriminate.
      destruct c4; cbn in H; try discriminate;
        (destruct p; cbn in H; try discriminate; injection H as ->; tauto).
    + destruct p; cbn in H; try discriminate. injection H as ->. tauto.
  - intros [->|[->|[->| ->]]]; reflexivity.
Qed.

Lemma special_key_none p K :
  special_key p = None ->
  p <> model_file K /\ p <> results_file K /\ p <> metadata_file K /\ p <> pending K.
Proof.
  intros H. repeat split; intros ->; cbn in H; discriminate.
Qed.

Lemma frame_special f o q :
  src_ok o -> (exists K, special_key q = Some K) -> wtarget o <> Some q -> lookup (apply_op o f) q = lookup f q.
Proof.
  intros Hs [K HK] Ht. apply apply_op_frame; [exact Ht|]. unfold src_ok, not_special in Hs.
  destruct (wsource o) as [s0|]; [|discriminate]. intros [= ->]. rewrite HK in Hs. discriminate.
Qed.

(* all intermediate steps of an operation list satisfy the protocol *)
Fixpoint allsteps (ops : list op) (f : fs) : Prop :=
  match ops with
  | [] => True
  | o :: tl => proto f o /\ allsteps tl (apply_op o f)
  end.

Lemma allsteps_app a b f : allsteps (a ++ b) f <-> allsteps a f /\ allsteps b (run_ops a f).
Proof.
  revert f. induction a as [|o a IH]; intros f; cbn [app allsteps].
  - cbn. tauto.
  - rewrite IH, run_ops_cons. tauto.
Qed.

Lemma allsteps_nth ops f k o :
  allsteps ops f -> nth_error ops k = Some o -> proto (run_ops (firstn k ops) f) o.
Proof.
  revert f k. induction ops as [|x ops IH]; intros f k Hs Hn; [destruct k; discriminate|].
  destruct k as [|k]; cbn in *.
  - injection Hn as ->. tauto.
  - apply IH; tauto.
Qed.

Lemma allsteps_firstn ops f k : allsteps ops f -> allsteps (firstn k ops) f.
Proof.
  intros H. rewrite <- (firstn_skipn k ops) in H. apply allsteps_app in H. tauto.
Qed.

(* ---- state predicates used below, as lookups ---------------------------------------------- *)
Definition Inv (f : fs) : Prop := forall K, exists_ f (pending K) = false -> good_local f K = true.

Lemma exists_frame f g p : lookup g p = lookup f p -> exists_ g p = exists_ f p.
Proof. unfold exists_. intros ->. reflexivity. Qed.
Lemma is_file_frame f g p : lookup g p = lookup f p -> is_file g p = is_file f p.
Proof. unfold is_file. intros ->. reflexivity. Qed.
Lemma good_local_frame f g K :
  lookup g (model_file K) = lookup f (model_file K) ->
  lookup g (results_file K) = lookup f (results_file K) ->
  lookup g (metadata_file K) = lookup f (metadata_file K) ->
  good_local g K = good_local f K.
Proof. unfold good_local. intros -> -> ->. reflexivity. Qed.
Lemma visible_frame f g K :
  lookup g (pending K) = lookup f (pending K) -> lookup g (model_file K) = lookup f (model_file K) ->
  visible g K = visible f K.
Proof. unfold visible, exists_, is_file. intros -> ->. reflexivity. Qed.

Lemma distinct_special K :
  model_file K <> pending K /\ results_file K <> pending K /\ metadata_file K <> pending K
  /\ model_file K <> results_file K /\ model_file K <> metadata_file K /\ results_file K <> metadata_file K.
Proof. repeat split; discriminate. Qed.

Lemma special_key_inj p K K' : special_key p = Some K -> special_key p = Some K' -> K = K'.
Proof. congruence. Qed.

(* the target of an operation that succeeds in creating / writing a file exists afterwards *)
Lemma exists_after_openx f p : exists_ (apply_op (OpenX p) f) p = true \/ apply_op (OpenX p) f = f.
Proof.
  cbn. destruct (parent_ok f p && negb (exists_ f p)); [left | right; reflexivity].
  unfold exists_. rewrite lookup_set_same. reflexivity.
Qed.

(* ---- one step: visibility ----------------------------------------------------------------- *)
Lemma step_visible f o K :
  proto f o -> visible (apply_op o f) K = true -> visible f K = true \/ o = Remove (pending K).
Proof.
  intros [Hsrc Hp] Hv. unfold proto in Hp.
  destruct (wtarget o) as [p|] eqn:Ht.
  2:{ left. rewrite <- Hv. symmetry. apply visible_frame; (apply (frame_special _ _ _ Hsrc); [eexists; reflexivity | congruence]). }
  destruct (path_eq_dec p (pending K)) as [-> | Hnp].
  - (* the marker itself *)
    replace (special_key (pending K)) with (Some K) in Hp by reflexivity.
    destruct Hp as [Hp _]. destruct (Hp eq_refl) as [-> | [-> _]]; [|right; reflexivity].
    destruct (exists_after_openx f (pending K)) as [E | E].
    + unfold visible in Hv. rewrite E in Hv. discriminate.
    + rewrite E in Hv. left. exact Hv.
  - destruct (path_eq_dec p (model_file K)) as [-> | Hnm].
    + replace (special_key (model_file K)) with (Some K) in Hp by reflexivity.
      destruct Hp as [_ Hp]. destruct (Hp Hnp) as [c [-> [Hpe _]]].
      unfold visible in Hv.
      rewrite (exists_frame f _ (pending K)) in Hv by (apply (frame_special _ _ _ Hsrc); [eexists; reflexivity | cbn; congruence]).
      rewrite Hpe in Hv. discriminate.
    + left. rewrite <- Hv. symmetry. apply visible_frame; (apply (frame_special _ _ _ Hsrc); [eexists; reflexivity | congruence]).
Qed.

Lemma tear_visible f o j K :
  proto f o -> visible (tear_op o j f) K = true -> visible f K = true.
Proof.
  intros [Hsrc Hp] Hv. unfold proto in Hp.
  destruct (wtarget o) as [p|] eqn:Ht.
  2:{ rewrite <- Hv. symmetry. apply visible_frame; apply tear_op_frame; congruence. }
  destruct (path_eq_dec p (pending K)) as [-> | Hnp].
  - replace (special_key (pending K)) with (Some K) in Hp by reflexivity.
    destruct Hp as [Hp _]. destruct (Hp eq_refl) as [-> | [-> _]]; cbn in Hv; exact Hv.
  - destruct (path_eq_dec p (model_file K)) as [-> | Hnm].
    + replace (special_key (model_file K)) with (Some K) in Hp by reflexivity.
      destruct Hp as [_ Hp]. destruct (Hp Hnp) as [c [-> [Hpe _]]].
      unfold visible in Hv.
      rewrite (exists_frame f _ (pending K)) in Hv by (apply tear_op_frame; cbn; congruence).
      rewrite Hpe in Hv. discriminate.
    + rewrite <- Hv. symmetry. apply visible_frame; apply tear_op_frame; congruence.
Qed.

Lemma committed_in_cons o ops K :
  committed_in (o :: ops) K = op_eqb_remove o (pending K) || committed_in ops K.
Proof. reflexivity. Qed.

Lemma op_eqb_remove_refl p : op_eqb_remove (Remove p) p = true.
Proof. cbn. apply path_eqb_refl. Qed.

(* visibility only ever appears through a commit — induction over the operation list *)
Lemma visible_subset_committed_ops :
  forall ops f0 k torn K,
    allsteps ops f0 ->
    visible (crash f0 ops k torn) K = true ->
    visible f0 K = true \/ committed_in (firstn k ops) K = true.
Proof.
  induction ops as [|o ops IH]; intros f0 k torn K Hs Hv.
  - left. unfold crash in Hv. destruct k; cbn in Hv; destruct torn; exact Hv.
  - destruct k as [|k].
    + (* crash before the first operation, possibly tearing it *)
      left. unfold crash in Hv. cbn [firstn run_ops fold_left nth_error] in Hv.
      destruct torn as [j|]; [|exact Hv]. cbn in Hs. eapply tear_visible; [apply Hs | exact Hv].
    + cbn in Hs. destruct Hs as [Hp Hs].
      assert (Hc : crash f0 (o :: ops) (S k) torn = crash (apply_op o f0) ops k torn) by reflexivity.
      rewrite Hc in Hv. destruct (IH _ _ _ _ Hs Hv) as [H | H].
      * destruct (step_visible _ _ _ Hp H) as [H' | ->]; [left; exact H'|].
        right. cbn [firstn]. rewrite committed_in_cons, op_eqb_remove_refl. reflexivity.
      * right. cbn [firstn]. rewrite committed_in_cons, H. apply orb_true_r.
Qed.

(* ---- one step: a model file, once written, is never written again -------------------------- *)
Lemma step_model_file f o K :
  proto f o -> is_file f (model_file K) = true ->
  lookup (apply_op o f) (model_file K) = lookup f (model_file K).
Proof.
  intros [Hsrc Hp] Hf. unfold proto in Hp.
  destruct (wtarget o) as [p|] eqn:Ht; [|(apply (frame_special _ _ _ Hsrc); [eexists; reflexivity | congruence])].
  destruct (path_eq_dec p (model_file K)) as [-> | Hn]; [|(apply (frame_special _ _ _ Hsrc); [eexists; reflexivity | congruence])].
  replace (special_key (model_file K)) with (Some K) in Hp by reflexivity.
  destruct Hp as [_ Hp]. destruct (Hp ltac:(discriminate)) as [c [_ [_ H]]].
  destruct (H eq_refl) as [H' _]. congruence.
Qed.

Lemma tear_model_file f o j K :
  proto f o -> is_file f (model_file K) = true ->
  lookup (tear_op o j f) (model_file K) = lookup f (model_file K).
Proof.
  intros [Hsrc Hp] Hf. unfold proto in Hp.
  destruct (wtarget o) as [p|] eqn:Ht; [|apply tear_op_frame; congruence].
  destruct (path_eq_dec p (model_file K)) as [-> | Hn]; [|apply tear_op_frame; congruence].
  replace (special_key (model_file K)) with (Some K) in Hp by reflexivity.
  destruct Hp as [_ Hp]. destruct (Hp ltac:(discriminate)) as [c [_ [_ H]]].
  destruct (H eq_refl) as [H' _]. congruence.
Qed.

Lemma model_file_immutable_ops :
  forall ops f0 k torn K,
    allsteps ops f0 -> is_file f0 (model_file K) = true ->
    lookup (crash f0 ops k torn) (model_file K) = lookup f0 (model_file K).
Proof.
  induction ops as [|o ops IH]; intros f0 k torn K Hs Hf.
  - unfold crash. destruct k; cbn; destruct torn; reflexivity.
  - destruct k as [|k].
    + unfold crash. cbn [firstn run_ops fold_left nth_error].
      destruct torn as [j|]; [|reflexivity]. cbn in Hs. apply tear_model_file; tauto.
    + cbn in Hs. destruct Hs as [Hp Hs].
      assert (Hc : crash f0 (o :: ops) (S k) torn = crash (apply_op o f0) ops k torn) by reflexivity.
      rewrite Hc. pose proof (step_model_file _ _ _ Hp Hf) as E.
      rewrite IH; [exact E | exact Hs |]. unfold is_file in *. rewrite E. exact Hf.
Qed.

(* ---- one step: the invariant "no marker => the key's own files are complete" --------------- *)
Lemma good_local_after_neutral f g K :
  (forall p, special_key p = Some K -> p <> pending K -> lookup g p = lookup f p) ->
  good_local g K = good_local f K.
Proof.
  intros H. apply good_local_frame; apply H; try reflexivity; discriminate.
Qed.

Lemma step_inv f o : Inv f -> proto f o -> Inv (apply_op o f).
Proof.
  intros HI [Hsrc Hp] K Hne. unfold proto in Hp.
  destruct (wtarget o) as [p|] eqn:Ht.
  2:{ rewrite (exists_frame f) in Hne by (apply (frame_special _ _ _ Hsrc); [eexists; reflexivity | congruence]).
      rewrite <- (HI K Hne). apply good_local_frame; (apply (frame_special _ _ _ Hsrc); [eexists; reflexivity | congruence]). }
  destruct (special_key p) as [K'|] eqn:Hsk.
  2:{ destruct (special_key_none p K Hsk) as [H1 [H2 [H3 H4]]].
      rewrite (exists_frame f) in Hne by (apply (frame_special _ _ _ Hsrc); [eexists; reflexivity | congruence]).
      rewrite <- (HI K Hne). apply good_local_frame; (apply (frame_special _ _ _ Hsrc); [eexists; reflexivity | congruence]). }
  destruct (N.eq_dec K' K) as [-> | HK].
  - destruct Hp as [Hp1 Hp2]. destruct (path_eq_dec p (pending K)) as [-> | Hnp].
    + destruct (Hp1 eq_refl) as [-> | [-> Hg]].
      * destruct (exists_after_openx f (pending K)) as [E | E]; [congruence|].
        rewrite E in *. apply HI. exact Hne.
      * rewrite <- Hg. apply good_local_frame; (apply (frame_special _ _ _ Hsrc); [eexists; reflexivity | cbn; discriminate]).
    + destruct (Hp2 Hnp) as [c [-> [Hpe _]]].
      rewrite (exists_frame f) in Hne by (apply (frame_special _ _ _ Hsrc); [eexists; reflexivity | cbn; congruence]). congruence.
  - (* an operation on another key's files *)
    assert (Hd : forall q, special_key q = Some K -> p <> q).
    { intros q Hq ->. apply HK. congruence. }
    assert (Hfr : forall q, special_key q = Some K -> lookup (apply_op o f) q = lookup f q).
    { intros q Hq. apply (frame_special _ _ _ Hsrc); [eexists; exact Hq|]. rewrite Ht. intros [= E]. exact (Hd q Hq E). }
    rewrite (exists_frame f) in Hne by (apply Hfr; reflexivity).
    rewrite <- (HI K Hne). apply good_local_frame; apply Hfr; reflexivity.
Qed.

Lemma tear_inv f o j : Inv f -> proto f o -> Inv (tear_op o j f).
Proof.
  intros HI [Hsrc Hp] K Hne. unfold proto in Hp.
  destruct (wtarget o) as [p|] eqn:Ht.
  2:{ rewrite (exists_frame f) in Hne by (apply tear_op_frame; congruence).
      rewrite <- (HI K Hne). apply good_local_frame; apply tear_op_frame; congruence. }
  destruct (special_key p) as [K'|] eqn:Hsk.
  2:{ destruct (special_key_none p K Hsk) as [H1 [H2 [H3 H4]]].
      rewrite (exists_frame f) in Hne by (apply tear_op_frame; congruence).
      rewrite <- (HI K Hne). apply good_local_frame; apply tear_op_frame; congruence. }
  destruct (N.eq_dec K' K) as [-> | HK].
  - destruct Hp as [Hp1 Hp2]. destruct (path_eq_dec p (pending K)) as [-> | Hnp].
    + destruct (Hp1 eq_refl) as [-> | [-> Hg]]; cbn [tear_op] in *; apply HI; exact Hne.
    + destruct (Hp2 Hnp) as [c [-> [Hpe _]]].
      rewrite (exists_frame f) in Hne by (apply tear_op_frame; cbn; congruence). congruence.
  - assert (Hd : forall q, special_key q = Some K -> p <> q).
    { intros q Hq ->. apply HK. congruence. }
    assert (Hfr : forall q, special_key q = Some K -> lookup (tear_op o j f) q = lookup f q).
    { intros q Hq. apply tear_op_frame. rewrite Ht. intros [= E]. exact (Hd q Hq E). }
    rewrite (exists_frame f) in Hne by (apply Hfr; reflexivity).
    rewrite <- (HI K Hne). apply good_local_frame; apply Hfr; reflexivity.
Qed.

Lemma run_ops_inv ops f : Inv f -> allsteps ops f -> Inv (run_ops ops f).
Proof.
  revert f. induction ops as [|o ops IH]; intros f HI Hs; [exact HI|].
  cbn in Hs. rewrite run_ops_cons. apply IH; [apply step_inv; tauto | tauto].
Qed.

Lemma crash_inv ops f0 k torn : Inv f0 -> allsteps ops f0 -> Inv (crash f0 ops k torn).
Proof.
  intros HI Hs. unfold crash.
  assert (H1 : Inv (run_ops (firstn k ops) f0)) by (apply run_ops_inv; [exact HI | apply allsteps_firstn; exact Hs]).
  destruct torn as [j|]; [|exact H1].
  destruct (nth_error ops k) as [o|] eqn:E; [|exact H1].
  apply tear_inv; [exact H1 | eapply allsteps_nth; eassumption].
Qed.

(* what the invariant gives a reader *)
Lemma inv_visible_complete f K :
  Inv f -> visible f K = true ->
  (exists h n, lookup f (model_file K) = Some (File [T_MODEL; K; h; n]))
  /\ not_torn (lookup f (results_file K)) = true /\ not_torn (lookup f (metadata_file K)) = true.
Proof.
  intros HI Hv. unfold visible in Hv. apply andb_true_iff in Hv. destruct Hv as [Hp Hf].
  apply negb_true_iff in Hp. specialize (HI K Hp). unfold good_local in HI.
  apply andb_true_iff in HI. destruct HI as [HI H3]. apply andb_true_iff in HI. destruct HI as [H1 H2].
  split; [|tauto]. unfold is_file in Hf.
  destruct (lookup f (model_file K)) as [[| c | c | t]|]; try discriminate.
  destruct c as [|t [|K' [|h [|n [|? ?]]]]]; try discriminate.
  apply andb_true_iff in H1. destruct H1 as [E1 E2].
  apply N.eqb_eq in E1. apply N.eqb_eq in E2. subst. eauto.
Qed.

(* ========================================================================================= *)
(* 3. a small program logic: every program of the model emits protocol-conformant steps       *)

(* g agrees with f on every path a transaction protects *)
Definition sameS (f g : fs) : Prop := forall p K, special_key p = Some K -> lookup g p = lookup f p.
Definition respects (P : fs -> Prop) : Prop := forall f g, sameS f g -> P f -> P g.

Definition hoare {A} (P : fs -> Prop) (m : M A) (Q : A -> fs -> Prop) : Prop :=
  forall f, P f ->
    allsteps (fst (m f)) f /\ forall a, snd (m f) = inr a -> Q a (run_ops (fst (m f)) f).

Lemma hoare_conseq {A} (P P' : fs -> Prop) (m : M A) (Q Q' : A -> fs -> Prop) :
  (forall f, P' f -> P f) -> (forall a f, Q a f -> Q' a f) -> hoare P m Q -> hoare P' m Q'.
Proof.
  intros H1 H2 H f HP. destruct (H f (H1 f HP)) as [Ha Hq]. split; [exact Ha|].
  intros a E. apply H2. apply Hq. exact E.
Qed.

Lemma hoare_ret {A} (P : fs -> Prop) (a : A) (Q : A -> fs -> Prop) :
  (forall f, P f -> Q a f) -> hoare P (ret a) Q.
Proof. intros H f HP. cbn. split; [exact I|]. intros b [= <-]. apply H. exact HP. Qed.

Lemma hoare_fail {A} (P : fs -> Prop) e (Q : A -> fs -> Prop) : hoare P (fail e) Q.
Proof. intros f HP. cbn. split; [exact I|]. intros b E. discriminate. Qed.

Lemma hoare_emit (P : fs -> Prop) o (Q : unit -> fs -> Prop) :
  (forall f, P f -> proto f o /\ Q tt (apply_op o f)) -> hoare P (emit o) Q.
Proof.
  intros H f HP. destruct (H f HP) as [H1 H2]. cbn. split; [tauto|]. intros [] _. exact H2.
Qed.

Lemma hoare_bind {A B} (P : fs -> Prop) (m : M A) (Q : A -> fs -> Prop) (k : A -> M B) (R : B -> fs -> Prop) :
  hoare P m Q -> (forall a, hoare (Q a) (k a) R) -> hoare P (bind m k) R.
Proof.
  intros Hm Hk f HP. unfold bind. destruct (Hm f HP) as [Ha Hq].
  destruct (m f) as [ops r]. cbn in Ha, Hq. destruct r as [e|a]; cbn.
  - split; [exact Ha|]. intros b E. discriminate.
  - destruct (Hk a (run_ops ops f) (Hq a eq_refl)) as [Ha2 Hq2].
    destruct (k a (run_ops ops f)) as [ops2 r2]. cbn in *. split.
    + apply allsteps_app. split; assumption.
    + intros b E. rewrite run_ops_app. apply Hq2. exact E.
Qed.

(* f <- get ;; k f : the continuation may use that its argument is the current state *)
Lemma hoare_get {B} (P : fs -> Prop) (k : fs -> M B) (R : B -> fs -> Prop) :
  (forall f0, P f0 -> hoare (fun g => P g /\ g = f0) (k f0) R) -> hoare P (bind get k) R.
Proof.
  intros H f HP. unfold bind, get. cbn. specialize (H f HP f (conj HP eq_refl)).
  destruct (k f f) as [ops r]. cbn in *. exact H.
Qed.

(* ---- programs that never touch a protected path ------------------------------------------- *)
Definition neutral_prog {A} (m : M A) : Prop := forall f, forallb neutralb (fst (m f)) = true.

Lemma neutral_ret {A} (a : A) : neutral_prog (ret a).
Proof. intros f. reflexivity. Qed.
Lemma neutral_fail {A} e : neutral_prog (@fail A e).
Proof. intros f. reflexivity. Qed.
Lemma neutral_get : neutral_prog get.
Proof. intros f. reflexivity. Qed.
Lemma neutral_emit o : neutralb o = true -> neutral_prog (emit o).
Proof. intros H f. cbn. rewrite H. reflexivity. Qed.
Lemma neutral_bind {A B} (m : M A) (k : A -> M B) :
  neutral_prog m -> (forall a, neutral_prog (k a)) -> neutral_prog (bind m k).
Proof.
  intros Hm Hk f. unfold bind. specialize (Hm f). destruct (m f) as [ops r]. cbn in Hm.
  destruct r as [e|a]; cbn; [exact Hm|].
  specialize (Hk a (run_ops ops f)). destruct (k a (run_ops ops f)) as [ops2 r2]. cbn in *.
  rewrite forallb_app, Hm, Hk. reflexivity.
Qed.

Lemma neutral_sameS o f : neutralb o = true -> sameS f (apply_op o f).
Proof.
  intros H p K Hk. unfold neutralb, not_special in H. apply andb_true_iff in H. destruct H as [H1 H2].
  apply apply_op_frame.
  - destruct (wtarget o) as [q|]; [|discriminate]. intros [= ->]. rewrite Hk in H1. discriminate.
  - destruct (wsource o) as [q|]; [|discriminate]. intros [= ->]. rewrite Hk in H2. discriminate.
Qed.

Lemma neutral_proto o f : neutralb o = true -> proto f o.
Proof.
  unfold neutralb, proto, src_ok. intros H. apply andb_true_iff in H. destruct H as [H1 H2]. split; [exact H2|].
  unfold not_special in H1. destruct (wtarget o) as [p|]; [|tauto].
  destruct (special_key p); [discriminate | tauto].
Qed.

Lemma neutral_ops_hoare (P : fs -> Prop) ops f :
  respects P -> forallb neutralb ops = true -> P f -> allsteps ops f /\ P (run_ops ops f).
Proof.
  intros HR. revert f. induction ops as [|o ops IH]; intros f Hn HP; [split; [exact I | exact HP]|].
  cbn in Hn. apply andb_true_iff in Hn. destruct Hn as [Ho Hn].
  assert (HP' : P (apply_op o f)) by (eapply HR; [apply neutral_sameS; exact Ho | exact HP]).
  destruct (IH _ Hn HP') as [H1 H2]. split; [|exact H2].
  cbn. split; [apply neutral_proto; exact Ho | exact H1].
Qed.

Lemma neutral_hoare {A} (P : fs -> Prop) (m : M A) :
  respects P -> neutral_prog m -> hoare P m (fun _ => P).
Proof.
  intros HR Hn f HP. destruct (neutral_ops_hoare P _ f HR (Hn f) HP) as [H1 H2].
  split; [exact H1 | intros; exact H2].
Qed.

(* ---- the primitives ------------------------------------------------------------------------ *)
Fixpoint ancestors (fuel : nat) (p : path) : list path :=
  p :: match fuel with 0 => [] | S n => ancestors n (removelast p) end.

Ltac neutral_tac :=
  repeat match goal with
         | |- neutral_prog (bind _ _) => apply neutral_bind; [|intro]
         | |- neutral_prog (ret _) => apply neutral_ret
         | |- neutral_prog (fail _) => apply neutral_fail
         | |- neutral_prog get => apply neutral_get
         | |- neutral_prog (emit _) => apply neutral_emit; first [reflexivity | assumption]
         | |- neutral_prog (if ?b then _ else _) => destruct b
         | |- neutral_prog (match ?x with _ => _ end) => destruct x
         end.

Lemma neutral_mkdir1 p b : neutralb (Mkdir p) = true -> neutral_prog (mkdir1 p b).
Proof. intros H. unfold mkdir1. neutral_tac. Qed.

Lemma neutral_mkdir_p_aux fuel : forall p,
  forallb (fun q => neutralb (Mkdir q)) (ancestors fuel p) = true -> neutral_prog (mkdir_p_aux fuel p).
Proof.
  induction fuel as [|n IH]; intros p H; cbn in H; apply andb_true_iff in H; destruct H as [H1 H2];
    cbn [mkdir_p_aux]; neutral_tac.
  - apply IH. exact H2.
  - apply neutral_mkdir1. exact H1.
Qed.

Lemma neutral_mkdir_p p :
  forallb (fun q => neutralb (Mkdir q)) (ancestors (length p) p) = true -> neutral_prog (mkdir_p p).
Proof. apply neutral_mkdir_p_aux. Qed.

Lemma neutral_touch p : neutralb (OpenC p) = true -> neutral_prog (touch p).
Proof. intros H. unfold touch. neutral_tac. Qed.
Lemma neutral_lock p : neutralb (OpenC p) = true -> neutral_prog (lock p).
Proof. intros H. unfold lock. neutral_tac. apply neutral_touch. exact H. Qed.
Lemma neutral_write_file p c : neutralb (OpenW p c) = true -> neutral_prog (write_file p c).
Proof. intros H. unfold write_file. neutral_tac. Qed.
Lemma neutral_append_file p c : neutralb (OpenA p c) = true -> neutral_prog (append_file p c).
Proof. intros H. unfold append_file. neutral_tac. Qed.
Lemma neutral_rename_file s0 d : neutralb (Rename s0 d) = true -> neutral_prog (rename_file s0 d).
Proof. intros H. unfold rename_file. neutral_tac. Qed.
Lemma neutral_read_file p : neutral_prog (read_file p).
Proof. unfold read_file. neutral_tac. Qed.

Ltac neutral_prim :=
  first [ apply neutral_mkdir_p; reflexivity
        | apply neutral_mkdir1; reflexivity
        | apply neutral_touch; reflexivity
        | apply neutral_lock; reflexivity
        | apply neutral_write_file; reflexivity
        | apply neutral_append_file; reflexivity
        | apply neutral_rename_file; reflexivity
        | apply neutral_read_file ].

Ltac neutral_all :=
  repeat first [ neutral_prim
               | match goal with
                 | |- neutral_prog (bind _ _) => apply neutral_bind; [|intro]
                 | |- neutral_prog (ret _) => apply neutral_ret
                 | |- neutral_prog (fail _) => apply neutral_fail
                 | |- neutral_prog get => apply neutral_get
                 | |- neutral_prog (emit _) => apply neutral_emit; reflexivity
                 | |- neutral_prog (if ?b then _ else _) => destruct b
                 | |- neutral_prog (match ?x with _ => _ end) => destruct x
                 | |- neutral_prog (let '(_, _) := ?x in _) => destruct x
                 end ].

Lemma store_model_unfold m :
  store_model m =
  (f <- get ;;
   if is_file f (model_file (m_key m)) then ret tt else
   link <- store_dataset m f ;;
   mkdir1 (key_dir (m_key m)) true ;;
   write_file (model_file (m_key m)) [T_MODEL; m_key m; m_dh m; link]).
Proof. reflexivity. Qed.

Lemma neutral_store_dataset m f : neutral_prog (store_dataset m f).
Proof. unfold store_dataset. neutral_all. Qed.

(* ---- the protected programs ---------------------------------------------------------------- *)
(* inside a transaction on K: the marker is there and the key's own files are complete *)
Definition Ptxn (K : N) (f : fs) : Prop := exists_ f (pending K) = true /\ good_local f K = true.

Lemma sameS_exists f g K : sameS f g -> exists_ g (pending K) = exists_ f (pending K).
Proof. intros H. apply exists_frame. apply (H _ K). reflexivity. Qed.
Lemma sameS_good f g K : sameS f g -> good_local g K = good_local f K.
Proof. intros H. apply good_local_frame; apply (H _ K); reflexivity. Qed.
Lemma sameS_is_file_model f g K : sameS f g -> is_file g (model_file K) = is_file f (model_file K).
Proof. intros H. apply is_file_frame. apply (H _ K). reflexivity. Qed.

Lemma respects_Inv : respects Inv.
Proof. intros f g H HI K Hne. rewrite (sameS_exists f g K H) in Hne. rewrite (sameS_good f g K H). apply HI. exact Hne. Qed.
Lemma respects_Ptxn K : respects (Ptxn K).
Proof. intros f g H [H1 H2]. split; [rewrite (sameS_exists f g K H) | rewrite (sameS_good f g K H)]; assumption. Qed.
Lemma respects_Ptxn_nofile K : respects (fun f => Ptxn K f /\ is_file f (model_file K) = false).
Proof.
  intros f g H [H1 H2]. split; [eapply respects_Ptxn; eassumption|].
  rewrite (sameS_is_file_model f g K H). exact H2.
Qed.
Lemma respects_True : respects (fun _ => True).
Proof. intros f g _ _. exact I. Qed.

Lemma write_file_eq p c f :
  write_file p c f = ([OpenW p c], if can_write f p then inr tt else inl EFileNotFound).
Proof. unfold write_file, bind, get, emit, ret, fail. cbn. destruct (can_write f p); reflexivity. Qed.

Lemma touch_excl_eq p f :
  touch_excl p f = ([OpenX p], if exists_ f p then inl EPending else if parent_ok f p then inr tt else inl EFileNotFound).
Proof.
  unfold touch_excl, bind, get, emit, ret, fail. cbn. destruct (exists_ f p); [reflexivity|].
  destruct (parent_ok f p); reflexivity.
Qed.

Lemma remove_file_eq p f :
  fst (remove_file p f) = [Remove p].
Proof.
  unfold remove_file, bind, get, emit, ret, fail. cbn.
  destruct (lookup f p) as [[| | |]|]; reflexivity.
Qed.

Lemma hoare_write_file (P : fs -> Prop) p c (Q : unit -> fs -> Prop) :
  (forall f, P f -> proto f (OpenW p c) /\ (can_write f p = true -> Q tt (apply_op (OpenW p c) f))) ->
  hoare P (write_file p c) Q.
Proof.
  intros H f HP. rewrite write_file_eq. cbn [fst snd]. destruct (H f HP) as [H1 H2]. split.
  - cbn. tauto.
  - intros [] E. destruct (can_write f p); [|discriminate]. apply H2. reflexivity.
Qed.

Lemma good_local_split f K :
  good_local f K = true <->
  (match lookup f (model_file K) with
   | None => true
   | Some (File [t; K'; _; _]) => N.eqb t T_MODEL && N.eqb K' K
   | _ => false end = true)
  /\ not_torn (lookup f (results_file K)) = true /\ not_torn (lookup f (metadata_file K)) = true.
Proof. unfold good_local. rewrite !andb_true_iff. tauto. Qed.

Lemma good_local_set_model f K h n :
  good_local f K = true -> good_local (set f (model_file K) (File [T_MODEL; K; h; n])) K = true.
Proof.
  rewrite !good_local_split. intros [_ [H2 H3]].
  rewrite lookup_set_same, !lookup_set_other by discriminate.
  repeat split; try assumption. cbn. rewrite N.eqb_refl. reflexivity.
Qed.

Lemma good_local_set_results f K c :
  good_local f K = true -> good_local (set f (results_file K) (File c)) K = true.
Proof.
  rewrite !good_local_split. intros [H1 [H2 H3]].
  rewrite lookup_set_same, !lookup_set_other by discriminate. tauto.
Qed.

Lemma good_local_set_metadata f K c :
  good_local f K = true -> good_local (set f (metadata_file K) (File c)) K = true.
Proof.
  rewrite !good_local_split. intros [H1 [H2 H3]].
  rewrite lookup_set_same, !lookup_set_other by discriminate. tauto.
Qed.

Lemma hoare_write_model K h n :
  hoare (fun f => Ptxn K f /\ is_file f (model_file K) = false)
        (write_file (model_file K) [T_MODEL; K; h; n]) (fun _ => Ptxn K).
Proof.
  apply hoare_write_file. intros f [[H1 H2] H3]. split.
  - unfold proto. split; [reflexivity|]. cbn [wtarget]. replace (special_key (model_file K)) with (Some K) by reflexivity.
    split; [discriminate|]. intros _. eexists. split; [reflexivity|]. split; [exact H1|].
    intros ?. split; [exact H3 | eauto].
  - intros Hc. cbn [apply_op]. rewrite Hc. split.
    + unfold exists_. rewrite lookup_set_other by discriminate. exact H1.
    + apply good_local_set_model. exact H2.
Qed.

Lemma hoare_write_results K c :
  hoare (Ptxn K) (write_file (results_file K) c) (fun _ => Ptxn K).
Proof.
  apply hoare_write_file. intros f [H1 H2]. split.
  - unfold proto. split; [reflexivity|]. cbn [wtarget]. replace (special_key (results_file K)) with (Some K) by reflexivity.
    split; [discriminate|]. intros ?. eexists. split; [reflexivity|]. split; [exact H1|]. discriminate.
  - intros Hc. cbn [apply_op]. rewrite Hc. split.
    + unfold exists_. rewrite lookup_set_other by discriminate. exact H1.
    + apply good_local_set_results. exact H2.
Qed.

Lemma hoare_write_metadata K c :
  hoare (Ptxn K) (write_file (metadata_file K) c) (fun _ => Ptxn K).
Proof.
  apply hoare_write_file. intros f [H1 H2]. split.
  - unfold proto. split; [reflexivity|]. cbn [wtarget]. replace (special_key (metadata_file K)) with (Some K) by reflexivity.
    split; [discriminate|]. intros ?. eexists. split; [reflexivity|]. split; [exact H1|]. discriminate.
  - intros Hc. cbn [apply_op]. rewrite Hc. split.
    + unfold exists_. rewrite lookup_set_other by discriminate. exact H1.
    + apply good_local_set_metadata. exact H2.
Qed.

Lemma hoare_store_model m :
  hoare (Ptxn (m_key m)) (store_model m) (fun _ => Ptxn (m_key m)).
Proof.
  rewrite store_model_unfold. apply hoare_get. intros f0 HP.
  destruct (is_file f0 (model_file (m_key m))) eqn:Ef.
  - apply hoare_ret. tauto.
  - apply hoare_conseq with (P := fun f => Ptxn (m_key m) f /\ is_file f (model_file (m_key m)) = false)
                            (Q := fun _ => Ptxn (m_key m)); [| tauto |].
    { intros f [H E]. subst f. tauto. }
    eapply hoare_bind; [apply neutral_hoare; [apply respects_Ptxn_nofile | apply neutral_store_dataset]|].
    intros link. eapply hoare_bind;
      [apply neutral_hoare; [apply respects_Ptxn_nofile | apply neutral_mkdir1; reflexivity]|].
    intros ?. apply hoare_write_model.
Qed.

Lemma hoare_store_results m :
  hoare (Ptxn (m_key m)) (store_modelfit_results m) (fun _ => Ptxn (m_key m)).
Proof.
  unfold store_modelfit_results.
  eapply hoare_bind; [apply neutral_hoare; [apply respects_Ptxn | apply neutral_mkdir_p; reflexivity]|].
  intros ?. destruct (m_res m); [apply hoare_write_results | apply hoare_ret; tauto].
Qed.

Lemma hoare_store_model_entry m :
  hoare (Ptxn (m_key m)) (store_model_entry m) (fun _ => Ptxn (m_key m)).
Proof.
  unfold store_model_entry. eapply hoare_bind; [apply hoare_store_model|]. intros ?. apply hoare_store_results.
Qed.

Lemma hoare_touch_excl K : hoare Inv (touch_excl (pending K)) (fun _ => Ptxn K).
Proof.
  intros f HI. rewrite touch_excl_eq. cbn [fst snd]. split.
  - cbn. split; [|exact I]. unfold proto. split; [reflexivity|]. cbn [wtarget].
    replace (special_key (pending K)) with (Some K) by reflexivity. split; [tauto|]. intros H. contradiction.
  - intros [] E. destruct (exists_ f (pending K)) eqn:Ee; [discriminate|].
    destruct (parent_ok f (pending K)) eqn:Epo; [|discriminate].
    unfold run_ops. cbn [fold_left apply_op]. rewrite Epo, Ee. cbn [andb negb]. split.
    + unfold exists_. rewrite lookup_set_same. reflexivity.
    + rewrite <- (HI K Ee). apply good_local_frame; apply lookup_set_other; discriminate.
Qed.

Lemma hoare_commit K : hoare (Ptxn K) (remove_file (pending K)) (fun _ _ => True).
Proof.
  intros f [H1 H2]. rewrite remove_file_eq. split; [|tauto].
  cbn. split; [|exact I]. unfold proto. split; [reflexivity|]. cbn [wtarget].
  replace (special_key (pending K)) with (Some K) by reflexivity. split; [|intros H; contradiction].
  intros ?. right. tauto.
Qed.

Lemma hoare_transaction {A} K (body : M A) :
  hoare (Ptxn K) body (fun _ => Ptxn K) -> hoare Inv (transaction K body) (fun _ _ => True).
Proof.
  intros Hb. unfold transaction.
  eapply hoare_bind; [apply neutral_hoare; [apply respects_Inv | apply neutral_mkdir_p; reflexivity]|].
  intros ?. eapply hoare_bind; [apply neutral_hoare; [apply respects_Inv | apply neutral_lock; reflexivity]|].
  intros ?. eapply hoare_bind; [apply hoare_touch_excl|].
  intros ?. eapply hoare_bind; [exact Hb|].
  intros r. eapply hoare_bind; [apply hoare_commit|].
  intros ?. apply hoare_ret. tauto.
Qed.

(* everything outside transactions is neutral *)
Lemma neutral_hoare_true {A} (m : M A) : neutral_prog m -> hoare (fun _ => True) m (fun _ _ => True).
Proof.
  intros H. apply (hoare_conseq (fun _ => True) (fun _ => True) m (fun _ _ => True) (fun _ _ => True));
    [intros; exact I | intros; exact I | apply neutral_hoare; [apply respects_True | exact H]].
Qed.

Lemma neutral_store_key name K : neutral_prog (store_key name K).
Proof. unfold store_key. neutral_all. Qed.
Lemma neutral_store_annotation name a : neutral_prog (store_annotation name a).
Proof. unfold store_annotation. neutral_all. Qed.
Lemma neutral_store_message p d s msg : neutral_prog (store_message p d s msg).
Proof. unfold store_message. neutral_all. Qed.
Lemma neutral_ctx_init : neutral_prog ctx_init.
Proof. unfold ctx_init. neutral_all. Qed.
Lemma neutral_read_model K : neutral_prog (read_model K).
Proof. unfold read_model. neutral_all. Qed.
Lemma neutral_snapshot {A} K (body : M A) : neutral_prog body -> neutral_prog (snapshot K body).
Proof. intros H. unfold snapshot. neutral_all. exact H. Qed.
Lemma neutral_retrieve_model_entry K : neutral_prog (retrieve_model_entry K).
Proof.
  unfold retrieve_model_entry. apply neutral_bind; [apply neutral_read_model | intro].
  apply neutral_bind; [apply neutral_read_model | intro]. neutral_all.
Qed.
Lemma neutral_retrieve_annotation name : neutral_prog (retrieve_annotation name).
Proof. unfold retrieve_annotation. neutral_all. Qed.
Lemma neutral_retrieve_log : neutral_prog retrieve_log.
Proof. unfold retrieve_log. neutral_all. Qed.
Lemma neutral_ctx_retrieve name : neutral_prog (ctx_retrieve name).
Proof.
  unfold ctx_retrieve. apply neutral_bind; [apply neutral_get | intro f].
  destruct (resolve_name f name); [|apply neutral_fail].
  apply neutral_bind; [apply neutral_snapshot; apply neutral_ret | intro].
  apply neutral_bind; [apply neutral_snapshot; apply neutral_retrieve_model_entry | intro].
  apply neutral_bind; [apply neutral_retrieve_annotation | intro]. apply neutral_ret.
Qed.
Lemma neutral_forget {A} (m : M A) : neutral_prog m -> neutral_prog (forget m).
Proof. intros H. unfold forget. apply neutral_bind; [exact H | intro; apply neutral_ret]. Qed.

Lemma neutral_sub_init s0 : neutral_prog (sub_init s0).
Proof. unfold sub_init, annot_path_at, cdir. neutral_all. Qed.
Lemma neutral_store_key_at s0 name K : neutral_prog (store_key_at (cdir (Some s0)) name K).
Proof. unfold store_key_at, name_link_at, cdir. neutral_all. Qed.
Lemma neutral_store_annotation_at s0 name a : neutral_prog (store_annotation_at (cdir (Some s0)) name a).
Proof. unfold store_annotation_at, annot_lock_at, annot_path_at, annot_tmp_at, cdir. neutral_all. Qed.
Lemma neutral_retrieve_annotation_at s0 name : neutral_prog (retrieve_annotation_at (cdir (Some s0)) name).
Proof. unfold retrieve_annotation_at, annot_lock_at, annot_path_at, cdir. neutral_all. Qed.
Lemma neutral_sub_retrieve s0 name : neutral_prog (sub_retrieve s0 name).
Proof.
  unfold sub_retrieve. apply neutral_bind; [apply neutral_get | intro f].
  destruct (resolve_name_at (cdir (Some s0)) f name); [|apply neutral_fail].
  apply neutral_bind; [apply neutral_snapshot; apply neutral_ret | intro].
  apply neutral_bind; [apply neutral_snapshot; apply neutral_retrieve_model_entry | intro].
  apply neutral_bind; [apply neutral_retrieve_annotation_at | intro]. apply neutral_ret.
Qed.
Lemma neutral_store_results c id : neutral_prog (store_results c id).
Proof. unfold store_results, results_json, results_csv, cdir. destruct c; neutral_all. Qed.
Lemma neutral_retrieve_results c : neutral_prog (retrieve_results c).
Proof. unfold retrieve_results, results_json, cdir. destruct c; neutral_all. Qed.

Lemma hoare_inv_true {A} (m : M A) : hoare (fun _ => True) m (fun _ _ => True) -> hoare Inv m (fun _ _ => True).
Proof.
  intros H. apply (hoare_conseq (fun _ => True) Inv m (fun _ _ => True) (fun _ _ => True));
    [intros; exact I | intros; exact I | exact H].
Qed.

(* every workload item emits protocol-conformant steps from a state satisfying the invariant *)
Lemma hoare_item i : hoare Inv (item_prog i) (fun _ _ => True).
Proof.
  destruct i; cbn [item_prog].
  - apply hoare_inv_true, neutral_hoare_true, neutral_ctx_init.
  - unfold ctx_store.
    eapply hoare_bind; [apply hoare_transaction, hoare_store_model_entry|]. intros ?.
    eapply hoare_bind; [apply neutral_hoare_true, neutral_store_key|]. intros ?.
    apply neutral_hoare_true, neutral_store_annotation.
  - unfold db_store_model_entry. apply hoare_transaction, hoare_store_model_entry.
  - unfold db_store_metadata. apply hoare_transaction.
    eapply hoare_bind; [apply neutral_hoare; [apply respects_Ptxn | apply neutral_mkdir_p; reflexivity]|].
    intros ?. apply hoare_write_metadata.
  - apply hoare_inv_true, neutral_hoare_true, neutral_store_annotation.
  - apply hoare_inv_true, neutral_hoare_true, neutral_store_message.
  - apply hoare_inv_true, neutral_hoare_true, neutral_forget, neutral_ctx_retrieve.
  - apply hoare_inv_true, neutral_hoare_true, neutral_forget, neutral_snapshot, neutral_read_model.
  - apply hoare_inv_true, neutral_hoare_true, neutral_forget, neutral_retrieve_annotation.
  - apply hoare_inv_true, neutral_hoare_true, neutral_forget, neutral_retrieve_log.
  - apply hoare_inv_true, neutral_hoare_true, neutral_sub_init.
  - unfold sub_store.
    eapply hoare_bind; [apply hoare_transaction, hoare_store_model_entry|]. intros ?.
    eapply hoare_bind; [apply neutral_hoare_true, neutral_store_key_at|]. intros ?.
    apply neutral_hoare_true, neutral_store_annotation_at.
  - apply hoare_inv_true, neutral_hoare_true, neutral_forget, neutral_sub_retrieve.
  - apply hoare_inv_true, neutral_hoare_true, neutral_store_results.
  - apply hoare_inv_true, neutral_hoare_true, neutral_forget, neutral_retrieve_results.
Qed.

Lemma trace_allsteps w : forall f0, Inv f0 -> allsteps (trace w f0) f0.
Proof.
  induction w as [|i w IH]; intros f0 HI; [exact I|].
  cbn [trace]. apply allsteps_app. destruct (hoare_item i f0 HI) as [Ha _]. split; [exact Ha|].
  apply IH. apply run_ops_inv; assumption.
Qed.

Lemma inv_empty : Inv [].
Proof. intros K _. reflexivity. Qed.

(* ---- the workload-level statements ---------------------------------------------------------- *)
Lemma visible_subset_committed_lemma :
  forall (f0 : fs) (w : list witem) (k : nat) (torn : option nat) (K : N),
    Inv f0 ->
    visible (crash_w f0 w k torn) K = true ->
    visible f0 K = true \/ committed_in (firstn k (trace w f0)) K = true.
Proof.
  intros f0 w k torn K HI Hv. eapply visible_subset_committed_ops; [apply trace_allsteps; exact HI | exact Hv].
Qed.

Lemma crash_inv_lemma :
  forall f0 w k torn, Inv f0 -> Inv (crash_w f0 w k torn).
Proof. intros. apply crash_inv; [assumption | apply trace_allsteps; assumption]. Qed.

Lemma visible_entry_complete_lemma :
  forall f0 w k torn K,
    Inv f0 -> visible (crash_w f0 w k torn) K = true ->
    (exists h n, lookup (crash_w f0 w k torn) (model_file K) = Some (File [T_MODEL; K; h; n]))
    /\ not_torn (lookup (crash_w f0 w k torn) (results_file K)) = true
    /\ not_torn (lookup (crash_w f0 w k torn) (metadata_file K)) = true.
Proof. intros. apply inv_visible_complete; [apply crash_inv_lemma; assumption | assumption]. Qed.

Lemma model_file_immutable_lemma :
  forall f0 w k torn K,
    Inv f0 -> is_file f0 (model_file K) = true ->
    lookup (crash_w f0 w k torn) (model_file K) = lookup f0 (model_file K).
Proof. intros. apply model_file_immutable_ops; [apply trace_allsteps; assumption | assumption]. Qed.

(* ========================================================================================= *)
(* 4. key locality: a transaction on one key never writes another key's files                 *)
Definition all_prog {A} (S : op -> bool) (m : M A) : Prop := forall f, forallb S (fst (m f)) = true.

Lemma all_ret {A} S (a : A) : all_prog S (ret a).
Proof. intros f. reflexivity. Qed.
Lemma all_fail {A} S e : all_prog S (@fail A e).
Proof. intros f. reflexivity. Qed.
Lemma all_get S : all_prog S get.
Proof. intros f. reflexivity. Qed.
Lemma all_emit S o : S o = true -> all_prog S (emit o).
Proof. intros H f. cbn. rewrite H. reflexivity. Qed.
Lemma all_bind {A B} S (m : M A) (k : A -> M B) :
  all_prog S m -> (forall a, all_prog S (k a)) -> all_prog S (bind m k).
Proof.
  intros Hm Hk f. unfold bind. specialize (Hm f). destruct (m f) as [ops r]. cbn in Hm.
  destruct r as [e|a]; cbn; [exact Hm|].
  specialize (Hk a (run_ops ops f)). destruct (k a (run_ops ops f)) as [ops2 r2]. cbn in *.
  rewrite forallb_app, Hm, Hk. reflexivity.
Qed.
Lemma all_weaken {A} (S S' : op -> bool) (m : M A) :
  (forall o, S o = true -> S' o = true) -> all_prog S m -> all_prog S' m.
Proof.
  intros H Hm f. specialize (Hm f). rewrite forallb_forall in *. intros o Ho. apply H, Hm, Ho.
Qed.
Lemma all_of_neutral {A} S (m : M A) :
  (forall o, neutralb o = true -> S o = true) -> neutral_prog m -> all_prog S m.
Proof. intros H Hn. apply (all_weaken neutralb S); assumption. Qed.

Lemma all_write_file S p c : S (OpenW p c) = true -> all_prog S (write_file p c).
Proof. intros H f. rewrite write_file_eq. cbn. rewrite H. reflexivity. Qed.
Lemma all_touch_excl S p : S (OpenX p) = true -> all_prog S (touch_excl p).
Proof. intros H f. rewrite touch_excl_eq. cbn. rewrite H. reflexivity. Qed.
Lemma all_rename_file S s0 d : S (Rename s0 d) = true -> all_prog S (rename_file s0 d).
Proof.
  intros H f. unfold rename_file, bind, get, emit, ret, fail. cbn [fst snd app].
  destruct (is_file f s0 && can_write f d); cbn; rewrite H; reflexivity.
Qed.
Lemma all_remove_file S p : S (Remove p) = true -> all_prog S (remove_file p).
Proof. intros H f. rewrite remove_file_eq. cbn. rewrite H. reflexivity. Qed.

Lemma all_transaction {A} S K (body : M A) :
  (forall o, neutralb o = true -> S o = true) ->
  S (OpenX (pending K)) = true -> S (Remove (pending K)) = true -> all_prog S body ->
  all_prog S (transaction K body).
Proof.
  intros Hn H1 H2 Hb. unfold transaction.
  apply all_bind; [apply all_of_neutral; [exact Hn | apply neutral_mkdir_p; reflexivity] | intro].
  apply all_bind; [apply all_of_neutral; [exact Hn | apply neutral_lock; reflexivity] | intro].
  apply all_bind; [apply all_touch_excl; exact H1 | intro].
  apply all_bind; [exact Hb | intro].
  apply all_bind; [apply all_remove_file; exact H2 | intro]. apply all_ret.
Qed.

Lemma all_store_model_entry S m :
  (forall o, neutralb o = true -> S o = true) ->
  (forall c, S (OpenW (model_file (m_key m)) c) = true) ->
  (forall c, S (OpenW (results_file (m_key m)) c) = true) ->
  all_prog S (store_model_entry m).
Proof.
  intros Hn H1 H2. unfold store_model_entry. apply all_bind; [|intro].
  - rewrite store_model_unfold. apply all_bind; [apply all_get | intro f0].
    destruct (is_file f0 (model_file (m_key m))); [apply all_ret|].
    apply all_bind; [apply all_of_neutral; [exact Hn | apply neutral_store_dataset] | intro].
    apply all_bind; [apply all_of_neutral; [exact Hn | apply neutral_mkdir1; reflexivity] | intro].
    apply all_write_file. apply H1.
  - unfold store_modelfit_results.
    apply all_bind; [apply all_of_neutral; [exact Hn | apply neutral_mkdir_p; reflexivity] | intro].
    destruct (m_res m); [apply all_write_file; apply H2 | apply all_ret].
Qed.

(* the operation does not target a protected path of key K *)
Definition avoids (K : N) (o : op) : bool :=
  match wtarget o with
  | Some p => match special_key p with Some K' => negb (N.eqb K' K) | None => true end
  | None => true
  end && not_special (wsource o).

Lemma avoids_neutral K o : neutralb o = true -> avoids K o = true.
Proof.
  unfold neutralb, avoids, not_special. intros H. apply andb_true_iff in H. destruct H as [H1 H2]. rewrite H2.
  destruct (wtarget o) as [p|]; [|reflexivity]. destruct (special_key p); [discriminate | reflexivity].
Qed.

Lemma avoids_other K K' o p :
  K' <> K -> wtarget o = Some p /\ wsource o = None -> special_key p = Some K' -> avoids K o = true.
Proof.
  intros H [Ht Hso] Hs. unfold avoids. rewrite Ht, Hs, Hso. cbn. rewrite andb_true_r. apply negb_true_iff. apply N.eqb_neq. exact H.
Qed.

Lemma all_item_avoids i K : item_key i <> Some K -> all_prog (avoids K) (item_prog i).
Proof.
  intros Hk.
  assert (Hn : forall o, neutralb o = true -> avoids K o = true) by (apply avoids_neutral).
  destruct i; cbn [item_prog item_key] in *;
    try (apply all_of_neutral; [exact Hn|];
         first [ apply neutral_ctx_init | apply neutral_store_annotation | apply neutral_store_message
               | apply neutral_forget, neutral_ctx_retrieve
               | apply neutral_forget, neutral_snapshot, neutral_read_model
               | apply neutral_forget, neutral_retrieve_annotation
               | apply neutral_forget, neutral_retrieve_log
               | apply neutral_sub_init | apply neutral_forget, neutral_sub_retrieve
               | apply neutral_store_results | apply neutral_forget, neutral_retrieve_results ]).
  - assert (Hne : m_key m <> K) by congruence.
    unfold ctx_store. apply all_bind; [|intro].
    + apply all_transaction; try exact Hn; try (eapply avoids_other; [exact Hne | split; reflexivity | reflexivity]).
      apply all_store_model_entry; try exact Hn; intros c; eapply avoids_other; [exact Hne | split; reflexivity | reflexivity | exact Hne | split; reflexivity | reflexivity].
    + apply all_bind; [apply all_of_neutral; [exact Hn | apply neutral_store_key] | intro].
      apply all_of_neutral; [exact Hn | apply neutral_store_annotation].
  - assert (Hne : m_key m <> K) by congruence.
    unfold db_store_model_entry.
    apply all_transaction; try exact Hn; try (eapply avoids_other; [exact Hne | split; reflexivity | reflexivity]).
    apply all_store_model_entry; try exact Hn; intros c; eapply avoids_other; [exact Hne | split; reflexivity | reflexivity | exact Hne | split; reflexivity | reflexivity].
  - assert (Hne : m_key m <> K) by congruence.
    unfold db_store_metadata.
    apply all_transaction; try exact Hn; try (eapply avoids_other; [exact Hne | split; reflexivity | reflexivity]).
    apply all_bind; [apply all_of_neutral; [exact Hn | apply neutral_mkdir_p; reflexivity] | intro].
    apply all_write_file. eapply avoids_other; [exact Hne | split; reflexivity | reflexivity].
  - assert (Hne : m_key m <> K) by congruence.
    unfold sub_store. apply all_bind; [|intro].
    + apply all_transaction; try exact Hn; try (eapply avoids_other; [exact Hne | split; reflexivity | reflexivity]).
      apply all_store_model_entry; try exact Hn; intros c; eapply avoids_other; [exact Hne | split; reflexivity | reflexivity | exact Hne | split; reflexivity | reflexivity].
    + apply all_bind; [apply all_of_neutral; [exact Hn | apply neutral_store_key_at] | intro].
      apply all_of_neutral; [exact Hn | apply neutral_store_annotation_at].
Qed.

Lemma trace_avoids w K : forall f0,
  (forall i, In i w -> item_key i <> Some K) -> forallb (avoids K) (trace w f0) = true.
Proof.
  induction w as [|i w IH]; intros f0 H; [reflexivity|]. cbn [trace]. rewrite forallb_app. unfold item_ops at 1.
  rewrite (all_item_avoids i K (H i (or_introl eq_refl)) f0). cbn [andb].
  apply IH. intros j Hj. apply H. right. exact Hj.
Qed.

Lemma avoids_target K o p : avoids K o = true -> special_key p = Some K -> wtarget o <> Some p /\ wsource o <> Some p.
Proof.
  unfold avoids, not_special. intros H Hs. apply andb_true_iff in H. destruct H as [H1 H2]. split; intros E.
  - rewrite E, Hs, N.eqb_refl in H1. discriminate.
  - rewrite E, Hs in H2. discriminate.
Qed.

Lemma avoiding_ops_frame ops : forall f0 k torn K p,
  forallb (avoids K) ops = true -> special_key p = Some K ->
  lookup (crash f0 ops k torn) p = lookup f0 p.
Proof.
  induction ops as [|o ops IH]; intros f0 k torn K p Ha Hs.
  - unfold crash. destruct k; cbn; destruct torn; reflexivity.
  - cbn in Ha. apply andb_true_iff in Ha. destruct Ha as [Ho Ha]. destruct k as [|k].
    + unfold crash. cbn [firstn run_ops fold_left nth_error]. destruct torn as [j|]; [|reflexivity].
      apply tear_op_frame. eapply avoids_target; eassumption.
    + assert (Hc : crash f0 (o :: ops) (S k) torn = crash (apply_op o f0) ops k torn) by reflexivity.
      rewrite Hc, (IH _ _ _ K p Ha Hs). destruct (avoids_target K o p Ho Hs). apply apply_op_frame; assumption.
Qed.

Lemma committed_intact_lemma :
  forall (f0 : fs) (w : list witem) (k : nat) (torn : option nat) (K : N) (p : path),
    (forall i, In i w -> item_key i <> Some K) ->
    special_key p = Some K ->
    lookup (crash_w f0 w k torn) p = lookup f0 p.
Proof.
  intros f0 w k torn K p H Hs. unfold crash_w. eapply avoiding_ops_frame; [apply trace_avoids; exact H | exact Hs].
Qed.

Lemma committed_retrievable_lemma :
  forall (f0 : fs) (w : list witem) (k : nat) (torn : option nat) (K : N),
    Inv f0 -> visible f0 K = true ->
    exists_ (crash_w f0 w k torn) (pending K) = false ->
    visible (crash_w f0 w k torn) K = true
    /\ lookup (crash_w f0 w k torn) (model_file K) = lookup f0 (model_file K).
Proof.
  intros f0 w k torn K HI Hv Hp. unfold visible in Hv. apply andb_true_iff in Hv. destruct Hv as [_ Hf].
  pose proof (model_file_immutable_lemma f0 w k torn K HI Hf) as E. split; [|exact E].
  unfold visible. rewrite Hp. cbn. unfold is_file in *. rewrite E. exact Hf.
Qed.

(* ========================================================================================= *)
(* 5. names: a models/<name> link is only made after the transaction on its key committed      *)
Definition nosym (o : op) : bool := match o with Symlink _ _ => false | _ => true end.

Ltac nosym_tac :=
  repeat match goal with
         | |- all_prog nosym (bind _ _) => apply all_bind; [|intro]
         | |- all_prog nosym (ret _) => apply all_ret
         | |- all_prog nosym (fail _) => apply all_fail
         | |- all_prog nosym get => apply all_get
         | |- all_prog nosym (emit _) => apply all_emit; reflexivity
         | |- all_prog nosym (if ?b then _ else _) => destruct b
         | |- all_prog nosym (match ?x with _ => _ end) => destruct x
         end.

Lemma nosym_mkdir1 p b : all_prog nosym (mkdir1 p b).
Proof. unfold mkdir1. nosym_tac. Qed.
Lemma nosym_mkdir_p_aux fuel : forall p, all_prog nosym (mkdir_p_aux fuel p).
Proof.
  induction fuel as [|n IH]; intros p; cbn [mkdir_p_aux]; nosym_tac; [apply IH | apply nosym_mkdir1].
Qed.
Lemma nosym_mkdir_p p : all_prog nosym (mkdir_p p).
Proof. apply nosym_mkdir_p_aux. Qed.
Lemma nosym_touch p : all_prog nosym (touch p).
Proof. unfold touch. nosym_tac. Qed.
Lemma nosym_lock p : all_prog nosym (lock p).
Proof. unfold lock. nosym_tac. apply nosym_touch. Qed.
Lemma nosym_write_file p c : all_prog nosym (write_file p c).
Proof. apply all_write_file. reflexivity. Qed.
Lemma nosym_append_file p c : all_prog nosym (append_file p c).
Proof. unfold append_file. nosym_tac. Qed.
Lemma nosym_read_file p : all_prog nosym (read_file p).
Proof. unfold read_file. nosym_tac. Qed.

Ltac nosym_all :=
  repeat first [ apply nosym_mkdir_p | apply nosym_mkdir1 | apply nosym_touch | apply nosym_lock
               | apply nosym_write_file | apply nosym_append_file | apply nosym_read_file
               | apply all_touch_excl; reflexivity | apply all_remove_file; reflexivity
               | apply all_rename_file; reflexivity
               | match goal with
                 | |- all_prog nosym (bind _ _) => apply all_bind; [|intro]
                 | |- all_prog nosym (ret _) => apply all_ret
                 | |- all_prog nosym (fail _) => apply all_fail
                 | |- all_prog nosym get => apply all_get
                 | |- all_prog nosym (emit _) => apply all_emit; reflexivity
                 | |- all_prog nosym (if ?b then _ else _) => destruct b
                 | |- all_prog nosym (match ?x with _ => _ end) => destruct x
                 end ].

Lemma nosym_transaction {A} K (body : M A) : all_prog nosym body -> all_prog nosym (transaction K body).
Proof. intros H. unfold transaction. nosym_all. exact H. Qed.
Lemma nosym_store_model_entry m : all_prog nosym (store_model_entry m).
Proof. unfold store_model_entry, store_model, store_modelfit_results, store_dataset. cbv zeta. nosym_all. Qed.
Lemma nosym_store_annotation name a : all_prog nosym (store_annotation name a).
Proof. unfold store_annotation. nosym_all. Qed.
Lemma nosym_store_message p d s msg : all_prog nosym (store_message p d s msg).
Proof. unfold store_message. nosym_all. Qed.
Lemma nosym_ctx_init : all_prog nosym ctx_init.
Proof. unfold ctx_init. nosym_all. Qed.
Lemma nosym_read_model K : all_prog nosym (read_model K).
Proof. unfold read_model. nosym_all. Qed.
Lemma nosym_snapshot {A} K (body : M A) : all_prog nosym body -> all_prog nosym (snapshot K body).
Proof. intros H. unfold snapshot. nosym_all. exact H. Qed.
Lemma nosym_retrieve_annotation name : all_prog nosym (retrieve_annotation name).
Proof. unfold retrieve_annotation. nosym_all. Qed.
Lemma nosym_retrieve_log : all_prog nosym retrieve_log.
Proof. unfold retrieve_log. nosym_all. Qed.
Lemma nosym_retrieve_model_entry K : all_prog nosym (retrieve_model_entry K).
Proof.
  unfold retrieve_model_entry. apply all_bind; [apply nosym_read_model | intro].
  apply all_bind; [apply nosym_read_model | intro]. nosym_all.
Qed.
Lemma nosym_ctx_retrieve name : all_prog nosym (ctx_retrieve name).
Proof.
  unfold ctx_retrieve. apply all_bind; [apply all_get | intro f].
  destruct (resolve_name f name); [|apply all_fail].
  apply all_bind; [apply nosym_snapshot; apply all_ret | intro].
  apply all_bind; [apply nosym_snapshot; apply nosym_retrieve_model_entry | intro].
  apply all_bind; [apply nosym_retrieve_annotation | intro]. apply all_ret.
Qed.
Lemma nosym_sub_init s0 : all_prog nosym (sub_init s0).
Proof. unfold sub_init. nosym_all. Qed.
Lemma nosym_store_annotation_at cp name a : all_prog nosym (store_annotation_at cp name a).
Proof. unfold store_annotation_at. nosym_all. Qed.
Lemma nosym_retrieve_annotation_at cp name : all_prog nosym (retrieve_annotation_at cp name).
Proof. unfold retrieve_annotation_at. nosym_all. Qed.
Lemma nosym_sub_retrieve s0 name : all_prog nosym (sub_retrieve s0 name).
Proof.
  unfold sub_retrieve. apply all_bind; [apply all_get | intro f].
  destruct (resolve_name_at (cdir (Some s0)) f name); [|apply all_fail].
  apply all_bind; [apply nosym_snapshot; apply all_ret | intro].
  apply all_bind; [apply nosym_snapshot; apply nosym_retrieve_model_entry | intro].
  apply all_bind; [apply nosym_retrieve_annotation_at | intro]. apply all_ret.
Qed.
Lemma nosym_store_results c id : all_prog nosym (store_results c id).
Proof. unfold store_results. nosym_all. Qed.
Lemma nosym_retrieve_results c : all_prog nosym (retrieve_results c).
Proof. unfold retrieve_results. nosym_all. Qed.
Lemma nosym_forget {A} (m : M A) : all_prog nosym m -> all_prog nosym (forget m).
Proof. intros H. unfold forget. apply all_bind; [exact H | intro; apply all_ret]. Qed.

(* every Symlink to a key directory comes after the commit of that key *)
Definition sym_check (seen : list op) (o : op) : bool :=
  match o with
  | Symlink [CDb; CKey K] _ => committed_in seen K
  | Symlink _ _ => false
  | _ => true
  end.
Fixpoint sym_okb (seen ops : list op) : bool :=
  match ops with
  | [] => true
  | o :: tl => sym_check seen o && sym_okb (o :: seen) tl
  end.

Lemma sym_okb_nosym ops : forall seen, forallb nosym ops = true -> sym_okb seen ops = true.
Proof.
  induction ops as [|o ops IH]; intros seen H; [reflexivity|]. cbn in *.
  apply andb_true_iff in H. destruct H as [Ho H]. rewrite IH by exact H.
  destruct o; try reflexivity. discriminate.
Qed.

Lemma sym_okb_app a : forall seen b, sym_okb seen (a ++ b) = sym_okb seen a && sym_okb (rev a ++ seen) b.
Proof.
  induction a as [|o a IH]; intros seen b; [reflexivity|]. cbn [app sym_okb rev].
  rewrite IH, <- app_assoc, andb_assoc. reflexivity.
Qed.

Lemma committed_in_app a b K : committed_in (a ++ b) K = committed_in a K || committed_in b K.
Proof. unfold committed_in. apply existsb_app. Qed.
Lemma committed_in_rev a K : committed_in (rev a) K = committed_in a K.
Proof.
  unfold committed_in. induction a as [|o a IH]; [reflexivity|]. cbn [rev]. rewrite existsb_app, IH. cbn.
  rewrite orb_false_r. apply orb_comm.
Qed.

Lemma sym_okb_mono ops : forall s s',
  (forall K, committed_in s K = true -> committed_in s' K = true) -> sym_okb s ops = true -> sym_okb s' ops = true.
Proof.
  induction ops as [|o ops IH]; intros s s' H Hs; [reflexivity|]. cbn in *.
  apply andb_true_iff in Hs. destruct Hs as [H1 H2]. apply andb_true_iff. split.
  - destruct o; try exact H1. cbn in *. destruct t as [|[] [|[] [|? ?]]]; try exact H1. apply H. exact H1.
  - apply (IH (o :: s)); [|exact H2]. intros K. rewrite !committed_in_cons. intros E.
    apply orb_true_iff in E. destruct E as [E|E]; [rewrite E; reflexivity | rewrite (H K E); apply orb_true_r].
Qed.

(* a successful bind ran both parts *)
Lemma bind_inr {A B} (m : M A) (k : A -> M B) f b :
  snd (bind m k f) = inr b ->
  exists a, snd (m f) = inr a
            /\ fst (bind m k f) = fst (m f) ++ fst (k a (run_ops (fst (m f)) f))
            /\ snd (k a (run_ops (fst (m f)) f)) = inr b.
Proof.
  unfold bind. destruct (m f) as [ops r]. cbn [fst snd]. destruct r as [e|a]; cbn [fst snd]; [discriminate|].
  intros H. exists a. destruct (k a (run_ops ops f)) as [ops2 r2]. cbn [fst snd] in *. auto.
Qed.
Lemma bind_inl_ops {A B} (m : M A) (k : A -> M B) f e :
  snd (m f) = inl e -> fst (bind m k f) = fst (m f).
Proof. unfold bind. destruct (m f) as [ops r]. cbn. intros ->. reflexivity. Qed.
Lemma bind_inr_ops {A B} (m : M A) (k : A -> M B) f a :
  snd (m f) = inr a -> fst (bind m k f) = fst (m f) ++ fst (k a (run_ops (fst (m f)) f)).
Proof.
  unfold bind. destruct (m f) as [ops r]. cbn [fst snd]. intros ->.
  destruct (k a (run_ops ops f)) as [ops2 r2]. reflexivity.
Qed.

Lemma transaction_commits {A} K (body : M A) f a :
  snd (transaction K body f) = inr a -> committed_in (fst (transaction K body f)) K = true.
Proof.
  unfold transaction. intros H.
  apply bind_inr in H. destruct H as [x1 [_ [E1 H]]]. rewrite E1, committed_in_app. apply orb_true_iff. right.
  apply bind_inr in H. destruct H as [x2 [_ [E2 H]]]. rewrite E2, committed_in_app. apply orb_true_iff. right.
  apply bind_inr in H. destruct H as [x3 [_ [E3 H]]]. rewrite E3, committed_in_app. apply orb_true_iff. right.
  apply bind_inr in H. destruct H as [x4 [_ [E4 H]]]. rewrite E4, committed_in_app. apply orb_true_iff. right.
  apply bind_inr in H. destruct H as [x5 [_ [E5 H]]]. rewrite E5, committed_in_app. apply orb_true_iff. left.
  rewrite remove_file_eq. unfold committed_in. cbn [existsb]. rewrite op_eqb_remove_refl. reflexivity.
Qed.

Lemma store_key_ops name K f :
  fst (store_key name K f) =
  if path_exists f (name_link name) then []
  else if exists_ f (key_dir K) then [Symlink (key_dir K) (name_link name)] else [].
Proof.
  unfold store_key, bind, get, emit, ret, fail. cbn [fst snd].
  destruct (path_exists f (name_link name)); [reflexivity|].
  destruct (exists_ f (key_dir K)); [|reflexivity].
  destruct (exists_ f (name_link name)); [reflexivity|].
  destruct (parent_ok f (name_link name)); reflexivity.
Qed.

Lemma store_key_sym name K f seen :
  committed_in seen K = true -> sym_okb seen (fst (store_key name K f)) = true.
Proof.
  intros H. rewrite store_key_ops.
  destruct (path_exists f (name_link name)); [reflexivity|].
  destruct (exists_ f (key_dir K)); [|reflexivity].
  change (committed_in seen K && true = true). rewrite H. reflexivity.
Qed.

Lemma store_key_at_ops cp name K f :
  fst (store_key_at cp name K f) =
  if path_exists f (name_link_at cp name) then []
  else if exists_ f (key_dir K) then [Symlink (key_dir K) (name_link_at cp name)] else [].
Proof.
  unfold store_key_at, bind, get, emit, ret, fail. cbn [fst snd].
  destruct (path_exists f (name_link_at cp name)); [reflexivity|].
  destruct (exists_ f (key_dir K)); [|reflexivity].
  destruct (exists_ f (name_link_at cp name)); [reflexivity|].
  destruct (parent_ok f (name_link_at cp name)); reflexivity.
Qed.

Lemma store_key_at_sym cp name K f seen :
  committed_in seen K = true -> sym_okb seen (fst (store_key_at cp name K f)) = true.
Proof.
  intros H. rewrite store_key_at_ops.
  destruct (path_exists f (name_link_at cp name)); [reflexivity|].
  destruct (exists_ f (key_dir K)); [|reflexivity].
  change (committed_in seen K && true = true). rewrite H. reflexivity.
Qed.

Lemma item_sym i : forall f seen, sym_okb seen (item_ops i f) = true.
Proof.
  intros f seen. unfold item_ops.
  destruct i; cbn [item_prog];
    try (apply sym_okb_nosym;
         first [ apply nosym_ctx_init | apply nosym_transaction, nosym_store_model_entry
               | apply nosym_store_annotation | apply nosym_store_message
               | apply nosym_forget, nosym_ctx_retrieve | apply nosym_forget, nosym_snapshot, nosym_read_model
               | apply nosym_forget, nosym_retrieve_annotation | apply nosym_forget, nosym_retrieve_log
               | apply nosym_sub_init | apply nosym_forget, nosym_sub_retrieve
               | apply nosym_store_results | apply nosym_forget, nosym_retrieve_results ]).
  - (* ctx.store_model_entry: transaction, then the link, then the annotation *)
    unfold ctx_store.
    destruct (snd (transaction (m_key m) (store_model_entry m) f)) as [e|a] eqn:Et.
    + rewrite (bind_inl_ops _ _ _ _ Et). apply sym_okb_nosym. apply nosym_transaction, nosym_store_model_entry.
    + rewrite (bind_inr_ops _ _ _ _ Et), sym_okb_app.
      rewrite (sym_okb_nosym _ seen (nosym_transaction _ _ (nosym_store_model_entry m) f)). cbn [andb].
      set (f1 := run_ops _ f). set (s1 := rev _ ++ seen).
      assert (Hc : committed_in s1 (m_key m) = true).
      { unfold s1. rewrite committed_in_app, committed_in_rev, (transaction_commits _ _ _ _ Et). reflexivity. }
      destruct (snd (store_key (m_name m) (m_key m) f1)) as [e|u] eqn:Ek.
      * rewrite (bind_inl_ops _ _ _ _ Ek). apply store_key_sym. exact Hc.
      * rewrite (bind_inr_ops _ _ _ _ Ek), sym_okb_app, (store_key_sym _ _ _ _ Hc). cbn [andb].
        apply sym_okb_nosym. apply nosym_store_annotation.
  - unfold db_store_metadata. apply sym_okb_nosym. apply nosym_transaction. nosym_all.
  - (* a subcontext's store_model_entry: the same shape as the top level one *)
    unfold sub_store.
    destruct (snd (transaction (m_key m) (store_model_entry m) f)) as [e|a] eqn:Et.
    + rewrite (bind_inl_ops _ _ _ _ Et). apply sym_okb_nosym. apply nosym_transaction, nosym_store_model_entry.
    + rewrite (bind_inr_ops _ _ _ _ Et), sym_okb_app.
      rewrite (sym_okb_nosym _ seen (nosym_transaction _ _ (nosym_store_model_entry m) f)). cbn [andb].
      set (f1 := run_ops _ f). set (s1 := rev _ ++ seen).
      assert (Hc : committed_in s1 (m_key m) = true).
      { unfold s1. rewrite committed_in_app, committed_in_rev, (transaction_commits _ _ _ _ Et). reflexivity. }
      destruct (snd (store_key_at (cdir (Some s)) (m_name m) (m_key m) f1)) as [e|u] eqn:Ek.
      * rewrite (bind_inl_ops _ _ _ _ Ek). apply store_key_at_sym. exact Hc.
      * rewrite (bind_inr_ops _ _ _ _ Ek), sym_okb_app, (store_key_at_sym _ _ _ _ _ Hc). cbn [andb].
        apply sym_okb_nosym. apply nosym_store_annotation_at.
Qed.

Lemma trace_sym w : forall f0 seen, sym_okb seen (trace w f0) = true.
Proof.
  induction w as [|i w IH]; intros f0 seen; [reflexivity|]. cbn [trace].
  rewrite sym_okb_app, item_sym, IH. reflexivity.
Qed.

Lemma sym_okb_in ops : forall seen k t p K,
  sym_okb seen ops = true -> In (Symlink t p) (firstn k ops) -> t = key_dir K ->
  committed_in (rev (firstn k ops) ++ seen) K = true.
Proof.
  induction ops as [|o ops IH]; intros seen k t p K Hs Hin Ht; [destruct k; destruct Hin|].
  destruct k as [|k]; [destruct Hin|]. cbn in Hs. apply andb_true_iff in Hs. destruct Hs as [H1 H2].
  cbn [firstn rev] in *. rewrite <- app_assoc. cbn [app]. destruct Hin as [-> | Hin].
  - subst t. cbn in H1. rewrite committed_in_app, committed_in_cons, H1. rewrite !orb_true_r. reflexivity.
  - apply (IH (o :: seen) k t p K H2 Hin Ht).
Qed.

(* links are only ever made by Symlink operations *)
Lemma step_link f o p t :
  lookup (apply_op o f) p = Some (Link t) -> lookup f p = Some (Link t) \/ o = Symlink t p.
Proof.
  intros H.
  assert (Hr : forall s0 d, o = Rename s0 d -> lookup f p = Some (Link t)).
  { intros s0 d ->. cbn [apply_op] in H.
    destruct (lookup f s0) as [[|c|c|]|] eqn:Es; try exact H; (destruct (can_write f d); [|exact H]);
      (destruct (path_eq_dec d p) as [->|Hd]; [rewrite lookup_set_same in H; discriminate|]);
      rewrite lookup_set_other in H by exact Hd;
      (destruct (path_eq_dec s0 p) as [->|Hs]; [rewrite lookup_remove_same in H; discriminate|]);
      rewrite lookup_remove_other in H by exact Hs; exact H. }
  destruct (wsource o) as [s0|] eqn:Eso.
  { destruct o; try discriminate. left. eapply Hr. reflexivity. }
  destruct (wtarget o) as [q|] eqn:Ht.
  2:{ left. rewrite <- H. symmetry. apply apply_op_frame; congruence. }
  destruct (path_eq_dec q p) as [-> | Hn].
  2:{ left. rewrite <- H. symmetry. apply apply_op_frame; congruence. }
  destruct o; cbn [wtarget] in Ht; try discriminate; try (cbn in Eso; discriminate Eso);
    injection Ht as ->; cbn [apply_op] in H;
    repeat match type of H with
           | context [if ?b then _ else _] => destruct b
           | context [match lookup ?g ?r with _ => _ end] => destruct (lookup g r) as [[| | |]|] eqn:?
           end;
    try (left; exact H); try (left; congruence);
    try (rewrite lookup_set_same in H; try discriminate);
    try (rewrite lookup_remove_same in H; discriminate).
  injection H as ->. right. reflexivity.
Qed.

Lemma tear_link f o j p t : lookup (tear_op o j f) p = Some (Link t) -> lookup f p = Some (Link t).
Proof.
  intros H. destruct (wtarget o) as [q|] eqn:Ht.
  2:{ rewrite <- H. symmetry. apply tear_op_frame. congruence. }
  destruct (path_eq_dec q p) as [-> | Hn].
  2:{ rewrite <- H. symmetry. apply tear_op_frame. congruence. }
  destruct o; cbn [wtarget] in Ht; try discriminate; injection Ht as ->; cbn [tear_op] in H;
    repeat match type of H with
           | context [if ?b then _ else _] => destruct b
           | context [match lookup ?g ?r with _ => _ end] => destruct (lookup g r) as [[| | |]|] eqn:?
           end;
    try exact H; try congruence; rewrite lookup_set_same in H; discriminate.
Qed.

Lemma link_from_symlink ops : forall f0 k torn p t,
  lookup (crash f0 ops k torn) p = Some (Link t) ->
  lookup f0 p = Some (Link t) \/ In (Symlink t p) (firstn k ops).
Proof.
  induction ops as [|o ops IH]; intros f0 k torn p t H.
  - left. unfold crash in H. destruct k; cbn in H; destruct torn; exact H.
  - destruct k as [|k].
    + left. unfold crash in H. cbn [firstn run_ops fold_left nth_error] in H.
      destruct torn as [j|]; [eapply tear_link; exact H | exact H].
    + assert (Hc : crash f0 (o :: ops) (S k) torn = crash (apply_op o f0) ops k torn) by reflexivity.
      rewrite Hc in H. destruct (IH _ _ _ _ _ H) as [H' | H'].
      * destruct (step_link _ _ _ _ H') as [H'' | ->]; [left; exact H'' | right; left; reflexivity].
      * right. right. exact H'.
Qed.

Lemma resolve_name_spec f name K :
  resolve_name f name = Some K <-> lookup f (name_link name) = Some (Link (key_dir K)).
Proof.
  unfold resolve_name, key_dir. split.
  - destruct (lookup f (name_link name)) as [[| | |t]|]; try discriminate.
    destruct t as [|[] [|[] [|? ?]]]; try discriminate. intros [= ->]. reflexivity.
  - intros ->. reflexivity.
Qed.

Lemma name_implies_committed_lemma :
  forall (f0 : fs) (w : list witem) (k : nat) (torn : option nat) (name : str) (K : N),
    Inv f0 ->
    resolve_name (crash_w f0 w k torn) name = Some K ->
    resolve_name f0 name = Some K \/ committed_in (firstn k (trace w f0)) K = true.
Proof.
  intros f0 w k torn name K _ H. apply resolve_name_spec in H. unfold crash_w in H.
  destruct (link_from_symlink _ _ _ _ _ _ H) as [H' | H'].
  - left. apply resolve_name_spec. exact H'.
  - right. pose proof (sym_okb_in _ [] k _ _ K (trace_sym w f0 []) H' eq_refl) as E.
    rewrite app_nil_r, committed_in_rev in E. exact E.
Qed.

(* the same for ANY link to a key directory, in the top level context or a subcontext *)
Lemma link_implies_committed_lemma :
  forall (f0 : fs) (w : list witem) (k : nat) (torn : option nat) (p : path) (K : N),
    lookup (crash_w f0 w k torn) p = Some (Link (key_dir K)) ->
    lookup f0 p = Some (Link (key_dir K)) \/ committed_in (firstn k (trace w f0)) K = true.
Proof.
  intros f0 w k torn p K H. unfold crash_w in H.
  destruct (link_from_symlink _ _ _ _ _ _ H) as [H' | H']; [left; exact H'|].
  right. pose proof (sym_okb_in _ [] k _ _ K (trace_sym w f0 []) H' eq_refl) as E.
  rewrite app_nil_r, committed_in_rev in E. exact E.
Qed.
