(* PV.C16.ProofsText — the annotations file across ALL crashes (it is replaced atomically since commit ffb4c75)
   and the log across crashes without a torn write. *)
From Coq Require Import List Bool NArith Arith Lia.
From PV Require Import C16.Model C16.Proofs C16.ProofsCodec C16.ProofsStore.
Import ListNotations.
Local Open Scope nat_scope.

(* ========================================================================================= *)
(* 5. annotations and log across crashes WITHOUT a torn write                                  *)
(* the content of the annotations file in state f *)
Definition annots (f : fs) : option str := read_node (lookup f annot_path).

(* the stored annotation of [name] is [a], in a well-formed file *)
Definition ann_ok (name a : str) (f : fs) : Prop :=
  exists c, annots f = Some c /\ ends_nlb (translate c) = true /\ annot_retrieve c name = AFound a.

(* every prefix state of an operation list satisfies R; with T = true also every state in which the
   next operation was interrupted *)
Fixpoint always (T : bool) (R : fs -> Prop) (ops : list op) (f : fs) : Prop :=
  match ops with
  | [] => True
  | o :: tl => (T = true -> forall j, R (tear_op o j f)) /\ R (apply_op o f) /\ always T R tl (apply_op o f)
  end.

Lemma always_app T (R : fs -> Prop) a : forall b f, always T R (a ++ b) f <-> always T R a f /\ always T R b (run_ops a f).
Proof. induction a as [|o a IH]; intros b f; cbn [app always]; [cbn; tauto|]. rewrite IH, run_ops_cons. tauto. Qed.

Lemma always_final T (R : fs -> Prop) ops : forall f, R f -> always T R ops f -> R (run_ops ops f).
Proof. induction ops as [|o ops IH]; intros f H0 H; [exact H0|]. cbn in H. rewrite run_ops_cons. apply IH; tauto. Qed.

Lemma always_crash (R : fs -> Prop) ops : forall f k, R f -> always false R ops f -> R (crash f ops k None).
Proof.
  induction ops as [|o ops IH]; intros f k H0 H; [unfold crash; destruct k; exact H0|].
  destruct k as [|k]; [exact H0|]. cbn in H. change (R (crash (apply_op o f) ops k None)). apply IH; tauto.
Qed.

Lemma always_crash_torn (R : fs -> Prop) ops : forall f k torn, R f -> always true R ops f -> R (crash f ops k torn).
Proof.
  induction ops as [|o ops IH]; intros f k torn H0 H; [unfold crash; destruct k; cbn; destruct torn; exact H0|].
  cbn in H. destruct H as [H1 [H2 H3]]. destruct k as [|k].
  - unfold crash. cbn [firstn run_ops fold_left nth_error]. destruct torn as [j|]; [apply H1; reflexivity | exact H0].
  - change (R (crash (apply_op o f) ops k torn)). apply IH; assumption.
Qed.

Lemma always_weaken T (R R' : fs -> Prop) ops : (forall f, R f -> R' f) -> forall f, always T R ops f -> always T R' ops f.
Proof.
  intros H. induction ops as [|o ops IH]; intros f Ha; [exact I|]. cbn in *. destruct Ha as [H1 [H2 H3]].
  split; [intros E j; apply H, H1, E | split; [apply H, H2 | apply IH, H3]].
Qed.

(* ---- a tiny logic for "R holds in every prefix state" -------------------------------------- *)
Definition keepsR (T : bool) (R : fs -> Prop) {A} (m : M A) : Prop := forall f, R f -> always T R (fst (m f)) f.

Lemma keepsR_ret T (R : fs -> Prop) {A} (a : A) : keepsR T R (ret a).
Proof. intros f _. exact I. Qed.
Lemma keepsR_fail T (R : fs -> Prop) {A} e : keepsR T R (@fail A e).
Proof. intros f _. exact I. Qed.
Lemma keepsR_bind T (R : fs -> Prop) {A B} (m : M A) (k : A -> M B) :
  keepsR T R m -> (forall a, keepsR T R (k a)) -> keepsR T R (bind m k).
Proof.
  intros Hm Hk f HR. unfold bind. specialize (Hm f HR). destruct (m f) as [ops r]. cbn [fst] in *.
  destruct r as [e|a]; cbn [fst]; [exact Hm|].
  specialize (Hk a (run_ops ops f) (always_final T R ops f HR Hm)).
  destruct (k a (run_ops ops f)) as [ops2 r2]. cbn [fst] in *. apply always_app. split; assumption.
Qed.
Lemma keepsR_get T (R : fs -> Prop) {B} (k : fs -> M B) :
  (forall f, R f -> always T R (fst (k f f)) f) -> keepsR T R (bind get k).
Proof. intros H f HR. rewrite bind_get_eq. apply H. exact HR. Qed.

(* operations that do not touch path p *)
Definition not_path (p : path) (q : option path) : bool := match q with Some r => negb (path_eqb r p) | None => true end.
Definition avoids_path (p : path) (o : op) : bool := not_path p (wtarget o) && not_path p (wsource o).

Lemma not_path_spec p q : not_path p q = true -> q <> Some p.
Proof. intros H ->. cbn in H. rewrite path_eqb_refl in H. discriminate. Qed.

Lemma avoids_path_frame p o f : avoids_path p o = true -> lookup (apply_op o f) p = lookup f p.
Proof.
  intros H. apply andb_true_iff in H. destruct H as [H1 H2]. apply apply_op_frame; apply not_path_spec; assumption.
Qed.
Lemma avoids_path_tear p o j f : avoids_path p o = true -> lookup (tear_op o j f) p = lookup f p.
Proof. intros H. apply andb_true_iff in H. destruct H as [H1 _]. apply tear_op_frame, not_path_spec, H1. Qed.

(* R survives every operation, complete or interrupted, that does not touch p *)
Definition stable (p : path) (R : fs -> Prop) : Prop :=
  forall o f, avoids_path p o = true -> R f -> R (apply_op o f) /\ forall j, R (tear_op o j f).
(* in particular when R depends on the node at p only *)
Definition at_path (p : path) (R : fs -> Prop) : Prop := forall f g, lookup g p = lookup f p -> R f -> R g.
Lemma at_path_stable p R : at_path p R -> stable p R.
Proof.
  intros H o f Ho HR. split; [|intros j]; (eapply H; [|exact HR]); [apply avoids_path_frame | apply avoids_path_tear]; exact Ho.
Qed.

Lemma always_avoid T p (R : fs -> Prop) : stable p R ->
  forall ops f, R f -> forallb (avoids_path p) ops = true -> always T R ops f.
Proof.
  intros HR. induction ops as [|o ops IH]; intros f H0 Hall; [exact I|]. cbn in Hall. apply andb_true_iff in Hall.
  destruct Hall as [Ho Hall]. destruct (HR o f Ho H0) as [H1 H2].
  cbn. split; [intros _; exact H2 | split; [exact H1 | apply IH; assumption]].
Qed.

Lemma keepsR_avoid T p (R : fs -> Prop) {A} (m : M A) : stable p R -> all_prog (avoids_path p) m -> keepsR T R m.
Proof. intros HR Hall f H0. apply (always_avoid T p R HR); [exact H0 | apply Hall]. Qed.

(* ---- static facts: which programs leave the annotations file / the log alone ---------------- *)
Ltac av_tac S :=
  repeat first
    [ apply all_mkdir_p; reflexivity | apply all_mkdir1; reflexivity | apply all_touch; reflexivity
    | apply all_lock; reflexivity | apply all_write_file; reflexivity | apply all_append_file; reflexivity
    | apply all_read_file; reflexivity | apply all_touch_excl; reflexivity | apply all_remove_file; reflexivity
    | apply all_rename_file; reflexivity
    | match goal with
      | |- all_prog S (bind _ _) => apply all_bind; [|intro]
      | |- all_prog S (ret _) => apply all_ret
      | |- all_prog S (fail _) => apply all_fail
      | |- all_prog S get => apply all_get
      | |- all_prog S (emit _) => apply all_emit; reflexivity
      | |- all_prog S (if ?b then _ else _) => destruct b
      | |- all_prog S (match ?x with _ => _ end) => destruct x
      end ].

Section AvoidTop.
  (* p is the annotations file or the log *)
  Variable p : path.
  Hypothesis Hp : p = annot_path \/ p = log_path.
  Let S := avoids_path p.

  Ltac both := destruct Hp as [-> | ->].

  Lemma av_transaction {A} K (body : M A) : all_prog S body -> all_prog S (transaction K body).
  Proof. intros H. unfold S in *. both; unfold transaction; av_tac (avoids_path annot_path); av_tac (avoids_path log_path); exact H. Qed.
  Lemma av_store_model_entry m : all_prog S (store_model_entry m).
  Proof. unfold S. both; unfold store_model_entry, store_model, store_modelfit_results, store_dataset; cbv zeta; av_tac (avoids_path annot_path); av_tac (avoids_path log_path). Qed.
  Lemma av_metadata K id : all_prog S (db_store_metadata K id).
  Proof. unfold db_store_metadata. apply av_transaction. unfold S. both; av_tac (avoids_path annot_path); av_tac (avoids_path log_path). Qed.
  Lemma av_store_key name K : all_prog S (store_key name K).
  Proof. unfold S. both; unfold store_key; av_tac (avoids_path annot_path); av_tac (avoids_path log_path). Qed.
  Lemma av_read_model K : all_prog S (read_model K).
  Proof. unfold S. both; unfold read_model; av_tac (avoids_path annot_path); av_tac (avoids_path log_path). Qed.
  Lemma av_snapshot {A} K (body : M A) : all_prog S body -> all_prog S (snapshot K body).
  Proof. intros H. unfold S in *. both; unfold snapshot; av_tac (avoids_path annot_path); av_tac (avoids_path log_path); exact H. Qed.
  Lemma av_retrieve_model_entry K : all_prog S (retrieve_model_entry K).
  Proof.
    unfold retrieve_model_entry. apply all_bind; [apply av_read_model | intro].
    apply all_bind; [apply av_read_model | intro]. unfold S. both; av_tac (avoids_path annot_path); av_tac (avoids_path log_path).
  Qed.
  Lemma av_retrieve_annotation name : all_prog S (retrieve_annotation name).
  Proof. unfold S. both; unfold retrieve_annotation; av_tac (avoids_path annot_path); av_tac (avoids_path log_path). Qed.
  Lemma av_retrieve_log : all_prog S retrieve_log.
  Proof. unfold S. both; unfold retrieve_log; av_tac (avoids_path annot_path); av_tac (avoids_path log_path). Qed.
  Lemma av_ctx_retrieve name : all_prog S (ctx_retrieve name).
  Proof.
    unfold ctx_retrieve. apply all_bind; [apply all_get | intro f].
    destruct (resolve_name f name); [|apply all_fail].
    apply all_bind; [apply av_snapshot; apply all_ret | intro].
    apply all_bind; [apply av_snapshot; apply av_retrieve_model_entry | intro].
    apply all_bind; [apply av_retrieve_annotation | intro]. apply all_ret.
  Qed.
  Lemma av_forget {A} (m : M A) : all_prog S m -> all_prog S (forget m).
  Proof. intros H. unfold forget. apply all_bind; [exact H | intro; apply all_ret]. Qed.

  (* a subcontext has its own annotations file; tool results are separate files *)
  Lemma av_sub_init s0 : all_prog S (sub_init s0).
  Proof. unfold S. both; unfold sub_init, annot_path_at, cdir; av_tac (avoids_path annot_path); av_tac (avoids_path log_path). Qed.
  Lemma av_store_key_at s0 name K : all_prog S (store_key_at (cdir (Some s0)) name K).
  Proof. unfold S. both; unfold store_key_at, name_link_at, cdir; av_tac (avoids_path annot_path); av_tac (avoids_path log_path). Qed.
  Lemma av_store_annotation_at s0 name a : all_prog S (store_annotation_at (cdir (Some s0)) name a).
  Proof.
    unfold S. both; unfold store_annotation_at, annot_lock_at, annot_path_at, annot_tmp_at, cdir;
      av_tac (avoids_path annot_path); av_tac (avoids_path log_path).
  Qed.
  Lemma av_retrieve_annotation_at s0 name : all_prog S (retrieve_annotation_at (cdir (Some s0)) name).
  Proof.
    unfold S. both; unfold retrieve_annotation_at, annot_lock_at, annot_path_at, cdir;
      av_tac (avoids_path annot_path); av_tac (avoids_path log_path).
  Qed.
  Lemma av_sub_store s0 m : all_prog S (sub_store s0 m).
  Proof.
    unfold sub_store. apply all_bind; [apply av_transaction, av_store_model_entry | intro].
    apply all_bind; [apply av_store_key_at | intro]. apply av_store_annotation_at.
  Qed.
  Lemma av_sub_retrieve s0 name : all_prog S (sub_retrieve s0 name).
  Proof.
    unfold sub_retrieve. apply all_bind; [apply all_get | intro f].
    destruct (resolve_name_at (cdir (Some s0)) f name); [|apply all_fail].
    apply all_bind; [apply av_snapshot; apply all_ret | intro].
    apply all_bind; [apply av_snapshot; apply av_retrieve_model_entry | intro].
    apply all_bind; [apply av_retrieve_annotation_at | intro]. apply all_ret.
  Qed.
  Lemma av_store_results c id : all_prog S (store_results c id).
  Proof. unfold S. both; unfold store_results, results_json, results_csv, cdir; destruct c; av_tac (avoids_path annot_path); av_tac (avoids_path log_path). Qed.
  Lemma av_retrieve_results c : all_prog S (retrieve_results c).
  Proof. unfold S. both; unfold retrieve_results, results_json, cdir; destruct c; av_tac (avoids_path annot_path); av_tac (avoids_path log_path). Qed.
End AvoidTop.

Lemma av_annot_store_message pth d s msg : all_prog (avoids_path annot_path) (store_message pth d s msg).
Proof. unfold store_message. av_tac (avoids_path annot_path). Qed.
Lemma av_log_store_annotation name a : all_prog (avoids_path log_path) (store_annotation name a).
Proof. unfold store_annotation. av_tac (avoids_path log_path). Qed.

(* LocalDirectoryContext.__init__ leaves an existing file at p (annotations or log) alone *)
Lemma ctx_init_keeps T p (R : fs -> Prop) :
  p = annot_path \/ p = log_path -> stable p R -> (forall f, R f -> is_file f p = true) -> keepsR T R ctx_init.
Proof.
  intros Hp HR Hfile. unfold ctx_init.
  assert (Hav : forall A (m : M A), all_prog (avoids_path p) m -> keepsR T R m) by (intros; eapply keepsR_avoid; eassumption).
  apply keepsR_bind; [apply Hav; apply all_get | intro f1].
  apply keepsR_bind; [apply Hav; destruct Hp as [-> | ->]; av_tac (avoids_path annot_path); av_tac (avoids_path log_path) | intro].
  apply keepsR_bind; [apply Hav; apply all_get | intro f2].
  apply keepsR_bind; [apply Hav; destruct Hp as [-> | ->]; av_tac (avoids_path annot_path); av_tac (avoids_path log_path) | intro].
  apply keepsR_bind; [apply Hav; destruct Hp as [-> | ->]; av_tac (avoids_path annot_path); av_tac (avoids_path log_path) | intro].
  destruct Hp as [-> | ->].
  - apply keepsR_get. intros f HRf. rewrite (Hfile f HRf).
    assert (Hrest : keepsR T R (ret tt;; mkdir1 models_dir true;; f0 <- get;;
                              (if is_file f0 log_path then ret tt else write_file log_path log_header);; f3 <- get;;
                              (if is_file f3 common_path then ret tt else write_file common_path common_content))).
    { apply Hav. av_tac (avoids_path annot_path). }
    apply Hrest. exact HRf.
  - apply keepsR_bind; [apply Hav; av_tac (avoids_path log_path) | intro].
    apply keepsR_bind; [apply Hav; av_tac (avoids_path log_path) | intro].
    apply keepsR_bind; [apply Hav; av_tac (avoids_path log_path) | intro].
    apply keepsR_get. intros f HRf. rewrite (Hfile f HRf).
    assert (Hrest : keepsR T R (ret tt;; f3 <- get;;
                              (if is_file f3 common_path then ret tt else write_file common_path common_content))).
    { apply Hav. av_tac (avoids_path log_path). }
    apply Hrest. exact HRf.
Qed.

(* ---- annotations of other names survive EVERY crash, torn or not ---------------------------- *)
(* guard on a workload item: it does not (re)write the annotation of [name], and the name it writes for
   is in the domain of the codec *)
Definition item_ann_ok (name : str) (i : witem) : bool :=
  match i with
  | WStore m => negb (str_eqb (m_name m) name) && name_ok (m_name m)
  | WAnnot n a => negb (str_eqb n name) && name_ok n
  | _ => true
  end.

Lemma at_path_ann_ok name a : at_path annot_path (ann_ok name a).
Proof. intros f g E [c [H1 H2]]. exists c. split; [unfold annots in *; rewrite E; exact H1 | exact H2]. Qed.

Lemma ann_ok_is_file name a f : ann_ok name a f -> is_file f annot_path = true.
Proof.
  intros [c [H _]]. unfold annots, is_file in *. destruct (lookup f annot_path) as [[| | |]|]; try discriminate; reflexivity.
Qed.

Lemma keeps_store_annotation name a n a' :
  n <> name -> name_ok n = true -> keepsR true (ann_ok name a) (store_annotation n a').
Proof.
  intros Hne Hn. unfold store_annotation.
  apply keepsR_bind; [eapply keepsR_avoid; [apply at_path_stable, at_path_ann_ok | apply all_lock; reflexivity] | intro].
  intros f HR. pose proof HR as HR0. destruct HR as [c [Hc [Hwf Hret]]].
  set (X := annot_store c n a').
  assert (Hops : exists tl, fst ((c0 <- read_file annot_path;; write_file annot_tmp (annot_store c0 n a');; rename_file annot_tmp annot_path) f)
                 = OpenR annot_path :: OpenW annot_tmp X :: tl
                 /\ (tl = [] \/ tl = [Rename annot_tmp annot_path])).
  { unfold bind. rewrite read_file_eq. unfold annots in Hc. rewrite Hc. cbn [fst snd].
    change (run_ops [OpenR annot_path] f) with f. rewrite write_file_eq. fold X.
    destruct (can_write f annot_tmp); cbn [fst snd]; [|exists []; auto].
    rewrite rename_file_eq. exists [Rename annot_tmp annot_path]. cbn. auto. }
  destruct Hops as [tl [Hops Htl]]. rewrite Hops.
  assert (Hst : stable annot_path (ann_ok name a)) by apply at_path_stable, at_path_ann_ok.
  destruct (Hst (OpenW annot_tmp X) f eq_refl HR0) as [H1 H2].
  cbn [always]. change (apply_op (OpenR annot_path) f) with f.
  split; [intros _ j; exact HR0|]. split; [exact HR0|]. split; [intros _; exact H2|]. split; [exact H1|].
  destruct Htl as [-> | ->]; [exact I|]. cbn [always tear_op]. split; [intros _ j; exact H1|]. split; [|exact I].
  (* the atomic replacement: the new content is the old one with the line of n rewritten *)
  set (fb := apply_op (OpenW annot_tmp X) f) in *. cbn [apply_op].
  destruct (lookup fb annot_tmp) as [[|cc|cc|]|] eqn:Et; try exact H1; (destruct (can_write fb annot_path); [|exact H1]).
  - assert (Ecc : cc = X).
    { unfold fb in Et. cbn [apply_op] in Et. destruct (can_write f annot_tmp) eqn:Ecw.
      - rewrite lookup_set_same in Et. congruence.
      - (* the write did not happen: impossible here, the rename is only emitted after a successful write *)
        exfalso. clear -Hops Ecw Hc. unfold bind in Hops. rewrite read_file_eq in Hops. unfold annots in Hc. rewrite Hc in Hops.
        cbn [fst snd] in Hops. change (run_ops [OpenR annot_path] f) with f in Hops. rewrite write_file_eq, Ecw in Hops.
        cbn in Hops. discriminate. }
    subst cc. exists X. split; [unfold annots; rewrite lookup_set_same; reflexivity|].
    split; [apply annotation_wf_preserved_lemma; assumption|].
    unfold X. rewrite annotation_others_lemma by (try assumption; congruence). exact Hret.
  - (* a torn temp file cannot be there: it was just written completely *)
    exfalso. unfold fb in Et. cbn [apply_op] in Et. destruct (can_write f annot_tmp) eqn:Ecw.
    + rewrite lookup_set_same in Et. discriminate.
    + clear -Hops Ecw Hc. unfold bind in Hops. rewrite read_file_eq in Hops. unfold annots in Hc. rewrite Hc in Hops.
      cbn [fst snd] in Hops. change (run_ops [OpenR annot_path] f) with f in Hops. rewrite write_file_eq, Ecw in Hops.
      cbn in Hops. discriminate.
Qed.

Lemma keeps_item_ann name a i : item_ann_ok name i = true -> keepsR true (ann_ok name a) (item_prog i).
Proof.
  intros Hg.
  assert (Hav : forall A (m : M A), all_prog (avoids_path annot_path) m -> keepsR true (ann_ok name a) m).
  { intros. eapply keepsR_avoid; [apply at_path_stable, at_path_ann_ok | assumption]. }
  assert (Hp : annot_path = annot_path \/ annot_path = log_path) by (left; reflexivity).
  destruct i; cbn [item_prog item_ann_ok] in *.
  - apply (ctx_init_keeps true annot_path); [exact Hp | apply at_path_stable, at_path_ann_ok | apply ann_ok_is_file].
  - apply andb_true_iff in Hg. destruct Hg as [H1 H2].
    apply negb_true_iff in H1. unfold ctx_store.
    apply keepsR_bind; [apply Hav, (av_transaction _ Hp), (av_store_model_entry _ Hp) | intro].
    apply keepsR_bind; [apply Hav, (av_store_key _ Hp) | intro].
    apply keeps_store_annotation; [|assumption]. intros E. rewrite E, str_eqb_refl in H1. discriminate.
  - apply Hav. unfold db_store_model_entry. apply (av_transaction _ Hp), (av_store_model_entry _ Hp).
  - apply Hav, (av_metadata _ Hp).
  - apply andb_true_iff in Hg. destruct Hg as [H1 H2].
    apply negb_true_iff in H1. apply keeps_store_annotation; [|assumption].
    intros E. rewrite E, str_eqb_refl in H1. discriminate.
  - apply Hav, av_annot_store_message.
  - apply Hav, (av_forget annot_path), (av_ctx_retrieve _ Hp).
  - apply Hav, (av_forget annot_path), (av_snapshot _ Hp), (av_read_model _ Hp).
  - apply Hav, (av_forget annot_path), (av_retrieve_annotation _ Hp).
  - apply Hav, (av_forget annot_path), (av_retrieve_log _ Hp).
  - apply Hav, (av_sub_init _ Hp).
  - apply Hav, (av_sub_store _ Hp).
  - apply Hav, (av_forget annot_path), (av_sub_retrieve _ Hp).
  - apply Hav, (av_store_results _ Hp).
  - apply Hav, (av_forget annot_path), (av_retrieve_results _ Hp).
Qed.

Lemma trace_ann name a w : forall f0,
  forallb (item_ann_ok name) w = true -> ann_ok name a f0 -> always true (ann_ok name a) (trace w f0) f0.
Proof.
  induction w as [|i w IH]; intros f0 Hg H0; [exact I|]. cbn in Hg. apply andb_true_iff in Hg. destruct Hg as [Hi Hg].
  cbn [trace]. apply always_app. pose proof (keeps_item_ann name a i Hi f0 H0) as H1. split; [exact H1|].
  apply IH; [exact Hg | eapply always_final; eassumption].
Qed.

Lemma annotations_survive_lemma :
  forall (f0 : fs) (w : list witem) (k : nat) (torn : option nat) (name a : str),
    forallb (item_ann_ok name) w = true -> ann_ok name a f0 -> ann_ok name a (crash_w f0 w k torn).
Proof.
  intros f0 w k torn name a Hg H0. unfold crash_w.
  apply (always_crash_torn (ann_ok name a)); [exact H0 | apply trace_ann; assumption].
Qed.

(* ---- the log across crashes without a torn write -------------------------------------------- *)
Definition row := (str * str * str * str)%type.
(* the log file holds exactly the header and the given records *)
Definition log_state (rows : list row) (f : fs) : Prop :=
  lookup f log_path = Some (File (log_file rows)) /\ forallb row_plain rows = true /\ is_dir f [] = true.
Definition log_rows (w : list witem) : list row :=
  flat_map (fun i => match i with WLog p d s m => [(p, d, s, m)] | _ => [] end) w.
Definition item_log_ok (i : witem) : bool :=
  match i with WLog p d s _ => plain_field p && plain_field d && plain_field s | _ => true end.

Lemma log_file_app rows p d s m : log_file (rows ++ [(p, d, s, m)]) = log_file rows ++ log_line p d s m.
Proof. unfold log_file. rewrite map_app, concat_app. cbn [map concat]. rewrite app_nil_r, app_assoc. reflexivity. Qed.

Lemma is_dir_tear o j f q : is_dir f q = true -> is_dir (tear_op o j f) q = true.
Proof.
  intros H. apply is_dir_lookup in H. apply is_dir_lookup.
  destruct (wtarget o) as [p|] eqn:Ht; [|rewrite tear_op_frame by congruence; exact H].
  destruct (path_eq_dec p q) as [-> | Hne]; [|rewrite tear_op_frame by congruence; exact H].
  destruct o; cbn [wtarget] in Ht; try discriminate; injection Ht as ->; cbn [tear_op]; try exact H;
    unfold can_write; rewrite H; exact H.
Qed.

Lemma stable_log_state rows : stable log_path (log_state rows).
Proof.
  intros o f Ho [H1 [H2 H3]]. split; [|intros j]; (split; [|split; [exact H2|]]).
  - rewrite avoids_path_frame by exact Ho. exact H1.
  - apply is_dir_mono. exact H3.
  - rewrite avoids_path_tear by exact Ho. exact H1.
  - apply is_dir_tear. exact H3.
Qed.

Lemma keepsR_avoid_log rows {A} (m : M A) : all_prog (avoids_path log_path) m -> keepsR false (log_state rows) m.
Proof. apply keepsR_avoid, stable_log_state. Qed.

Lemma append_file_eq p c f :
  append_file p c f = ([OpenA p c], if can_write f p then inr tt else inl EFileNotFound).
Proof. unfold append_file. rewrite bind_get_eq, bind_emit_eq. destruct (can_write f p); reflexivity. Qed.

(* one item: during it the log holds the old records or the old records plus the item's own; afterwards the latter *)
Lemma item_log i rows f :
  item_log_ok i = true -> log_state rows f ->
  always false (fun g => log_state rows g \/ log_state (rows ++ log_rows [i]) g) (item_ops i f) f
  /\ log_state (rows ++ log_rows [i]) (run_ops (item_ops i f) f).
Proof.
  intros Hg H0. unfold item_ops.
  assert (Hp : log_path = annot_path \/ log_path = log_path) by (right; reflexivity).
  assert (Hquiet : forall m : M unit, keepsR false (log_state rows) m ->
            always false (fun g => log_state rows g \/ log_state (rows ++ []) g) (fst (m f)) f
            /\ log_state (rows ++ []) (run_ops (fst (m f)) f)).
  { intros m Hk. rewrite app_nil_r. split.
    - eapply always_weaken; [|apply Hk; exact H0]. intros g Hg'. left. exact Hg'.
    - eapply always_final; [exact H0 | apply Hk; exact H0]. }
  destruct i; cbn [item_prog log_rows flat_map app]; try (apply Hquiet).
  - apply (ctx_init_keeps false log_path); [exact Hp | apply stable_log_state|].
    intros f1 [H1 _]. unfold is_file. rewrite H1. reflexivity.
  - apply keepsR_avoid_log. unfold ctx_store.
    apply all_bind; [apply (av_transaction _ Hp), (av_store_model_entry _ Hp) | intro].
    apply all_bind; [apply (av_store_key _ Hp) | intro]. apply av_log_store_annotation.
  - apply keepsR_avoid_log. unfold db_store_model_entry. apply (av_transaction _ Hp), (av_store_model_entry _ Hp).
  - apply keepsR_avoid_log, (av_metadata _ Hp).
  - apply keepsR_avoid_log, av_log_store_annotation.
  - (* the log item itself *)
    cbn [item_log_ok] in Hg. unfold store_message.
    assert (Hlock : all_prog (avoids_path log_path) (lock log_lock)) by (apply all_lock; reflexivity).
    pose proof (keepsR_avoid_log rows _ Hlock f H0) as Hal.
    pose proof (always_final _ _ _ _ H0 Hal) as H1. set (f1 := run_ops (fst (lock log_lock f)) f) in *.
    destruct H1 as [E1 [E2 E3]].
    assert (Hcw : can_write f1 log_path = true).
    { unfold can_write. rewrite E1. exact E3. }
    assert (Hops : fst ((lock log_lock;; append_file log_path (log_line ctxpath date sev msg)) f)
                   = fst (lock log_lock f) ++ [OpenA log_path (log_line ctxpath date sev msg)]).
    { unfold bind.
      assert (Hr : exists u, snd (lock log_lock f) = inr u).
      { rewrite lock_eq, touch_eq. destruct (exists_ f log_lock); [eexists; reflexivity|].
        replace (parent_ok f log_lock) with (is_dir f []) by reflexivity. destruct H0 as [_ [_ H0]]. rewrite H0. eexists. reflexivity. }
      destruct Hr as [u Hr]. destruct (lock log_lock f) as [ops r]. cbn [fst snd] in *. subst r. fold f1.
      rewrite append_file_eq. reflexivity. }
    rewrite Hops.
    assert (Hfin : log_state (rows ++ [(ctxpath, date, sev, msg)]) (apply_op (OpenA log_path (log_line ctxpath date sev msg)) f1)).
    { cbn [apply_op]. rewrite Hcw, E1. split; [|split].
      - rewrite lookup_set_same, log_file_app. reflexivity.
      - rewrite forallb_app. apply andb_true_iff. split; [exact E2 | cbn [forallb row_plain]; rewrite Hg; reflexivity].
      - unfold is_dir. rewrite lookup_set_other by discriminate. exact E3. }
    split.
    + apply always_app. split.
      * eapply always_weaken; [|exact Hal]. intros g Hg'. left. exact Hg'.
      * fold f1. cbn [always]. split; [discriminate|]. split; [right; exact Hfin | exact I].
    + rewrite run_ops_app. fold f1. exact Hfin.
  - apply keepsR_avoid_log, (av_forget log_path), (av_ctx_retrieve _ Hp).
  - apply keepsR_avoid_log, (av_forget log_path), (av_snapshot _ Hp), (av_read_model _ Hp).
  - apply keepsR_avoid_log, (av_forget log_path), (av_retrieve_annotation _ Hp).
  - apply keepsR_avoid_log, (av_forget log_path), (av_retrieve_log _ Hp).
  - apply keepsR_avoid_log, (av_sub_init _ Hp).
  - apply keepsR_avoid_log, (av_sub_store _ Hp).
  - apply keepsR_avoid_log, (av_forget log_path), (av_sub_retrieve _ Hp).
  - apply keepsR_avoid_log, (av_store_results _ Hp).
  - apply keepsR_avoid_log, (av_forget log_path), (av_retrieve_results _ Hp).
Qed.

Lemma crash_app_le a b f k : k <= length a -> crash f (a ++ b) k None = crash f a k None.
Proof. intros H. unfold crash. rewrite firstn_app. replace (k - length a) with 0 by lia. cbn. rewrite app_nil_r. reflexivity. Qed.

Lemma crash_app_ge a b f k : length a <= k -> crash f (a ++ b) k None = crash (run_ops a f) b (k - length a) None.
Proof.
  intros H. unfold crash. rewrite firstn_app, firstn_all2 by exact H. rewrite run_ops_app. reflexivity.
Qed.

Lemma log_rows_cons i w : log_rows (i :: w) = log_rows [i] ++ log_rows w.
Proof. unfold log_rows. cbn. rewrite app_nil_r. reflexivity. Qed.

Lemma log_survives_lemma : forall (w : list witem) (f0 : fs) (rows : list row) (k : nat),
  forallb item_log_ok w = true -> log_state rows f0 ->
  exists n, log_state (rows ++ firstn n (log_rows w)) (crash_w f0 w k None).
Proof.
  unfold crash_w. induction w as [|i w IH]; intros f0 rows k Hg H0.
  - exists 0. cbn. rewrite app_nil_r. unfold crash. destruct k; exact H0.
  - cbn in Hg. apply andb_true_iff in Hg. destruct Hg as [Hi Hg]. cbn [trace].
    destruct (item_log i rows f0 Hi H0) as [Hal Hfin].
    destruct (Nat.le_gt_cases (length (item_ops i f0)) k) as [Hk | Hk].
    + rewrite crash_app_ge by exact Hk.
      destruct (IH (run_ops (item_ops i f0) f0) (rows ++ log_rows [i]) (k - length (item_ops i f0)) Hg Hfin) as [n Hn].
      exists (length (log_rows [i]) + n). rewrite (log_rows_cons i w), firstn_app_2, app_assoc. exact Hn.
    + rewrite crash_app_le by lia.
      assert (Hd : log_state rows (crash f0 (item_ops i f0) k None)
                   \/ log_state (rows ++ log_rows [i]) (crash f0 (item_ops i f0) k None)).
      { apply (always_crash (fun g => log_state rows g \/ log_state (rows ++ log_rows [i]) g)); [left; exact H0 | exact Hal]. }
      destruct Hd as [Hd | Hd].
      * exists 0. cbn. rewrite app_nil_r. exact Hd.
      * exists (length (log_rows [i])). rewrite (log_rows_cons i w), firstn_app, firstn_all, Nat.sub_diag. cbn [firstn].
        rewrite app_nil_r. exact Hd.
Qed.

(* ========================================================================================= *)
(* tool results of a context (results.json): what a reader obtains was stored by a store_results    *)
Definition lastc (q : path) : option comp := match rev q with c :: _ => Some c | [] => None end.
Definition is_resjson (q : option path) : bool :=
  match q with Some r => match lastc r with Some CResJson => true | _ => false end | None => false end.
(* operations that touch no results.json at all *)
Definition noresjson (o : op) : bool := negb (is_resjson (wtarget o)) && negb (is_resjson (wsource o)).

Lemma noresjson_avoids c o : noresjson o = true -> avoids_path (results_json (cdir c)) o = true.
Proof.
  unfold noresjson, avoids_path. intros H. apply andb_true_iff in H. destruct H as [H1 H2].
  assert (Hp : forall q, is_resjson q = false -> not_path (results_json (cdir c)) q = true).
  { intros [r|] Hr; [|reflexivity]. cbn. apply negb_true_iff. apply path_eqb_neq. intros ->.
    destruct c; cbn in Hr; discriminate. }
  apply negb_true_iff in H1. apply negb_true_iff in H2. rewrite (Hp _ H1), (Hp _ H2). reflexivity.
Qed.

Ltac nr_tac := av_tac noresjson.

Lemma nr_ctx_init : all_prog noresjson ctx_init.
Proof. unfold ctx_init. nr_tac. Qed.
Lemma nr_transaction {A} K (body : M A) : all_prog noresjson body -> all_prog noresjson (transaction K body).
Proof. intros H. unfold transaction. nr_tac. exact H. Qed.
Lemma nr_store_model_entry m : all_prog noresjson (store_model_entry m).
Proof. unfold store_model_entry, store_model, store_modelfit_results, store_dataset. cbv zeta. nr_tac. Qed.
Lemma nr_store_key name K : all_prog noresjson (store_key name K).
Proof. unfold store_key. nr_tac. Qed.
Lemma nr_store_annotation name a : all_prog noresjson (store_annotation name a).
Proof. unfold store_annotation. nr_tac. Qed.
Lemma nr_store_message pth d s msg : all_prog noresjson (store_message pth d s msg).
Proof. unfold store_message. nr_tac. Qed.
Lemma nr_read_model K : all_prog noresjson (read_model K).
Proof. unfold read_model. nr_tac. Qed.
Lemma nr_snapshot {A} K (body : M A) : all_prog noresjson body -> all_prog noresjson (snapshot K body).
Proof. intros H. unfold snapshot. nr_tac. exact H. Qed.
Lemma nr_retrieve_model_entry K : all_prog noresjson (retrieve_model_entry K).
Proof.
  unfold retrieve_model_entry. apply all_bind; [apply nr_read_model | intro].
  apply all_bind; [apply nr_read_model | intro]. nr_tac.
Qed.
Lemma nr_retrieve_annotation name : all_prog noresjson (retrieve_annotation name).
Proof. unfold retrieve_annotation. nr_tac. Qed.
Lemma nr_retrieve_log : all_prog noresjson retrieve_log.
Proof. unfold retrieve_log. nr_tac. Qed.
Lemma nr_ctx_retrieve name : all_prog noresjson (ctx_retrieve name).
Proof.
  unfold ctx_retrieve. apply all_bind; [apply all_get | intro f].
  destruct (resolve_name f name); [|apply all_fail].
  apply all_bind; [apply nr_snapshot; apply all_ret | intro].
  apply all_bind; [apply nr_snapshot; apply nr_retrieve_model_entry | intro].
  apply all_bind; [apply nr_retrieve_annotation | intro]. apply all_ret.
Qed.
Lemma nr_forget {A} (m : M A) : all_prog noresjson m -> all_prog noresjson (forget m).
Proof. intros H. unfold forget. apply all_bind; [exact H | intro; apply all_ret]. Qed.
Lemma nr_metadata K id : all_prog noresjson (db_store_metadata K id).
Proof. unfold db_store_metadata. apply nr_transaction. nr_tac. Qed.
Lemma nr_sub_init s0 : all_prog noresjson (sub_init s0).
Proof. unfold sub_init, annot_path_at, cdir. nr_tac. Qed.
Lemma nr_store_key_at s0 name K : all_prog noresjson (store_key_at (cdir (Some s0)) name K).
Proof. unfold store_key_at, name_link_at, cdir. nr_tac. Qed.
Lemma nr_store_annotation_at s0 name a : all_prog noresjson (store_annotation_at (cdir (Some s0)) name a).
Proof. unfold store_annotation_at, annot_lock_at, annot_path_at, annot_tmp_at, cdir. nr_tac. Qed.
Lemma nr_retrieve_annotation_at s0 name : all_prog noresjson (retrieve_annotation_at (cdir (Some s0)) name).
Proof. unfold retrieve_annotation_at, annot_lock_at, annot_path_at, cdir. nr_tac. Qed.
Lemma nr_sub_retrieve s0 name : all_prog noresjson (sub_retrieve s0 name).
Proof.
  unfold sub_retrieve. apply all_bind; [apply all_get | intro f].
  destruct (resolve_name_at (cdir (Some s0)) f name); [|apply all_fail].
  apply all_bind; [apply nr_snapshot; apply all_ret | intro].
  apply all_bind; [apply nr_snapshot; apply nr_retrieve_model_entry | intro].
  apply all_bind; [apply nr_retrieve_annotation_at | intro]. apply all_ret.
Qed.
Lemma nr_retrieve_results c : all_prog noresjson (retrieve_results c).
Proof. unfold retrieve_results, results_json, cdir. destruct c; nr_tac. Qed.

(* what a reader of context c's results.json can obtain *)
Definition res_ok (c : option str) (P : N -> Prop) (f : fs) : Prop :=
  forall id, snd (retrieve_results c f) = inr id -> P id.

Lemma retrieve_results_eq c f :
  snd (retrieve_results c f) =
  match read_node (lookup f (results_json (cdir c))) with
  | Some [t; id] => if N.eqb t T_TRES then inr id else inl ECorrupt
  | Some _ => inl ECorrupt
  | None => inl EFileNotFound
  end.
Proof.
  unfold retrieve_results, bind. rewrite read_file_eq. cbn [fst snd].
  destruct (read_node (lookup f (results_json (cdir c)))) as [[|t [|id [|? ?]]]|]; try reflexivity.
  cbn. destruct (N.eqb t T_TRES); reflexivity.
Qed.

Lemma at_path_res_ok c (P : N -> Prop) : at_path (results_json (cdir c)) (res_ok c P).
Proof. intros f g E H id. rewrite retrieve_results_eq, E, <- retrieve_results_eq. apply H. Qed.

Lemma cdir_inj c c' : results_json (cdir c) = results_json (cdir c') -> c = c'.
Proof. destruct c, c'; cbn; intros E; try discriminate; [injection E as ->|]; reflexivity. Qed.

Lemma option_eq_dec_str (c c' : option str) : c = c' \/ c <> c'.
Proof.
  destruct c as [a|], c' as [b|]; try (right; discriminate); [|left; reflexivity].
  destruct (str_eqb a b) eqn:E; [left; apply str_eqb_eq in E; subst; reflexivity|].
  right. intros [= ->]. rewrite str_eqb_refl in E. discriminate.
Qed.

Lemma keeps_store_results c (P : N -> Prop) c' id :
  (c' = c -> P id) -> keepsR true (res_ok c P) (store_results c' id).
Proof.
  intros HP. destruct (option_eq_dec_str c' c) as [-> | Hne].
  - (* this context's results: the json is written (possibly cut), then the csv *)
    intros f HR. unfold store_results, bind. rewrite write_file_eq.
    set (pj := results_json (cdir c)). set (pc := results_csv (cdir c)).
    assert (Hst : stable pj (res_ok c P)) by apply at_path_stable, at_path_res_ok.
    assert (Hj1 : res_ok c P (apply_op (OpenW pj [T_TRES; id]) f)).
    { cbn [apply_op]. destruct (can_write f pj); [|exact HR]. intros id' E. rewrite retrieve_results_eq in E. fold pj in E.
      rewrite lookup_set_same in E. cbn [read_node] in E. rewrite N.eqb_refl in E. cbn in E. inversion E. subst. apply HP. reflexivity. }
    assert (Hj2 : forall j, res_ok c P (tear_op (OpenW pj [T_TRES; id]) j f)).
    { intros j. cbn [tear_op]. destruct (can_write f pj); [|exact HR]. intros id' E. rewrite retrieve_results_eq in E. fold pj in E.
      rewrite lookup_set_same in E. destruct j as [|[|j]]; cbn [read_node firstn] in E; rewrite ?firstn_nil in E; try discriminate E.
      rewrite N.eqb_refl in E. cbn in E. inversion E. subst. apply HP. reflexivity. }
    assert (Hav : avoids_path pj (OpenW pc [T_TCSV; id]) = true).
    { unfold avoids_path, pj, pc. cbn. rewrite andb_true_r. apply negb_true_iff, path_eqb_neq. destruct c; discriminate. }
    destruct (can_write f pj); cbn [fst snd].
    + rewrite write_file_eq. destruct (can_write (run_ops [OpenW pj [T_TRES; id]] f) pc); cbn [fst app always];
        (split; [intros _; exact Hj2|]); (split; [exact Hj1|]);
        destruct (Hst _ _ Hav Hj1) as [H1 H2]; (split; [intros _; exact H2|]); split; [exact H1 | exact I | exact H1 | exact I].
    + cbn [always]. split; [intros _; exact Hj2 | split; [exact Hj1 | exact I]].
  - eapply keepsR_avoid; [apply at_path_stable, at_path_res_ok|].
    intros f. unfold store_results, bind. rewrite write_file_eq.
    assert (Hne' : results_json (cdir c') <> results_json (cdir c)) by (intros E; apply Hne, cdir_inj, E).
    assert (H1 : avoids_path (results_json (cdir c)) (OpenW (results_json (cdir c')) [T_TRES; id]) = true).
    { unfold avoids_path. cbn. rewrite andb_true_r. apply negb_true_iff, path_eqb_neq. exact Hne'. }
    assert (H2 : avoids_path (results_json (cdir c)) (OpenW (results_csv (cdir c')) [T_TCSV; id]) = true).
    { unfold avoids_path. cbn. rewrite andb_true_r. apply negb_true_iff, path_eqb_neq. destruct c, c'; discriminate. }
    destruct (can_write f (results_json (cdir c'))); cbn [fst snd]; [|cbn; rewrite H1; reflexivity].
    rewrite write_file_eq. destruct (can_write _ (results_csv (cdir c'))); cbn; rewrite H1, H2; reflexivity.
Qed.

Lemma keeps_item_res c (P : N -> Prop) i :
  (forall id, i = WResults c id -> P id) -> keepsR true (res_ok c P) (item_prog i).
Proof.
  intros HP.
  assert (Hav : forall A (m : M A), all_prog noresjson m -> keepsR true (res_ok c P) m).
  { intros A m H. eapply keepsR_avoid; [apply at_path_stable, at_path_res_ok|].
    intros f. specialize (H f). rewrite forallb_forall in *. intros o Ho. apply noresjson_avoids, H, Ho. }
  destruct i; cbn [item_prog].
  - apply Hav, nr_ctx_init.
  - apply Hav. unfold ctx_store. apply all_bind; [apply nr_transaction, nr_store_model_entry | intro].
    apply all_bind; [apply nr_store_key | intro]. apply nr_store_annotation.
  - apply Hav. unfold db_store_model_entry. apply nr_transaction, nr_store_model_entry.
  - apply Hav, nr_metadata.
  - apply Hav, nr_store_annotation.
  - apply Hav, nr_store_message.
  - apply Hav, nr_forget, nr_ctx_retrieve.
  - apply Hav, nr_forget, nr_snapshot, nr_read_model.
  - apply Hav, nr_forget, nr_retrieve_annotation.
  - apply Hav, nr_forget, nr_retrieve_log.
  - apply Hav, nr_sub_init.
  - apply Hav. unfold sub_store. apply all_bind; [apply nr_transaction, nr_store_model_entry | intro].
    apply all_bind; [apply nr_store_key_at | intro]. apply nr_store_annotation_at.
  - apply Hav, nr_forget, nr_sub_retrieve.
  - apply keeps_store_results. intros ->. apply HP. reflexivity.
  - apply Hav, nr_forget, nr_retrieve_results.
Qed.

Lemma trace_res c (P : N -> Prop) w : forall f0,
  (forall id, In (WResults c id) w -> P id) -> res_ok c P f0 -> always true (res_ok c P) (trace w f0) f0.
Proof.
  induction w as [|i w IH]; intros f0 HP H0; [exact I|]. cbn [trace]. apply always_app.
  assert (H1 : always true (res_ok c P) (item_ops i f0) f0).
  { apply (keeps_item_res c P i); [|exact H0]. intros id ->. apply HP. left. reflexivity. }
  split; [exact H1|]. apply IH; [intros id Hin; apply HP; right; exact Hin | eapply always_final; eassumption].
Qed.

(* whatever results a reader of context c obtains after any crash were readable before or were stored,
   completely, by a store_results of that context in the workload *)
Lemma results_provenance_lemma :
  forall (f0 : fs) (w : list witem) (k : nat) (torn : option nat) (c : option str) (id : N),
    snd (retrieve_results c (crash_w f0 w k torn)) = inr id ->
    snd (retrieve_results c f0) = inr id \/ In (WResults c id) w.
Proof.
  intros f0 w k torn c id H.
  set (P := fun id => snd (retrieve_results c f0) = inr id \/ In (WResults c id) w).
  assert (HR : res_ok c P (crash_w f0 w k torn)).
  { unfold crash_w. apply (always_crash_torn (res_ok c P)); [intros id' E; left; exact E|].
    apply trace_res; [intros id' Hin; right; exact Hin | intros id' E; left; exact E]. }
  exact (HR id H).
Qed.
