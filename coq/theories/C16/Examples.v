(* PV.C16.Examples — non-vacuity: concrete, non-trivial instances of every hypothesis / guard of the
   theorems in Properties.v. *)
From Coq Require Import List Bool NArith Arith.
From PV Require Import C16.Model C16.Proofs C16.ProofsCodec C16.ProofsStore C16.ProofsText C16.Concurrent C16.Serial C16.Refuted.
Import ListNotations.

Definition w2 : list witem := [WInit; WStore mP; WStore mI; WLog cx dt inf [104;105]%N].

(* a workload of 58 operations; after 36 of them key 1 is committed and visible, key 2 is not *)
Example visible_example :
  length (trace w2 []) = 58
  /\ visible (crash_w [] w2 36 None) 1 = true /\ committed_in (firstn 36 (trace w2 [])) 1 = true
  /\ visible (crash_w [] w2 36 None) 2 = false /\ visible [] 1 = false.
Proof. vm_compute. auto. Qed.

(* in the middle of the second transaction (operation 45, torn model-file write) key 2 is invisible,
   key 1 is still visible and complete *)
Example torn_model_file_example :
  nth_error (trace w2 []) 45 = Some (OpenW (model_file 2) [T_MODEL; 2; 1; 1]%N)
  /\ lookup (crash_w [] w2 45 (Some 2)) (model_file 2) = Some (Torn [T_MODEL; 2]%N)
  /\ visible (crash_w [] w2 45 (Some 2)) 2 = false
  /\ visible (crash_w [] w2 45 (Some 2)) 1 = true.
Proof. vm_compute. auto. Qed.

(* the invariant is not trivially true: a state with a torn model file and no marker violates it *)
Example inv_nontrivial : ~ Inv [(model_file 1, Torn [T_MODEL]%N)].
Proof. intros H. specialize (H 1%N eq_refl). vm_compute in H. discriminate. Qed.

(* committed_intact: the workload [WStore mI] has no item on key 1 *)
Example intact_example :
  (forall i, In i [WStore mI] -> item_key i <> Some 1%N)
  /\ special_key (model_file 1) = Some 1%N
  /\ is_file (run w1 []) (model_file 1) = true.
Proof. repeat split; try (vm_compute; reflexivity). intros i [<-|[]]. discriminate. Qed.

(* committed_retrievable_partial: hypothesis instance — after a crash in mI's transaction key 1 has no marker *)
Example retrievable_example :
  visible (run w1 []) 1 = true /\ exists_ (crash_w (run w1 []) [WStore mI] 9 None) (pending 1) = false
  /\ exists_ (crash_w (run w1 []) [WStore mI] 9 None) (pending 2) = true.
Proof. vm_compute. auto. Qed.

(* name_implies_committed: the link models/p exists after 30 operations and key 1 committed before *)
Example name_example :
  resolve_name (crash_w [] w2 30 None) sP = Some 1%N /\ resolve_name (crash_w [] w2 29 None) sP = None
  /\ committed_in (firstn 30 (trace w2 [])) 1 = true.
Proof. vm_compute. auto. Qed.

(* annotation guards *)
Example annotation_example :
  let file := [112;32;80;32;100;10;105;32;73;10]%N in        (* "p P d\ni I\n" *)
  ends_nlb (translate file) = true /\ no_nl [110;101;119;32;116;101;120;116]%N = true /\ name_ok sI = true
  /\ annot_store file sI [110;101;119]%N = [112;32;80;32;100;10;105;32;110;101;119;10]%N
  /\ annot_retrieve (annot_store file sI [110;101;119]%N) sP = AFound [80;32;100]%N.
Proof. vm_compute. auto. Qed.

(* a file whose last line has no terminator (what a torn write leaves) is outside the guard *)
Example ends_nl_example : ends_nlb (translate [112;32;80]%N) = false /\ ends_nlb (translate [112;32;80;13]%N) = true.
Proof. vm_compute. auto. Qed.

(* log guards: commas, quotes and line breaks in the message are fine *)
Example log_example :
  let rows := [(cx, dt, inf, [97;44;98;34;99;10;100]%N); (cx, dt, inf, [78;65]%N ++ [33]%N)] in   (* a,b DQ c LF d  and  NA! *)
  forallb row_plain rows = true /\ log_guard (map msg_of rows) = true
  /\ read_log (log_file rows) = LCells [CStr [97;44;98;34;99;10;100]%N; CStr [78;65;33]%N].
Proof. vm_compute. auto. Qed.

(* store_after_crash: its hypotheses are met at crash point 22 of w2 — INSIDE the former defect window
   (csv written, datainfo and index entry not yet): key 1 is pending, storing mI (same dataset, other key)
   succeeds and is visible; the executable shape guard holds there *)
Example store_after_crash_example :
  shapeb (crash_w [] w2 22 None) = true
  /\ exists_ (crash_w [] w2 22 None) (pending 1) = true
  /\ exists_ (crash_w [] w2 22 None) (pending (m_key mI)) = false
  /\ item_res (WDbStore mI) (crash_w [] w2 22 None) = inr tt
  /\ visible (run [WDbStore mI] (crash_w [] w2 22 None)) 2 = true.
Proof. vm_compute. auto 6. Qed.

(* dataset_faithful: instance with a non-zero link *)
Example dataset_faithful_example :
  lookup (crash_w [] w2 50 None) (model_file 2) = Some (File [T_MODEL; 2; 1; 1]%N)
  /\ lookup (crash_w [] w2 50 None) (csv 1) = Some (File [T_CSV; 1]%N).
Proof. vm_compute. auto. Qed.

(* ctx_store_succeeds: a freshly initialised context meets ctx_ok, its annotations file is empty *)
Example ctx_ok_example :
  ctx_ok (run [WInit] []) /\ read_node (lookup (run [WInit] []) annot_path) = Some []
  /\ shapeb (run [WInit] []) = true
  /\ path_exists (run [WInit] []) (name_link sP) = false.
Proof. unfold ctx_ok. vm_compute. auto 7. Qed.

(* annotations_survive / log_survives: hypotheses met after [WInit; WStore mP; WLog ..]; the later
   workload [WStore mI; WLog ..] does not touch p's annotation and logs plain records *)
Definition f_ex : fs := run [WInit; WStore mP; WLog cx dt inf [104;105]%N] [].
Definition w_ex : list witem := [WStore mI; WLog cx dt inf [98;121;101]%N].
Example survive_example :
  ann_ok sP [80;32;100]%N f_ex
  /\ forallb (item_ann_ok sP) w_ex = true
  /\ log_state [(cx, dt, inf, [104;105]%N)] f_ex
  /\ forallb item_log_ok w_ex = true
  /\ log_rows w_ex = [(cx, dt, inf, [98;121;101]%N)].
Proof.
  split; [exists [112;32;80;32;100;10]%N; vm_compute; auto|].
  split; [vm_compute; reflexivity|]. split; [unfold log_state; vm_compute; auto|]. split; vm_compute; reflexivity.
Qed.

(* subcontexts and results: a workload through the subcontext API; the 'final' entry of subcontext "s" resolves
   to key 2 after its store, results of the subcontext are read back *)
Definition sS : str := [115]%N.
Definition mF := mkMdl 2 1 1 [102;105;110;97;108]%N [70]%N None.      (* named "final" *)
Definition w_sub : list witem := [WInit; WSubInit sS; WSubStore sS mF; WResults (Some sS) 7%N; WResults None 8%N].
Example subcontext_example :
  results w_sub [] = [inr tt; inr tt; inr tt; inr tt; inr tt]
  /\ resolve_name_at (cdir (Some sS)) (run w_sub []) [102;105;110;97;108]%N = Some 2%N
  /\ resolve_name (run w_sub []) [102;105;110;97;108]%N = None
  /\ snd (sub_retrieve sS [102;105;110;97;108]%N (run w_sub [])) = inr (2, 1, 1, None, [70])%N
  /\ snd (retrieve_results (Some sS) (run w_sub [])) = inr 7%N
  /\ snd (retrieve_results None (run w_sub [])) = inr 8%N
  /\ shapeb (run w_sub []) = true.
Proof. vm_compute. auto 8. Qed.

(* the writer state machine of Concurrent.v, run alone, is the database-level store; a schedule that
   interleaves the pre-lock system calls and lets writer 2 take the lock first gives the order 2;1 *)
Example writer_machine_example :
  fst (trun cP 10 P0 f_init) = PDone
  /\ fs_eqb (snd (trun cP 10 P0 f_init)) (run [WDbStore cP] f_init) = true
  /\ length (all_scheds 12) = 4096
  /\ (let s := crun cP cD [true; false; true; false; true; false; true; false; true; false; false; true] f_init in
      fs_eqb (c_fs s) (run [WDbStore cD; WDbStore cP] f_init) && negb (fs_eqb (c_fs s) (run [WDbStore cP; WDbStore cD] f_init))) = true.
Proof. vm_compute. auto. Qed.

(* the hypotheses of two_writers_serializable hold of a database that already holds a model (two further
   models, one sharing its dataset), those of annotation_writers_serializable of a fresh context; and the two
   serial orders are different file systems, so the disjunction in the theorems says something *)
Example serial_hypotheses_example :
  J f_one
  /\ (is_dir f_one [CDb] = true /\ exists_ f_one (pending (m_key cI)) = false /\ exists_ f_one (pending (m_key cD)) = false
      /\ m_key cI <> m_key cD /\ is_dir f_init [] = true
      /\ lookup (run [WAnnot [97] [120]; WAnnot [98] [121]] f_init) annot_path
         <> lookup (run [WAnnot [98] [121]; WAnnot [97] [120]] f_init) annot_path
      /\ lookup (run [WDbStore cP; WDbStore cD] f_init) (model_file 3) <> lookup (run [WDbStore cD; WDbStore cP] f_init) (model_file 3))%N.
Proof.
  split; [unfold f_one; apply consistent_closed_lemma; apply J_empty|].
  vm_compute. repeat split; try discriminate.
Qed.

(* Round 4: a subcontext exists after create_subcontext, so context_annotation_writers_serializable applies to
   it; the two serial orders leave different annotations files; and a schedule that interleaves the two touches
   of the lock file and lets writer 2 take the lock first ends, completely, in the order 2;1 *)
Example subcontext_annotation_writers_example :
  let cp := cdir (Some [115]%N) in
  let f0 := run [WInit; WSubInit [115]%N] [] in
  let w1 := store_annotation_at cp [97]%N [120]%N in
  let w2 := store_annotation_at cp [98]%N [121]%N in
  let s := lcrun (annot_lock_at cp) (annot_body_at cp [97]%N [120]%N) (annot_body_at cp [98]%N [121]%N)
                 [true; false; true; false; false; true] f0 in
  is_dir f0 cp = true
  /\ lookup (runp w2 (runp w1 f0)) (annot_path_at cp) <> lookup (runp w1 (runp w2 f0)) (annot_path_at cp)
  /\ lrunning (l_p1 s) = false /\ lrunning (l_p2 s) = false
  /\ fs_eqb (l_fs s) (runp w1 (runp w2 f0)) = true /\ fs_eqb (l_fs s) (runp w2 (runp w1 f0)) = false
  /\ lres (l_p1 s) = Some (inr tt) /\ lres (l_p2 s) = Some (inr tt).
Proof. vm_compute. repeat split; try discriminate. Qed.
