(* PV.C16.Properties — the property theorems of C16 and nothing else.
   Reading guide: [crash_w f0 w k torn] is the file system a fresh reader finds when workload w,
   started on file system f0, dies before its k-th file-system operation ([torn = Some j]: operation
   k itself was interrupted after j units of its content).  [trace w f0] is the operation list.
   [Inv f] ("every key without a PENDING marker has complete own files") holds of the empty
   directory and, by [crash_closed], of every state reachable by workloads and crashes — so all
   theorems apply to arbitrary histories of runs, crashes and restarts. *)
From Coq Require Import List Bool NArith Arith.
From PV Require Import C16.Model C16.Proofs C16.ProofsCodec C16.ProofsStore C16.ProofsText C16.Concurrent C16.Serial.
Import ListNotations.

(* The empty directory satisfies the invariant. *)
Theorem inv_initial : Inv [].
Proof. exact inv_empty. Qed.

(* The invariant survives every workload, every crash point and every torn write: histories of
   crashes compose. *)
Theorem crash_closed :
  forall (f0 : fs) (w : list witem) (k : nat) (torn : option nat),
    Inv f0 -> Inv (crash_w f0 w k torn).
Proof. exact crash_inv_lemma. Qed.

(* visible ⊆ committed: whatever the workload, the crash point and the torn write, a key a reader can
   open after the restart was either visible before the workload started or the removal of its PENDING
   marker (the commit point of a transaction on it) is among the operations that happened. *)
Theorem visible_subset_committed :
  forall (f0 : fs) (w : list witem) (k : nat) (torn : option nat) (K : N),
    Inv f0 ->
    visible (crash_w f0 w k torn) K = true ->
    visible f0 K = true \/ committed_in (firstn k (trace w f0)) K = true.
Proof. exact visible_subset_committed_lemma. Qed.

(* No reader ever obtains a partially written entry as if it were complete: a visible key has a
   complete, well-formed model file written for that very key, and neither its results file nor its
   metadata file is the remainder of an interrupted write. *)
Theorem visible_entry_complete :
  forall (f0 : fs) (w : list witem) (k : nat) (torn : option nat) (K : N),
    Inv f0 -> visible (crash_w f0 w k torn) K = true ->
    (exists h n, lookup (crash_w f0 w k torn) (model_file K) = Some (File [T_MODEL; K; h; n]))
    /\ not_torn (lookup (crash_w f0 w k torn) (results_file K)) = true
    /\ not_torn (lookup (crash_w f0 w k torn) (metadata_file K)) = true.
Proof. exact visible_entry_complete_lemma. Qed.

(* committed_intact, part 1: a model file, once it exists, is never written again — by no workload, at
   no crash point, torn or not (store_model returns early; nothing else targets it). *)
Theorem committed_model_immutable :
  forall (f0 : fs) (w : list witem) (k : nat) (torn : option nat) (K : N),
    Inv f0 -> is_file f0 (model_file K) = true ->
    lookup (crash_w f0 w k torn) (model_file K) = lookup f0 (model_file K).
Proof. exact model_file_immutable_lemma. Qed.

(* committed_intact, part 2: a transaction on one key never writes another key's files: when no item of
   the workload is about key K, all of K's protected files (model, results, metadata, PENDING marker)
   are exactly as before, at every crash point. *)
Theorem committed_intact :
  forall (f0 : fs) (w : list witem) (k : nat) (torn : option nat) (K : N) (p : path),
    (forall i, In i w -> item_key i <> Some K) ->
    special_key p = Some K ->
    lookup (crash_w f0 w k torn) p = lookup f0 p.
Proof. exact committed_intact_lemma. Qed.

(* ... hence an entry that was visible stays visible with the same content unless the crash hit a later
   transaction on the SAME key (the PENDING marker of that key is then left behind — see
   Refuted.pending_retransact_refuted for the guard being necessary). *)
Theorem committed_retrievable_partial :
  forall (f0 : fs) (w : list witem) (k : nat) (torn : option nat) (K : N),
    Inv f0 -> visible f0 K = true ->
    exists_ (crash_w f0 w k torn) (pending K) = false ->
    visible (crash_w f0 w k torn) K = true
    /\ lookup (crash_w f0 w k torn) (model_file K) = lookup f0 (model_file K).
Proof. exact committed_retrievable_lemma. Qed.

(* A name in the context (models/<name> symlink) that appeared during the workload points to a key whose
   transaction committed before the link was made. *)
Theorem name_implies_committed :
  forall (f0 : fs) (w : list witem) (k : nat) (torn : option nat) (name : str) (K : N),
    Inv f0 ->
    resolve_name (crash_w f0 w k torn) name = Some K ->
    resolve_name f0 name = Some K \/ committed_in (firstn k (trace w f0)) K = true.
Proof. exact name_implies_committed_lemma. Qed.

(* The same for ANY symlink to a key directory — the name layer of the top level context and of every
   subcontext (models/<name>, subcontexts/<s>/models/<name>, hence also the 'final' and 'input' entries):
   a link that appears points to a key committed before. *)
Theorem link_implies_committed :
  forall (f0 : fs) (w : list witem) (k : nat) (torn : option nat) (p : path) (K : N),
    lookup (crash_w f0 w k torn) p = Some (Link (key_dir K)) ->
    lookup f0 p = Some (Link (key_dir K)) \/ committed_in (firstn k (trace w f0)) K = true.
Proof. exact link_implies_committed_lemma. Qed.

(* ---- the dataset store (.datasets) -------------------------------------------------------- *)
(* [J f]: every node has the kind its name says, parents are directories, links point to directories
   ([shape], executable as [shapeb]); every model file that links to dataN.csv finds there the
   complete csv of its own dataset ([link_inv]); every index entry .datasets/.hash/<h>/dataN.csv is
   the only entry of its directory and dataN.csv / dataN.datainfo are complete and hold that dataset
   ([ds_inv]).  Since the index entry is created last (fix b547698) all three hold in EVERY
   intermediate and torn state, and of the empty directory. *)
Theorem consistent_initial : J [].
Proof. exact J_empty. Qed.

Theorem shapeb_sound : forall f, shapeb f = true -> shape f.
Proof. exact shapeb_shape. Qed.

(* Complete workloads (whatever their items do or raise) keep the store consistent ... *)
Theorem consistent_closed : forall (f0 : fs) (w : list witem), J f0 -> J (run w f0).
Proof. exact consistent_closed_lemma. Qed.

(* ... and so does every crash point of every workload, torn or not: histories compose. *)
Theorem crash_keeps_consistent :
  forall (f0 : fs) (w : list witem) (k : nat) (torn : option nat), J f0 -> J (crash_w f0 w k torn).
Proof. exact crash_J_lemma. Qed.

(* Dataset fidelity: whatever model file exists after the crash, the data file it names is the
   complete csv of the dataset it was stored with (so, with visible_subset_committed and
   visible_entry_complete: a reader gets the stored model code AND the stored dataset). *)
Theorem dataset_faithful :
  forall (f0 : fs) (w : list witem) (k : nat) (torn : option nat) (K K' h n : N),
    J f0 ->
    lookup (crash_w f0 w k torn) (model_file K) = Some (File [T_MODEL; K'; h; n]) -> n <> 0%N ->
    lookup (crash_w f0 w k torn) (csv n) = Some (File [T_CSV; h]).
Proof. exact dataset_faithful_lemma. Qed.

(* store_after_crash (full strength since fix b547698 — formerly guarded by ds_ok): after ANY crash,
   torn or not, storing ANY model whose key has no PENDING marker succeeds — models sharing a dataset with
   the crashed one included — commits, is visible, and leaves the store consistent for the next one. *)
Theorem store_after_crash :
  forall (f0 : fs) (w : list witem) (k : nat) (torn : option nat) (m : mdl),
    J f0 ->
    exists_ (crash_w f0 w k torn) (pending (m_key m)) = false ->
    item_res (WDbStore m) (crash_w f0 w k torn) = inr tt
    /\ visible (run [WDbStore m] (crash_w f0 w k torn)) (m_key m) = true
    /\ J (run [WDbStore m] (crash_w f0 w k torn)).
Proof.
  intros f0 w k torn m HJ Hp. apply db_store_succeeds_lemma; [apply crash_J_lemma; exact HJ | exact Hp].
Qed.

(* The same at the level of the run context (Context._store_model: transaction, name link, annotation):
   from a consistent state of an initialised context ([ctx_ok]: context directory, models/ and the
   annotations file exist) storing a model whose key has no PENDING marker succeeds; the key is visible;
   a name that was free now resolves to the key; the annotations file holds exactly
   [annot_store old name description]; everything stays consistent. *)
Theorem ctx_store_succeeds :
  forall (f : fs) (m : mdl) (c : str),
    J f -> ctx_ok f -> read_node (lookup f annot_path) = Some c ->
    exists_ f (pending (m_key m)) = false ->
    item_res (WStore m) f = inr tt
    /\ visible (run [WStore m] f) (m_key m) = true
    /\ (path_exists f (name_link (m_name m)) = false -> resolve_name (run [WStore m] f) (m_name m) = Some (m_key m))
    /\ read_node (lookup (run [WStore m] f) annot_path) = Some (annot_store c (m_name m) (m_desc m))
    /\ J (run [WStore m] f) /\ ctx_ok (run [WStore m] f).
Proof. exact ctx_store_succeeds_lemma. Qed.

(* ... and the description is read back verbatim — any text, line breaks included (fix 81deceb): a model
   entry that was stored successfully is found under its name with its description. *)
Theorem stored_description_retrievable :
  forall (f : fs) (m : mdl) (c : str),
    J f -> ctx_ok f -> read_node (lookup f annot_path) = Some c ->
    exists_ f (pending (m_key m)) = false ->
    ends_nlb (translate c) = true -> name_ok (m_name m) = true ->
    exists c', read_node (lookup (run [WStore m] f) annot_path) = Some c'
               /\ annot_retrieve c' (m_name m) = AFound (m_desc m).
Proof.
  intros f m c HJ Hc Hr Hp H1 H3.
  destruct (ctx_store_succeeds_lemma f m c HJ Hc Hr Hp) as [_ [_ [_ [Ha _]]]].
  eexists. split; [exact Ha | apply annotation_roundtrip_lemma; assumption].
Qed.

(* ---- annotations -------------------------------------------------------------------------- *)
(* store_annotation followed by retrieve_annotation returns the text verbatim — EVERY text (backslashes
   and line breaks are escaped since fix 81deceb; formerly guarded by no_nl) — for every previous content
   of the file that ends with a line terminator (or is empty) and every name without line break or
   space (the remaining guard: see Refuted.annotation_refuted_name). *)
Theorem annotation_roundtrip :
  forall (file name a : str),
    ends_nlb (translate file) = true -> name_ok name = true ->
    annot_retrieve (annot_store file name a) name = AFound a.
Proof. exact annotation_roundtrip_lemma. Qed.

(* ... the annotations of all other names are unchanged ... *)
Theorem annotation_others_preserved :
  forall (file name a n : str),
    ends_nlb (translate file) = true -> name_ok name = true -> n <> name ->
    annot_retrieve (annot_store file name a) n = annot_retrieve file n.
Proof. exact annotation_others_lemma. Qed.

(* ... and the file is again well formed, so the two statements above apply to every later store. *)
Theorem annotation_wellformed_preserved :
  forall (file name a : str),
    ends_nlb (translate file) = true -> name_ok name = true ->
    ends_nlb (translate (annot_store file name a)) = true.
Proof. exact annotation_wf_preserved_lemma. Qed.

(* the escaping itself: inverse for every text, and no line break in the escaped text *)
Theorem escape_roundtrip : forall a : str, unescape (escape a) = a.
Proof. exact unescape_escape. Qed.

(* ---- log ---------------------------------------------------------------------------------- *)
(* The quoting layer: the tokenizer reads back exactly the four fields of every record, in order, for
   arbitrary message texts (commas, quotes, line breaks included) when path, time and severity need
   no quoting. *)
Theorem log_csv_roundtrip :
  forall (rows : list (str * str * str * str)),
    forallb row_plain rows = true ->
    csv_parse (log_file rows) = Some (header_row :: map row_fields rows).
Proof. exact log_csv_roundtrip_lemma. Qed.

(* retrieve_log returns the messages verbatim and in order — 'NA', '', '1', 'True' included since fix
   90b40e7 (formerly guarded by the NA / column-type conjuncts) — when no message contains NUL (the
   remaining guard: see Refuted.log_refuted_nul). *)
Theorem log_roundtrip :
  forall (rows : list (str * str * str * str)),
    forallb row_plain rows = true -> log_guard (map msg_of rows) = true ->
    read_log (log_file rows) = LCells (map (fun r => CStr (msg_of r)) rows).
Proof. exact log_roundtrip_lemma. Qed.

(* ---- annotations and log across crashes ---------------------------------------------------- *)
(* [ann_ok name a f]: the annotations file of f is well formed and holds annotation a for name.
   At EVERY crash point, torn or not (the file is replaced atomically since fix ffb4c75; formerly only
   for torn = None), the annotation of a name survives any workload whose items do not store an
   annotation for that name themselves and use names in the codec's domain (guard [item_ann_ok]). *)
Theorem annotations_survive_crash :
  forall (f0 : fs) (w : list witem) (k : nat) (torn : option nat) (name a : str),
    forallb (item_ann_ok name) w = true -> ann_ok name a f0 -> ann_ok name a (crash_w f0 w k torn).
Proof. exact annotations_survive_lemma. Qed.

(* [log_state rows f]: log.csv holds exactly the header and the records rows.  At every crash point
   without a torn write the log holds the old records followed by a PREFIX, in order, of the records
   the workload logs — so (log_csv_roundtrip / log_roundtrip) it parses and the messages come back
   complete and in order.  With a torn append this is false: Refuted.torn_log_refuted. *)
Theorem log_survives_untorn_crash :
  forall (w : list witem) (f0 : fs) (rows : list row) (k : nat),
    forallb item_log_ok w = true -> log_state rows f0 ->
    exists n, log_state (rows ++ firstn n (log_rows w)) (crash_w f0 w k None).
Proof. exact log_survives_lemma. Qed.

(* ---- tool results of a context (results.json) ---------------------------------------------- *)
(* Whatever results a reader of a context (top level or subcontext) obtains after ANY crash, torn or not,
   were readable before the workload or were stored COMPLETELY by a store_results of that very context in
   the workload: a cut results.json is never taken for a result (it does not parse).  What is NOT
   guaranteed — the file is rewritten in place — is that results stored earlier survive a crash during a
   later store_results: Refuted.torn_results_refuted. *)
Theorem results_provenance :
  forall (f0 : fs) (w : list witem) (k : nat) (torn : option nat) (c : option str) (id : N),
    snd (retrieve_results c (crash_w f0 w k torn)) = inr id ->
    snd (retrieve_results c f0) = inr id \/ In (WResults c id) w.
Proof. exact results_provenance_lemma. Qed.

(* ---- two concurrent writers ---------------------------------------------------------------- *)
(* Two processes store different models into the same database at the same time.  Every system call before
   the database lock is a step of its own, the locked section is one step (mutual exclusion of the locked
   sections is property C15).  Bounded statement (closed by enumeration): for EVERY schedule of 12 steps —
   enough for both writers to finish; 4096 schedules per instance — both writers succeed and the final file
   system is exactly that of one of the two serial orders, for a pair of models sharing the dataset, a pair
   with different datasets (from a freshly initialised context) and a pair stored after a third model. *)
Theorem two_writers_serializable_bounded :
  forall sched : list bool, length sched = 12 ->
    serial_ok cP cI f_init sched = true /\ serial_ok cP cD f_init sched = true /\ serial_ok cI cD f_one sched = true.
Proof.
  intros sched H. destruct serial_all_schedules as [H1 [H2 H3]].
  pose proof (all_scheds_complete 12 sched H) as Hin.
  rewrite forallb_forall in H1, H2, H3. auto.
Qed.

(* ---- two concurrent writers: every schedule, every pair of models ---------------------------- *)
(* The locked section of a writer (path_lock(.lock) ... PENDING ... store ... unlink PENDING) is LOCAL: on two
   file systems that agree outside the subtree of another key K' and the lock file (and on the entry lists of
   all directories other than .modeldb itself and those of K') it performs the same operations, returns the
   same result and keeps the two file systems related.  This is the commutation fact behind the theorem
   below: what another writer does before it holds the lock cannot influence a locked section. *)
Theorem locked_section_local :
  forall (m : mdl) (K' : N) (f g : fs),
    m_key m <> K' -> R (SW K') (DW K') f g ->
    critical m f = critical m g
    /\ R (SW K') (DW K') (run_ops (fst (critical m f)) f) (run_ops (fst (critical m f)) g).
Proof.
  intros m K' f g HK HR. destruct (sim_crit_W m K' HK f g HR) as [E Ha]. split; [exact E|].
  apply R_run; assumption.
Qed.

(* two_writers_serializable: for ALL pairs of models with different keys (same or different dataset, datainfo,
   results, names), ALL consistent initial states of an existing database whose two keys carry no PENDING
   marker (J holds after every history of workloads and crashes: crash_keeps_consistent) and ALL schedules
   (every system call before the lock is a step, the other writer may run between any two of them; the locked
   section is one step: C15): when both writers have stopped, both have committed and the file system is, path
   by path, that of one of the two serial orders of the model programs.  Proof: an invariant over the schedule,
   by parts of the tree (subtree of key 1, subtree of key 2, the rest) with locked_section_local for the steps
   inside the lock.  two_writers_terminate: every schedule of at least 12 steps gets there. *)
Theorem two_writers_serializable :
  forall (m1 m2 : mdl) (f0 : fs) (sched : list bool),
    m_key m1 <> m_key m2 -> J f0 -> is_dir f0 [CDb] = true ->
    exists_ f0 (pending (m_key m1)) = false -> exists_ f0 (pending (m_key m2)) = false ->
    let s := crun m1 m2 sched f0 in
    running (c_p1 s) = false -> running (c_p2 s) = false ->
    c_p1 s = PDone /\ c_p2 s = PDone
    /\ ((forall p, lookup (c_fs s) p = lookup (run [WDbStore m1; WDbStore m2] f0) p)
        \/ (forall p, lookup (c_fs s) p = lookup (run [WDbStore m2; WDbStore m1] f0) p)).
Proof. exact two_writers_serializable_lemma. Qed.

Theorem two_writers_terminate :
  forall (m1 m2 : mdl) (f0 : fs) (sched : list bool), 12 <= length sched ->
    running (c_p1 (crun m1 m2 sched f0)) = false /\ running (c_p2 (crun m1 m2 sched f0)) = false.
Proof. intros m1 m2 f0 sched H. apply schedule_completes. exact H. Qed.

(* ---- two writers of a file guarded by its own lock file --------------------------------------- *)
(* `with self._write_lock(path): body` for ANY lock file lk and ANY two bodies that neither read nor write
   the lock file (sim (Slk lk) D0 b: related file systems drive b through the same operations): the two
   system calls of Path.touch(lock) are steps of their own, the locked body is one step (C15).  For ALL initial
   states in which the directory of the lock file exists and ALL schedules: when both have stopped, the file
   system is, path by path, that of one of the two serial orders of the programs `lock lk ;; b`, and each
   writer ended (returned or raised) as in that serial order.  Six steps are enough. *)
Theorem locked_writers_serializable :
  forall (lk : path) (b1 b2 : M unit) (f0 : fs) (sched : list bool),
    parent_ok f0 lk = true -> sim (Slk lk) D0 b1 -> sim (Slk lk) D0 b2 ->
    let s := lcrun lk b1 b2 sched f0 in
    lrunning (l_p1 s) = false -> lrunning (l_p2 s) = false ->
    ((forall p, lookup (l_fs s) p = lookup (ser lk b2 (ser lk b1 f0)) p)
     /\ lres (l_p1 s) = Some (resu lk b1 f0) /\ lres (l_p2 s) = Some (resu lk b2 (ser lk b1 f0)))
    \/ ((forall p, lookup (l_fs s) p = lookup (ser lk b1 (ser lk b2 f0)) p)
        /\ lres (l_p2 s) = Some (resu lk b2 f0) /\ lres (l_p1 s) = Some (resu lk b1 (ser lk b2 f0))).
Proof. intros lk b1 b2 f0 sched Hp H1 H2. exact (locked_writers_lemma lk b1 b2 f0 Hp sched H1 H2). Qed.

Theorem locked_writers_terminate :
  forall (lk : path) (b1 b2 : M unit) (f0 : fs) (sched : list bool), 6 <= length sched ->
    lrunning (l_p1 (lcrun lk b1 b2 sched f0)) = false /\ lrunning (l_p2 (lcrun lk b1 b2 sched f0)) = false.
Proof. intros lk b1 b2 f0 sched H. apply locked_schedule_completes. exact H. Qed.

(* The instances of the context: two concurrent store_annotation calls (ANY names and texts, equal names
   included) and two concurrent log messages, from ANY state whose context directory exists, under ANY
   schedule, leave the file system of `a; b` or of `b; a` — no update of the annotations file is lost, no log
   line is lost or mixed. *)
Theorem annotation_writers_serializable :
  forall (n1 a1 n2 a2 : str) (f0 : fs) (sched : list bool),
    is_dir f0 [] = true ->
    let s := lcrun annot_lock (annot_body n1 a1) (annot_body n2 a2) sched f0 in
    lrunning (l_p1 s) = false -> lrunning (l_p2 s) = false ->
    (forall p, lookup (l_fs s) p = lookup (run [WAnnot n1 a1; WAnnot n2 a2] f0) p)
    \/ (forall p, lookup (l_fs s) p = lookup (run [WAnnot n2 a2; WAnnot n1 a1] f0) p).
Proof.
  intros n1 a1 n2 a2 f0 sched Hd s R1 R2.
  destruct (locked_writers_lemma annot_lock (annot_body n1 a1) (annot_body n2 a2) f0 Hd sched
              (sim_annot_body n1 a1) (sim_annot_body n2 a2) R1 R2) as [[H _]|[H _]]; [left | right];
    rewrite run_cons, <- !ser_annot; exact H.
Qed.

Theorem log_writers_serializable :
  forall (p1 d1 s1 g1 p2 d2 s2 g2 : str) (f0 : fs) (sched : list bool),
    is_dir f0 [] = true ->
    let s := lcrun log_lock (log_body p1 d1 s1 g1) (log_body p2 d2 s2 g2) sched f0 in
    lrunning (l_p1 s) = false -> lrunning (l_p2 s) = false ->
    (forall p, lookup (l_fs s) p = lookup (run [WLog p1 d1 s1 g1; WLog p2 d2 s2 g2] f0) p)
    \/ (forall p, lookup (l_fs s) p = lookup (run [WLog p2 d2 s2 g2; WLog p1 d1 s1 g1] f0) p).
Proof.
  intros p1 d1 s1 g1 p2 d2 s2 g2 f0 sched Hd s R1 R2.
  destruct (locked_writers_lemma log_lock (log_body p1 d1 s1 g1) (log_body p2 d2 s2 g2) f0 Hd sched
              (sim_log_body p1 d1 s1 g1) (sim_log_body p2 d2 s2 g2) R1 R2) as [[H _]|[H _]]; [left | right];
    rewrite run_cons, <- !ser_log; exact H.
Qed.

(* Round 4: the annotations file of ANY context directory cp — the top level (cp = []), subcontexts/<s>
   (cp = cdir (Some s), where Context._store_model of a subcontext, store_final_model_entry and
   store_input_model_entry write their descriptions) and subcontexts of subcontexts at every depth.  For ALL cp,
   names and texts (equal names included), ALL states in which the directory cp exists and ALL schedules (the two
   system calls of Path.touch(annotations.lock) are steps, the locked read / write annotations.tmp / os.replace is
   one step: C15): when both writers have stopped, the file system is, path by path, the one the model programs
   store_annotation_at leave in one of the two serial orders, and each call returned or raised (e.g. no
   annotations file) exactly as in that order.  No update of a subcontext's annotations file is lost. *)
Theorem context_annotation_writers_serializable :
  forall (cp : path) (n1 a1 n2 a2 : str) (f0 : fs) (sched : list bool),
    is_dir f0 cp = true ->
    let w1 := store_annotation_at cp n1 a1 in
    let w2 := store_annotation_at cp n2 a2 in
    let s := lcrun (annot_lock_at cp) (annot_body_at cp n1 a1) (annot_body_at cp n2 a2) sched f0 in
    lrunning (l_p1 s) = false -> lrunning (l_p2 s) = false ->
    ((forall p, lookup (l_fs s) p = lookup (runp w2 (runp w1 f0)) p)
     /\ lres (l_p1 s) = Some (resp w1 f0) /\ lres (l_p2 s) = Some (resp w2 (runp w1 f0)))
    \/ ((forall p, lookup (l_fs s) p = lookup (runp w1 (runp w2 f0)) p)
        /\ lres (l_p2 s) = Some (resp w2 f0) /\ lres (l_p1 s) = Some (resp w1 (runp w2 f0))).
Proof.
  intros cp n1 a1 n2 a2 f0 sched Hd w1 w2 s R1 R2.
  assert (Hp : parent_ok f0 (annot_lock_at cp) = true) by (unfold annot_lock_at; rewrite parent_ok_snoc; exact Hd).
  exact (locked_writers_lemma (annot_lock_at cp) (annot_body_at cp n1 a1) (annot_body_at cp n2 a2) f0 Hp sched
           (sim_annot_body_at cp n1 a1) (sim_annot_body_at cp n2 a2) R1 R2).
Qed.
