(* PV.C16.Concurrent — two concurrent writers of the model database.
   Granularity: before the lock every system call of a writer is one step (mkdir of the key's directories,
   touch of the lock file) and the other writer may run between any two of them; the locked section
   (path_lock(.lock) ... PENDING ... store ... unlink PENDING) of one writer is one step: property C15 (the
   exclusive database lock held from before PENDING is created until after it is removed) is what makes it
   atomic with respect to the other writer's locked section.  Not modelled: system calls of the other
   writer's PRE-lock part falling inside a locked section (they only create that writer's own key directories). *)
From Coq Require Import List Bool NArith Arith Lia.
From PV Require Import C16.Model.
Import ListNotations.
Local Open Scope nat_scope.

Inductive pc := P0 | P1 | P2 | P3 | P4 | P5 | PDone | PFail (e : err).

Definition mk_step (p : path) (f : fs) (ok retry : pc) : pc :=
  if exists_ f p then (if is_dir f p then ok else PFail EFileExists)
  else if parent_ok f p then ok else retry.

(* the locked section of ctx.model_database.store_model_entry(m) *)
Definition critical (m : mdl) : M unit :=
  emit (OpenL db_lock) ;; touch_excl (pending (m_key m)) ;; a <- store_model_entry m ;; remove_file (pending (m_key m)) ;; ret a.

(* one step of a writer in state f: the operations it performs and its next program point *)
Definition tstep (m : mdl) (p : pc) (f : fs) : list op * pc :=
  let K := m_key m in
  match p with
  | P0 => ([Mkdir (meta_dir K)], mk_step (meta_dir K) f P3 P1)          (* Path.mkdir(parents=True, exist_ok=True) *)
  | P1 => ([Mkdir (key_dir K)], mk_step (key_dir K) f P2 (PFail EFileNotFound))
  | P2 => ([Mkdir (meta_dir K)], mk_step (meta_dir K) f P3 (PFail EFileNotFound))
  | P3 => ([Utime db_lock], if exists_ f db_lock then P5 else P4)       (* Path.touch() *)
  | P4 => ([OpenC db_lock], if parent_ok f db_lock then P5 else PFail EFileNotFound)
  | P5 => let '(ops, r) := critical m f in (ops, match r with inr _ => PDone | inl e => PFail e end)
  | PDone | PFail _ => ([], p)
  end.

Definition running (p : pc) : bool := match p with PDone | PFail _ => false | _ => true end.

Record cstate := mkC { c_p1 : pc; c_p2 : pc; c_fs : fs }.

(* true: writer 1 moves (if it still runs, else writer 2), false: writer 2 *)
Definition cstep (m1 m2 : mdl) (b : bool) (s : cstate) : cstate :=
  let first := if b then running (c_p1 s) || negb (running (c_p2 s)) else negb (running (c_p2 s)) && running (c_p1 s) in
  if first then let '(ops, p) := tstep m1 (c_p1 s) (c_fs s) in mkC p (c_p2 s) (run_ops ops (c_fs s))
  else let '(ops, p) := tstep m2 (c_p2 s) (c_fs s) in mkC (c_p1 s) p (run_ops ops (c_fs s)).

Definition crun (m1 m2 : mdl) (sched : list bool) (f : fs) : cstate :=
  fold_left (fun s b => cstep m1 m2 b s) sched (mkC P0 P0 f).

(* a writer alone *)
Fixpoint trun (m : mdl) (fuel : nat) (p : pc) (f : fs) : pc * fs :=
  match fuel with
  | 0 => (p, f)
  | S n => if running p then let '(ops, p') := tstep m p f in trun m n p' (run_ops ops f) else (p, f)
  end.

(* equality of file systems as finite maps *)
Definition node_eqb (a b : option node) : bool :=
  match a, b with
  | None, None | Some Dir, Some Dir => true
  | Some (File x), Some (File y) | Some (Torn x), Some (Torn y) => list_eqb N.eqb x y
  | Some (Link x), Some (Link y) => path_eqb x y
  | _, _ => false
  end.
Definition fs_eqb (f g : fs) : bool :=
  forallb (fun e => node_eqb (lookup f (fst e)) (lookup g (fst e))) (f ++ g).

Definition done (p : pc) : bool := match p with PDone => true | _ => false end.

(* the outcome of a schedule is one of the two serial orders, and both writers succeed *)
Definition serial_ok (m1 m2 : mdl) (f : fs) (sched : list bool) : bool :=
  let s := crun m1 m2 sched f in
  let f12 := run [WDbStore m1; WDbStore m2] f in
  let f21 := run [WDbStore m2; WDbStore m1] f in
  done (c_p1 s) && done (c_p2 s) && (fs_eqb (c_fs s) f12 || fs_eqb (c_fs s) f21).

Fixpoint all_scheds (n : nat) : list (list bool) :=
  match n with
  | 0 => [[]]
  | S k => flat_map (fun l => [true :: l; false :: l]) (all_scheds k)
  end.

Lemma all_scheds_complete n : forall l, length l = n -> In l (all_scheds n).
Proof.
  induction n as [|n IH]; intros l H.
  - destruct l; [left; reflexivity | discriminate].
  - destruct l as [|b l]; [discriminate|]. cbn [all_scheds]. apply in_flat_map. exists l. split; [apply IH; cbn in H; lia|].
    destruct b; [left | right; left]; reflexivity.
Qed.

(* ---- the context directory is created outside every lock ----------------------------------- *)
(* LocalDirectoryContext._init_path: `if not self.path.is_dir(): self.path.mkdir(parents=True)` — the check
   (a stat, no audit event) and the mkdir are two steps *)
Inductive ipc := I0 | I1 | IDone | IFail (e : err).
Definition istep (p : ipc) (f : fs) : list op * ipc :=
  match p with
  | I0 => ([], if is_dir f [] then IDone else I1)
  | I1 => ([Mkdir []], if exists_ f [] then IFail EFileExists else IDone)
  | _ => ([], p)
  end.
Definition irun (sched : list bool) (f : fs) : ipc * ipc * fs :=
  fold_left (fun s (b : bool) =>
               let '(p1, p2, g) := s in
               if b then let '(ops, p) := istep p1 g in (p, p2, run_ops ops g)
               else let '(ops, p) := istep p2 g in (p1, p, run_ops ops g)) sched (I0, I0, f).

(* ---- instances for the bounded theorem ------------------------------------------------------- *)
Definition cP := mkMdl 1 1 1 [112]%N [80]%N None.          (* key 1, dataset 1 *)
Definition cI := mkMdl 2 1 1 [105]%N [73]%N None.          (* key 2, the SAME dataset *)
Definition cD := mkMdl 3 2 1 [100]%N [68]%N (Some 1%N).    (* key 3, another dataset, with results *)
Definition f_init : fs := run [WInit] [].
Definition f_one : fs := run [WInit; WStore cP] [].

Lemma serial_all_schedules :
  forallb (serial_ok cP cI f_init) (all_scheds 12) = true
  /\ forallb (serial_ok cP cD f_init) (all_scheds 12) = true
  /\ forallb (serial_ok cI cD f_one) (all_scheds 12) = true.
Proof. split; [|split]; vm_compute; reflexivity. Qed.
