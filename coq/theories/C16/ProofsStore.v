(* PV.C16.ProofsStore — the dataset store (.datasets): consistency is preserved by complete workloads,
   stores succeed from consistent states (also after crashes that leave the index consistent), and every
   model file links to a complete csv holding its dataset at every crash point. *)
From Coq Require Import List Bool NArith Arith Lia.
From PV Require Import C16.Model C16.Proofs.
Import ListNotations.
Local Open Scope nat_scope.

(* ========================================================================================= *)
(* 1. directory listings in terms of lookups                                                  *)
Lemma comp_eqb_refl c : comp_eqb c c = true.
Proof. apply comp_eqb_eq. reflexivity. Qed.

Lemma strip_prefix_app d r : strip_prefix d (d ++ r) = Some r.
Proof. induction d as [|x d IH]; cbn; [reflexivity|]. rewrite comp_eqb_refl. exact IH. Qed.

Lemma strip_prefix_some d : forall p r, strip_prefix d p = Some r -> p = d ++ r.
Proof.
  induction d as [|x d IH]; intros p r H; cbn in *; [congruence|].
  destruct p as [|y p]; [discriminate|]. destruct (comp_eqb x y) eqn:E; [|discriminate].
  apply comp_eqb_eq in E. subst y. f_equal. apply IH. exact H.
Qed.

Lemma exists_in f p : exists_ f p = true <-> exists n, In (p, n) f.
Proof.
  unfold exists_. induction f as [|[q m] tl IH]; cbn.
  - split; [discriminate | intros [n []]].
  - destruct (path_eqb p q) eqn:E.
    + apply path_eqb_eq in E. subst q. split; [intros _; exists m; left; reflexivity | reflexivity].
    + rewrite IH. split; intros [n H]; exists n; [right; exact H|].
      destruct H as [H|H]; [|exact H]. injection H as -> ->. rewrite path_eqb_refl in E. discriminate.
Qed.

Lemma in_children f d c : In c (children f d) <-> exists_ f (d ++ [c]) = true.
Proof.
  unfold children. rewrite in_flat_map, exists_in. split.
  - intros [[q n] [Hin Hc]]. cbn in Hc. destruct (strip_prefix d q) as [[|c' [|? ?]]|] eqn:E; try destruct Hc.
    + subst c'. apply strip_prefix_some in E. subst q. exists n. exact Hin.
    + destruct H.
  - intros [n Hin]. exists (d ++ [c], n). split; [exact Hin|]. cbn. rewrite strip_prefix_app. left. reflexivity.
Qed.

(* ========================================================================================= *)
(* 2. kinds of paths and the shape of a well-formed tree                                      *)
Definition dir_path (p : path) : bool :=
  match p with
  | [] | [CDb] | [CSub] | [CModels] | [CDb; CKey _] | [CDb; CKey _; CPharmpy]
  | [CDb; CDatasets] | [CDb; CDatasets; CHash] | [CDb; CDatasets; CHash; CDh _]
  | [CSub; CName _] | [CSub; CName _; CSub] | [CSub; CName _; CModels] => true      (* a subcontext *)
  | _ => false
  end.
Definition link_path (p : path) : bool :=
  match p with [CModels; CName _] | [CSub; CName _; CModels; CName _] => true | _ => false end.

Lemma link_path_not_dir p : link_path p = true -> dir_path p = false.
Proof.
  intros H. destruct p as [|c1 p]; cbn in H; try discriminate. destruct c1; cbn in H; try discriminate.
  - destruct p as [|c2 p]; cbn in H; try discriminate. destruct c2; cbn in H; try discriminate.
    destruct p; cbn in H; [reflexivity | discriminate].
  - destruct p as [|c2 p]; cbn in H; try discriminate. destruct c2; cbn in H; try discriminate.
    destruct p as [|c3 p]; cbn in H; try discriminate. destruct c3; cbn in H; try discriminate.
    destruct p as [|c4 p]; cbn in H; try discriminate. destruct c4; cbn in H; try discriminate.
    destruct p; cbn in H; [reflexivity | discriminate].
Qed.
Definition file_path (p : path) : bool := negb (dir_path p) && negb (link_path p).

Definition kindb (p : path) (n : node) : bool :=
  match n with
  | Dir => dir_path p
  | Link _ => link_path p
  | File _ | Torn _ => file_path p
  end.

(* every node has the kind its name says, its parent is a directory, links point to directories *)
Definition shape (f : fs) : Prop :=
  forall p n, lookup f p = Some n ->
    kindb p n = true /\ parent_ok f p = true /\ (forall t, n = Link t -> is_dir f t = true).

Definition shapeb (f : fs) : bool :=
  forallb (fun e => kindb (fst e) (snd e) && parent_ok f (fst e)
                    && match snd e with Link t => is_dir f t | _ => true end) f.

Lemma lookup_in f p n : lookup f p = Some n -> In (p, n) f.
Proof.
  induction f as [|[q m] tl IH]; cbn; [discriminate|].
  destruct (path_eqb p q) eqn:E; [|intros H; right; apply IH; exact H].
  apply path_eqb_eq in E. subst q. intros [= ->]. left. reflexivity.
Qed.

Lemma shapeb_shape f : shapeb f = true -> shape f.
Proof.
  intros H p n Hl. unfold shapeb in H. rewrite forallb_forall in H.
  specialize (H (p, n) (lookup_in _ _ _ Hl)). cbn in H.
  apply andb_true_iff in H. destruct H as [H H3]. apply andb_true_iff in H. destruct H as [H1 H2].
  repeat split; try assumption. intros t ->. exact H3.
Qed.

(* what an operation of the programs may do, by the name of its target *)
Definition kind_okb (o : op) : bool :=
  match o with
  | Mkdir p => dir_path p
  | OpenC p | OpenX p | OpenW p _ | OpenA p _ => file_path p
  | Remove p => negb (dir_path p)
  | Symlink t p => link_path p
  | Rename s0 d => file_path s0 && file_path d
  | Utime _ | OpenL _ | OpenR _ | Listdir _ => true
  end.
Definition kind_ok (f : fs) (o : op) : Prop :=
  kind_okb o = true /\ forall t p, o = Symlink t p -> is_dir f t = true.

Lemma is_dir_lookup f p : is_dir f p = true <-> lookup f p = Some Dir.
Proof. unfold is_dir. destruct (lookup f p) as [[| | |]|]; split; congruence. Qed.

Lemma parent_ok_frame f g p :
  (p <> [] -> lookup g (removelast p) = lookup f (removelast p)) -> parent_ok g p = parent_ok f p.
Proof.
  destruct p as [|c p]; [reflexivity|]. intros H. unfold parent_ok, is_dir. rewrite H by discriminate. reflexivity.
Qed.

(* replacing / adding a non-directory (or adding a directory) at p, where p is not an existing directory *)
Lemma shape_set f p n :
  shape f -> kindb p n = true -> parent_ok f p = true -> is_dir f p = false ->
  (forall t, n = Link t -> is_dir f t = true) ->
  shape (set f p n).
Proof.
  intros HS Hk Hp Hnd Hl q m Hq.
  assert (Hdir : forall r, is_dir f r = true -> is_dir (set f p n) r = true).
  { intros r Hr. destruct (path_eq_dec p r) as [-> | Hne]; [congruence|].
    unfold is_dir. rewrite lookup_set_other by exact Hne. exact Hr. }
  assert (Hpar : forall r, parent_ok f r = true -> parent_ok (set f p n) r = true).
  { intros [|c r] Hr; [reflexivity|]. apply Hdir. exact Hr. }
  destruct (path_eq_dec p q) as [<- | Hne].
  - rewrite lookup_set_same in Hq. injection Hq as <-. repeat split; [exact Hk | apply Hpar; exact Hp|].
    intros t E. apply Hdir. apply Hl. exact E.
  - rewrite lookup_set_other in Hq by exact Hne. destruct (HS q m Hq) as [H1 [H2 H3]].
    repeat split; [exact H1 | apply Hpar; exact H2|]. intros t E. apply Hdir. apply H3. exact E.
Qed.

Lemma shape_remove f p :
  shape f -> is_dir f p = false -> shape (remove f p).
Proof.
  intros HS Hnd q m Hq.
  assert (Hdir : forall r, is_dir f r = true -> is_dir (remove f p) r = true).
  { intros r Hr. destruct (path_eq_dec p r) as [-> | Hne]; [congruence|].
    unfold is_dir. rewrite lookup_remove_other by exact Hne. exact Hr. }
  destruct (path_eq_dec p q) as [<- | Hne]; [rewrite lookup_remove_same in Hq; discriminate|].
  rewrite lookup_remove_other in Hq by exact Hne. destruct (HS q m Hq) as [H1 [H2 H3]].
  repeat split; [exact H1 | | intros t E; apply Hdir, H3, E].
  destruct q as [|c q]; [reflexivity|]. apply Hdir. exact H2.
Qed.

Lemma not_dir_of_absent f p : exists_ f p = false -> is_dir f p = false.
Proof. unfold exists_, is_dir. destruct (lookup f p); [discriminate | reflexivity]. Qed.
Lemma not_dir_of_can_write f p : can_write f p = true -> is_dir f p = false /\ parent_ok f p = true.
Proof. unfold can_write, is_dir. destruct (lookup f p) as [[| | |]|]; try discriminate; auto. Qed.

Lemma step_shape f o : shape f -> kind_ok f o -> shape (apply_op o f).
Proof.
  intros HS [Hk Hsym]. destruct o; cbn [apply_op kind_okb] in *; try exact HS.
  - destruct (parent_ok f p && negb (exists_ f p)) eqn:E; [|exact HS].
    apply andb_true_iff in E. destruct E as [E1 E2]. apply negb_true_iff in E2.
    apply shape_set; auto using not_dir_of_absent. discriminate.
  - destruct (parent_ok f p && negb (exists_ f p)) eqn:E; [|exact HS].
    apply andb_true_iff in E. destruct E as [E1 E2]. apply negb_true_iff in E2.
    apply shape_set; auto using not_dir_of_absent. discriminate.
  - destruct (parent_ok f p && negb (exists_ f p)) eqn:E; [|exact HS].
    apply andb_true_iff in E. destruct E as [E1 E2]. apply negb_true_iff in E2.
    apply shape_set; auto using not_dir_of_absent. discriminate.
  - destruct (can_write f p) eqn:E; [|exact HS]. destruct (not_dir_of_can_write _ _ E).
    apply shape_set; auto. discriminate.
  - destruct (can_write f p) eqn:E; [|exact HS]. destruct (not_dir_of_can_write _ _ E).
    destruct (lookup f p) as [[| | |]|]; apply shape_set; auto; discriminate.
  - destruct (lookup f p) as [[| | |]|] eqn:E; try exact HS; apply shape_remove; auto;
      unfold is_dir; rewrite E; reflexivity.
  - destruct (parent_ok f p && negb (exists_ f p)) eqn:E; [|exact HS].
    apply andb_true_iff in E. destruct E as [E1 E2]. apply negb_true_iff in E2.
    apply shape_set; auto using not_dir_of_absent. intros t0 [= <-]. eapply Hsym. reflexivity.
  - (* rename of a file onto a file name *)
    apply andb_true_iff in Hk. destruct Hk as [Hk1 Hk2].
    assert (Hmv : forall nd, lookup f s = Some nd -> kindb d nd = true -> (forall t, nd = Link t -> False) ->
                             is_dir f s = false -> can_write f d = true -> shape (set (remove f s) d nd)).
    { intros nd Hl Hkd Hnl Hnd Hcw. destruct (not_dir_of_can_write _ _ Hcw) as [Hdd Hpd].
      assert (HS' : shape (remove f s)) by (apply shape_remove; assumption).
      assert (Hmono : forall r, is_dir f r = true -> is_dir (remove f s) r = true).
      { intros r Hr. destruct (path_eq_dec s r) as [-> | Hne]; [congruence|]. unfold is_dir. rewrite lookup_remove_other by exact Hne. exact Hr. }
      apply shape_set; [exact HS' | exact Hkd | | | intros t E; destruct (Hnl t E)].
      - destruct d as [|c0 d0]; [reflexivity|]. apply Hmono. exact Hpd.
      - unfold is_dir in *. destruct (path_eq_dec s d) as [-> | Hne]; [rewrite lookup_remove_same; reflexivity|].
        rewrite lookup_remove_other by exact Hne. exact Hdd. }
    destruct (lookup f s) as [[|c|c|]|] eqn:El; try exact HS; (destruct (can_write f d) eqn:Ecw; [|exact HS]);
      (apply Hmv; [reflexivity | exact Hk2 | intros t E; discriminate E | unfold is_dir; rewrite El; reflexivity | reflexivity]).
Qed.

Lemma tear_shape f o j : shape f -> kind_ok f o -> shape (tear_op o j f).
Proof.
  intros HS [Hk Hsym]. destruct o; cbn [tear_op kind_okb] in *; try exact HS.
  - destruct (can_write f p) eqn:E; [|exact HS]. destruct (not_dir_of_can_write _ _ E).
    apply shape_set; auto. discriminate.
  - destruct (can_write f p) eqn:E; [|exact HS]. destruct (not_dir_of_can_write _ _ E).
    destruct (lookup f p) as [[| | |]|]; apply shape_set; auto; discriminate.
Qed.

Lemma shape_empty : shape [].
Proof. intros p n H. discriminate. Qed.

(* ========================================================================================= *)
(* 3. the invariants                                                                          *)
(* every model file that links to dataN.csv finds there the complete csv of ITS dataset *)
Definition link_inv (f : fs) : Prop :=
  forall K K' h n, lookup f (model_file K) = Some (File [T_MODEL; K'; h; n]) -> n <> 0%N ->
    lookup f (csv n) = Some (File [T_CSV; h]).

(* J holds in every intermediate and torn state *)
(* the dataset index is consistent: an index entry .hash/<h>/dataN.csv is the only entry of its directory,
   and dataN.csv / dataN.datainfo are complete and hold that dataset.  Since the entry is created last
   (commit b547698) this holds in EVERY intermediate and torn state. *)
Definition ds_inv (f : fs) : Prop :=
  forall h c, exists_ f (hdir h ++ [c]) = true ->
    exists n di, c = CCsv n /\ n <> 0%N
      /\ (forall c', exists_ f (hdir h ++ [c']) = true -> c' = c)
      /\ lookup f (csv n) = Some (File [T_CSV; h])
      /\ lookup f (dinfo n) = Some (File [T_DI; di; n]).

Definition J (f : fs) : Prop := shape f /\ link_inv f /\ ds_inv f.

Definition ready (f : fs) : Prop := is_dir f [CDb] = true.

Definition in_ds (p : path) : bool := match p with CDb :: CDatasets :: _ => true | _ => false end.
Definition is_model_file (p : path) : bool := match p with [CDb; CKey _; CModelFile] => true | _ => false end.
Definition is_csv (p : path) : bool := match p with [CDb; CDatasets; CCsv _] => true | _ => false end.

Lemma ds_inv_frame f g :
  (forall p, in_ds p = true -> dir_path p = false -> lookup g p = lookup f p) -> ds_inv f -> ds_inv g.
Proof.
  intros H HD h c Hc. unfold exists_ in Hc. rewrite H in Hc by reflexivity.
  destruct (HD h c Hc) as [n [di [E [H1 [H2 [H3 H4]]]]]]. exists n, di. repeat split; auto.
  - intros c' Hc'. apply H2. unfold exists_ in *. rewrite H in Hc' by reflexivity. exact Hc'.
  - rewrite H by reflexivity. exact H3.
  - rewrite H by reflexivity. exact H4.
Qed.

Lemma link_inv_frame f g :
  (forall p, is_model_file p = true -> lookup g p = lookup f p) ->
  (forall p, is_csv p = true -> lookup g p = lookup f p) -> link_inv f -> link_inv g.
Proof.
  intros H1 H2 HL K K' h n Hm Hn. rewrite H1 in Hm by reflexivity. rewrite H2 by reflexivity. eapply HL; eassumption.
Qed.

(* directories are never removed or overwritten *)
Lemma is_dir_mono o f q : is_dir f q = true -> is_dir (apply_op o f) q = true.
Proof.
  intros H. apply is_dir_lookup in H.
  assert (Hr : forall s0 d, o = Rename s0 d -> is_dir (apply_op o f) q = true).
  { intros s0 d ->. cbn [apply_op]. apply is_dir_lookup.
    destruct (lookup f s0) as [[|c|c|]|] eqn:Es; try exact H; (destruct (can_write f d) eqn:Ecw; [|exact H]);
      (assert (d <> q) by (intros ->; unfold can_write in Ecw; rewrite H in Ecw; discriminate));
      (assert (s0 <> q) by (intros ->; congruence));
      rewrite lookup_set_other, lookup_remove_other by assumption; exact H. }
  destruct (wsource o) as [s0|] eqn:Eso; [destruct o; try discriminate; eapply Hr; reflexivity|].
  destruct (wtarget o) as [p|] eqn:Ht.
  2:{ apply is_dir_lookup. rewrite apply_op_frame by congruence. exact H. }
  destruct (path_eq_dec p q) as [-> | Hne].
  2:{ apply is_dir_lookup. rewrite apply_op_frame by congruence. exact H. }
  destruct o; cbn [wtarget] in Ht; try discriminate; try (cbn in Eso; discriminate Eso); injection Ht as ->; cbn [apply_op];
    unfold exists_, can_write; rewrite ?H; cbn; rewrite ?andb_false_r; apply is_dir_lookup; exact H.
Qed.
Lemma is_dir_mono_ops ops : forall f q, is_dir f q = true -> is_dir (run_ops ops f) q = true.
Proof. induction ops as [|o ops IH]; intros f q H; [exact H|]. rewrite run_ops_cons. apply IH, is_dir_mono, H. Qed.

(* paths an operation may change without disturbing J: not a model file, not a csv, and inside .datasets
   only directories *)
Definition quiet_path (p : option path) : bool :=
  match p with
  | Some q => negb (is_model_file q) && negb (is_csv q) && (negb (in_ds q) || dir_path q)
  | None => true
  end.
Definition jquiet (o : op) : bool := kind_okb o && nosym o && quiet_path (wtarget o) && quiet_path (wsource o).
(* operations that in addition stay out of .datasets *)
Definition out_ds (p : option path) : bool := match p with Some q => negb (in_ds q) | None => true end.
Definition dsquiet (o : op) : bool := jquiet o && out_ds (wtarget o) && out_ds (wsource o).

Lemma jquiet_kind f o : jquiet o = true -> kind_ok f o.
Proof.
  unfold jquiet. intros H. repeat (apply andb_true_iff in H; destruct H as [H ?]).
  split; [exact H|]. intros t p ->. discriminate.
Qed.

Definition protected (q : path) : Prop :=
  is_model_file q = true \/ is_csv q = true \/ (in_ds q = true /\ dir_path q = false).

Lemma quiet_path_frame p q : quiet_path p = true -> protected q -> p <> Some q.
Proof.
  intros H Hq ->. cbn in H. apply andb_true_iff in H. destruct H as [H H3]. apply andb_true_iff in H.
  destruct H as [H1 H2]. apply negb_true_iff in H1. apply negb_true_iff in H2.
  destruct Hq as [Hq | [Hq | [Hq1 Hq2]]]; try congruence. rewrite Hq1, Hq2 in H3. discriminate.
Qed.

Lemma jquiet_frame o q : jquiet o = true -> protected q -> wtarget o <> Some q /\ wsource o <> Some q.
Proof.
  unfold jquiet. intros H Hq. apply andb_true_iff in H. destruct H as [H H2]. apply andb_true_iff in H.
  destruct H as [_ H1]. split; eapply quiet_path_frame; eassumption.
Qed.

Lemma jquiet_step f o : jquiet o = true -> J f -> (forall j, J (tear_op o j f)) /\ J (apply_op o f).
Proof.
  intros Hq [HS [HL HD]].
  assert (Hfa : forall q, protected q -> lookup (apply_op o f) q = lookup f q).
  { intros q Hp. destruct (jquiet_frame o q Hq Hp). apply apply_op_frame; assumption. }
  assert (Hft : forall j q, protected q -> lookup (tear_op o j f) q = lookup f q).
  { intros j q Hp. destruct (jquiet_frame o q Hq Hp). apply tear_op_frame; assumption. }
  split; [intros j|]; (split; [|split]).
  - apply tear_shape; [exact HS | apply jquiet_kind; exact Hq].
  - eapply link_inv_frame; [| |exact HL]; intros p Hp; apply Hft; unfold protected; auto.
  - eapply ds_inv_frame; [|exact HD]. intros p H1 H2. apply Hft. unfold protected. auto.
  - apply step_shape; [exact HS | apply jquiet_kind; exact Hq].
  - eapply link_inv_frame; [| |exact HL]; intros p Hp; apply Hfa; unfold protected; auto.
  - eapply ds_inv_frame; [|exact HD]. intros p H1 H2. apply Hfa. unfold protected. auto.
Qed.

Fixpoint jsteps (ops : list op) (f : fs) : Prop :=
  match ops with
  | [] => True
  | o :: tl => (forall j, J (tear_op o j f)) /\ J (apply_op o f) /\ jsteps tl (apply_op o f)
  end.

Lemma jsteps_app a : forall b f, jsteps (a ++ b) f <-> jsteps a f /\ jsteps b (run_ops a f).
Proof.
  induction a as [|o a IH]; intros b f; cbn [app jsteps]; [cbn; tauto|]. rewrite IH, run_ops_cons. tauto.
Qed.
Lemma jsteps_final ops : forall f, J f -> jsteps ops f -> J (run_ops ops f).
Proof. induction ops as [|o ops IH]; intros f HJ H; [exact HJ|]. cbn in H. rewrite run_ops_cons. apply IH; tauto. Qed.
Lemma jsteps_quiet ops : forall f, forallb jquiet ops = true -> J f -> jsteps ops f.
Proof.
  induction ops as [|o ops IH]; intros f H HJ; [exact I|]. cbn in H. apply andb_true_iff in H. destruct H as [Ho H].
  destruct (jquiet_step f o Ho HJ) as [H1 H2]. cbn [jsteps]. split; [exact H1 | split; [exact H2 | apply IH; assumption]].
Qed.
Lemma jsteps_crash ops : forall f k torn, J f -> jsteps ops f -> J (crash f ops k torn).
Proof.
  induction ops as [|o ops IH]; intros f k torn HJ H.
  - unfold crash. destruct k; cbn; destruct torn; exact HJ.
  - cbn in H. destruct H as [H1 [H2 H3]]. destruct k as [|k].
    + unfold crash. cbn [firstn run_ops fold_left nth_error]. destruct torn; [apply H1 | exact HJ].
    + change (J (crash (apply_op o f) ops k torn)). apply IH; assumption.
Qed.

(* dsquiet operations keep everything under .datasets and all model files *)
Lemma dsquiet_ops_frame ops : forall f p,
  forallb dsquiet ops = true -> (in_ds p = true \/ is_model_file p = true) -> lookup (run_ops ops f) p = lookup f p.
Proof.
  induction ops as [|o ops IH]; intros f p H Hp; [reflexivity|]. cbn in H. apply andb_true_iff in H.
  destruct H as [Ho H]. rewrite run_ops_cons, IH by assumption.
  unfold dsquiet in Ho. apply andb_true_iff in Ho. destruct Ho as [Ho Hd2]. apply andb_true_iff in Ho. destruct Ho as [Hj Hd1].
  apply apply_op_frame; intros E; [rewrite E in Hd1 | rewrite E in Hd2]; cbn in *.
  - apply negb_true_iff in Hd1. destruct Hp as [Hp|Hp]; [congruence|].
    destruct (jquiet_frame o p Hj (or_introl Hp)) as [X _]. exact (X E).
  - apply negb_true_iff in Hd2. destruct Hp as [Hp|Hp]; [congruence|].
    destruct (jquiet_frame o p Hj (or_introl Hp)) as [_ X]. exact (X E).
Qed.

(* ========================================================================================= *)
(* 4. specifications: J in every intermediate state, postcondition on success, E on failure    *)
Definition spec {A} (P : fs -> Prop) (m : M A) (Q : A -> fs -> Prop) (E : fs -> Prop) : Prop :=
  forall f, J f -> P f ->
    jsteps (fst (m f)) f
    /\ match snd (m f) with
       | inr a => Q a (run_ops (fst (m f)) f)
       | inl _ => E (run_ops (fst (m f)) f)
       end.

Lemma spec_conseq {A} (P P' : fs -> Prop) (m : M A) (Q Q' : A -> fs -> Prop) (E E' : fs -> Prop) :
  (forall f, P' f -> P f) -> (forall a f, Q a f -> Q' a f) -> (forall f, E f -> E' f) ->
  spec P m Q E -> spec P' m Q' E'.
Proof.
  intros H1 H2 H3 H f HJ HP. destruct (H f HJ (H1 f HP)) as [Hs Hr]. split; [exact Hs|].
  destruct (snd (m f)); [apply H3 | apply H2]; exact Hr.
Qed.

Lemma spec_ret {A} (P : fs -> Prop) (a : A) (Q : A -> fs -> Prop) E : (forall f, P f -> Q a f) -> spec P (ret a) Q E.
Proof. intros H f HJ HP. cbn. split; [exact I | apply H; exact HP]. Qed.
Lemma spec_fail {A} (P : fs -> Prop) e (Q : A -> fs -> Prop) (E : fs -> Prop) : (forall f, P f -> E f) -> spec P (fail e) Q E.
Proof. intros H f HJ HP. cbn. split; [exact I | apply H; exact HP]. Qed.

Lemma spec_bind {A B} (P : fs -> Prop) (m : M A) (Q : A -> fs -> Prop) (k : A -> M B) (R : B -> fs -> Prop) E :
  spec P m Q E -> (forall a, spec (Q a) (k a) R E) -> spec P (bind m k) R E.
Proof.
  intros Hm Hk f HJ HP. unfold bind. destruct (Hm f HJ HP) as [Hs Hr].
  destruct (m f) as [ops r]. cbn [fst snd] in *. destruct r as [e|a]; cbn [fst snd]; [split; assumption|].
  destruct (Hk a (run_ops ops f) (jsteps_final _ _ HJ Hs) Hr) as [Hs2 Hr2].
  destruct (k a (run_ops ops f)) as [ops2 r2]. cbn [fst snd] in *. split.
  - apply jsteps_app. split; assumption.
  - rewrite run_ops_app. exact Hr2.
Qed.

Lemma spec_get {B} (P : fs -> Prop) (k : fs -> M B) (R : B -> fs -> Prop) E :
  (forall f0, P f0 -> spec (fun g => P g /\ g = f0) (k f0) R E) -> spec P (bind get k) R E.
Proof.
  intros H f HJ HP. unfold bind, get. cbn [fst snd]. specialize (H f HP f HJ (conj HP eq_refl)).
  change (run_ops [] f) with f. destruct (k f f) as [ops r]. cbn [fst snd app] in *. exact H.
Qed.

(* programs all of whose operations are dsquiet: J-steps for free; any postcondition that follows from the
   final state agreeing with the initial one on .datasets, model files, and keeping its directories *)
Lemma spec_of_dsquiet {A} (P : fs -> Prop) (m : M A) (Q : A -> fs -> Prop) (E : fs -> Prop) :
  all_prog dsquiet m ->
  (forall f, J f -> P f ->
     match snd (m f) with
     | inr a => Q a (run_ops (fst (m f)) f)
     | inl _ => E (run_ops (fst (m f)) f)
     end) ->
  spec P m Q E.
Proof.
  intros Hq H f HJ HP. split; [|apply H; assumption].
  apply jsteps_quiet; [|exact HJ]. specialize (Hq f). rewrite forallb_forall in *. intros o Ho.
  specialize (Hq o Ho). unfold dsquiet in Hq. apply andb_true_iff in Hq. destruct Hq as [Hq _].
  apply andb_true_iff in Hq. tauto.
Qed.

(* ========================================================================================= *)
(* 5. Path.mkdir(parents=True, exist_ok=True)                                                  *)
Definition is_prefix (q p : path) : Prop := exists r, p = q ++ r.

Lemma prefix_refl p : is_prefix p p.
Proof. exists []. rewrite app_nil_r. reflexivity. Qed.
Lemma prefix_nil p : is_prefix [] p.
Proof. exists p. reflexivity. Qed.

Lemma prefix_cases q p : is_prefix q p -> q = p \/ (p <> [] /\ is_prefix q (removelast p)).
Proof.
  intros [r ->]. destruct r as [|x r] using rev_ind; [left; rewrite app_nil_r; reflexivity|].
  right. split; [intros E; apply app_eq_nil in E; destruct E as [_ E]; apply app_eq_nil in E; destruct E; discriminate|].
  rewrite app_assoc, removelast_last. exists r. reflexivity.
Qed.

Lemma prefix_removelast q p : is_prefix q (removelast p) -> is_prefix q p.
Proof.
  destruct p as [|c p] using rev_ind; [exact (fun H => H)|]. rewrite removelast_last.
  intros [r ->]. exists (r ++ [c]). rewrite app_assoc. reflexivity.
Qed.

Lemma prefix_length q p : is_prefix q p -> length q <= length p.
Proof. intros [r ->]. rewrite app_length. lia. Qed.

Lemma length_removelast (p : path) : length (removelast p) = length p - 1.
Proof.
  destruct p as [|c p] using rev_ind; [reflexivity|]. rewrite removelast_last, app_length. cbn. lia.
Qed.

Lemma not_prefix_of_parent p : p <> [] -> ~ is_prefix p (removelast p).
Proof.
  intros Hne H. apply prefix_length in H. rewrite length_removelast in H. destruct p; [congruence | cbn in H; lia].
Qed.

Lemma mkdir1_eq p b f :
  mkdir1 p b f = ([Mkdir p],
                  if exists_ f p then (if b && is_dir f p then inr tt else inl EFileExists)
                  else if parent_ok f p then inr tt else inl EFileNotFound).
Proof.
  unfold mkdir1, bind, get, emit, ret, fail. cbn [fst snd app].
  destruct (exists_ f p); [destruct (b && is_dir f p); reflexivity | destruct (parent_ok f p); reflexivity].
Qed.

Lemma bind_get_eq {B} (k : fs -> M B) f : bind get k f = k f f.
Proof. unfold bind, get. change (run_ops [] f) with f. destruct (k f f) as [ops r]. reflexivity. Qed.
Lemma bind_emit_eq {B} o (k : unit -> M B) f :
  bind (emit o) k f = let '(ops2, r2) := k tt (apply_op o f) in (o :: ops2, r2).
Proof. unfold bind, emit. change (run_ops [o] f) with (apply_op o f). destruct (k tt (apply_op o f)). reflexivity. Qed.

Lemma mkdir_p_aux_eq fuel p f :
  mkdir_p_aux fuel p f =
  if exists_ f p then ([Mkdir p], if is_dir f p then inr tt else inl EFileExists)
  else if parent_ok f p then ([Mkdir p], inr tt)
  else match fuel with
       | 0 => ([Mkdir p], inl EFileNotFound)
       | S n =>
           let '(ops2, r2) := bind (mkdir_p_aux n (removelast p)) (fun _ => mkdir1 p true) (apply_op (Mkdir p) f) in
           (Mkdir p :: ops2, r2)
       end.
Proof.
  destruct fuel as [|n]; cbn [mkdir_p_aux]; rewrite bind_get_eq, bind_emit_eq.
  - destruct (exists_ f p); [destruct (is_dir f p); reflexivity|]. destruct (parent_ok f p); reflexivity.
  - destruct (exists_ f p); [destruct (is_dir f p); reflexivity|]. destruct (parent_ok f p); reflexivity.
Qed.

Lemma apply_mkdir_fresh f p :
  exists_ f p = false -> parent_ok f p = true -> apply_op (Mkdir p) f = set f p Dir.
Proof. intros H1 H2. cbn. rewrite H1, H2. reflexivity. Qed.
Lemma apply_mkdir_noop f p :
  exists_ f p = true \/ parent_ok f p = false -> apply_op (Mkdir p) f = f.
Proof. intros [H|H]; cbn; rewrite H; [rewrite andb_false_r|]; reflexivity. Qed.

(* on the way down there is nothing but directories, and what exists has an existing parent *)
Definition path_clear (f : fs) (p : path) : Prop :=
  (forall q, is_prefix q p -> lookup f q = None \/ lookup f q = Some Dir)
  /\ (forall q, is_prefix q p -> q <> [] -> exists_ f q = true -> is_dir f (removelast q) = true).

Lemma dirs_upward f p :
  path_clear f p -> is_dir f p = true -> forall q, is_prefix q p -> is_dir f q = true.
Proof.
  remember (length p) as n eqn:En. revert p En.
  induction n as [|n IH]; intros p En [H1 H2] Hd q Hq.
  - destruct p; [|discriminate]. destruct Hq as [r E]. symmetry in E. apply app_eq_nil in E. destruct E as [-> _]. exact Hd.
  - destruct (prefix_cases q p Hq) as [-> | [Hne Hq']]; [exact Hd|].
    assert (Hp : is_dir f (removelast p) = true).
    { apply H2; [apply prefix_refl | exact Hne|]. unfold exists_. apply is_dir_lookup in Hd. rewrite Hd. reflexivity. }
    apply (IH (removelast p)); [rewrite length_removelast; lia | | exact Hp | exact Hq'].
    split; intros q0 Hq0; [apply H1 | apply H2]; apply prefix_removelast; exact Hq0.
Qed.

Lemma mkdir_p_aux_spec fuel : forall p f,
  length p <= fuel -> path_clear f p ->
  snd (mkdir_p_aux fuel p f) = inr tt
  /\ (forall q, is_prefix q p -> is_dir (run_ops (fst (mkdir_p_aux fuel p f)) f) q = true)
  /\ (forall q, ~ is_prefix q p -> lookup (run_ops (fst (mkdir_p_aux fuel p f)) f) q = lookup f q)
  /\ Forall (fun o => exists q, o = Mkdir q /\ is_prefix q p) (fst (mkdir_p_aux fuel p f)).
Proof.
  assert (Hone : forall p, Forall (fun o => exists q, o = Mkdir q /\ is_prefix q p) [Mkdir p]).
  { intros p. repeat constructor. exists p. split; [reflexivity | apply prefix_refl]. }
  (* the two cases that need no recursion *)
  assert (Hexists : forall p f, path_clear f p -> exists_ f p = true ->
            is_dir f p = true /\ forall q, is_prefix q p -> is_dir (apply_op (Mkdir p) f) q = true).
  { intros p f Hc Ee. destruct (proj1 Hc p (prefix_refl _)) as [H|H]; [unfold exists_ in Ee; rewrite H in Ee; discriminate|].
    assert (Hd : is_dir f p = true) by (apply is_dir_lookup; exact H). split; [exact Hd|].
    rewrite apply_mkdir_noop by (left; exact Ee). intros q Hq. eapply dirs_upward; eassumption. }
  assert (Hfresh : forall p f, path_clear f p -> exists_ f p = false -> parent_ok f p = true ->
            forall q, is_prefix q p -> is_dir (set f p Dir) q = true).
  { intros p f Hc Ee Ep q Hq. destruct (prefix_cases q p Hq) as [-> | [Hne Hq']].
    - unfold is_dir. rewrite lookup_set_same. reflexivity.
    - assert (Hpd : is_dir f (removelast p) = true) by (destruct p; [congruence | exact Ep]).
      assert (Hqd : is_dir f q = true).
      { apply (dirs_upward f (removelast p)); [|exact Hpd | exact Hq'].
        split; intros q0 Hq0; [apply (proj1 Hc) | apply (proj2 Hc)]; apply prefix_removelast; exact Hq0. }
      unfold is_dir. rewrite lookup_set_other; [exact Hqd|]. intros <-. unfold exists_, is_dir in *.
      destruct (lookup f p); discriminate. }
  induction fuel as [|n IH]; intros p f Hlen Hc; rewrite mkdir_p_aux_eq.
  - destruct p; [|cbn in Hlen; lia]. destruct (exists_ f []) eqn:Ee.
    + destruct (Hexists _ _ Hc Ee) as [Hd Hall]. rewrite Hd. cbn [fst snd].
      change (run_ops [Mkdir []] f) with (apply_op (Mkdir []) f).
      refine (conj eq_refl (conj Hall (conj _ (Hone _)))).
      intros q Hq. rewrite apply_mkdir_noop by (left; exact Ee). reflexivity.
    + cbn [parent_ok fst snd]. change (run_ops [Mkdir []] f) with (apply_op (Mkdir []) f).
      rewrite apply_mkdir_fresh by (auto).
      refine (conj eq_refl (conj (Hfresh _ _ Hc Ee eq_refl) (conj _ (Hone _)))).
      intros q Hq. apply lookup_set_other. intros <-. apply Hq, prefix_refl.
  - destruct (exists_ f p) eqn:Ee.
    + destruct (Hexists _ _ Hc Ee) as [Hd Hall]. rewrite Hd. cbn [fst snd].
      change (run_ops [Mkdir p] f) with (apply_op (Mkdir p) f).
      refine (conj eq_refl (conj Hall (conj _ (Hone _)))).
      intros q Hq. rewrite apply_mkdir_noop by (left; exact Ee). reflexivity.
    + destruct (parent_ok f p) eqn:Ep.
      * cbn [fst snd]. change (run_ops [Mkdir p] f) with (apply_op (Mkdir p) f).
        rewrite apply_mkdir_fresh by auto.
        refine (conj eq_refl (conj (Hfresh _ _ Hc Ee Ep) (conj _ (Hone _)))).
        intros q Hq. apply lookup_set_other. intros <-. apply Hq, prefix_refl.
      * (* the parent is missing: make it, then try again *)
        assert (Hne : p <> []) by (intros ->; discriminate).
        rewrite (apply_mkdir_noop f p) by (right; exact Ep). unfold bind.
        assert (Hc' : path_clear f (removelast p)).
        { split; intros q0 Hq0; [apply (proj1 Hc) | apply (proj2 Hc)]; apply prefix_removelast; exact Hq0. }
        assert (Hl' : length (removelast p) <= n) by (rewrite length_removelast; lia).
        destruct (IH (removelast p) f Hl' Hc') as [Hr [Hd [Hfr Hops]]].
        destruct (mkdir_p_aux n (removelast p) f) as [ops r]. cbn [fst snd] in *. subst r.
        set (f2 := run_ops ops f) in *. rewrite mkdir1_eq. cbn [andb].
        assert (He2 : exists_ f2 p = false).
        { unfold exists_. rewrite Hfr by (apply not_prefix_of_parent; exact Hne). exact Ee. }
        assert (Hp2 : parent_ok f2 p = true).
        { destruct p; [congruence|]. apply Hd. apply prefix_refl. }
        rewrite He2, Hp2. cbn [fst snd].
        assert (Hrun : run_ops (Mkdir p :: ops ++ [Mkdir p]) f = set f2 p Dir).
        { rewrite run_ops_cons, (apply_mkdir_noop f p) by (right; exact Ep).
          rewrite run_ops_app. fold f2. change (run_ops [Mkdir p] f2) with (apply_op (Mkdir p) f2).
          apply apply_mkdir_fresh; assumption. }
        rewrite Hrun. refine (conj eq_refl (conj _ (conj _ _))).
        -- intros q Hq. destruct (prefix_cases q p Hq) as [-> | [_ Hq']].
           ++ unfold is_dir. rewrite lookup_set_same. reflexivity.
           ++ unfold is_dir. rewrite lookup_set_other; [apply Hd; exact Hq'|].
              intros <-. exact (not_prefix_of_parent p Hne Hq').
        -- intros q Hq. rewrite lookup_set_other by (intros <-; apply Hq, prefix_refl).
           apply Hfr. intros Hq'. apply Hq. apply prefix_removelast. exact Hq'.
        -- constructor; [exists p; split; [reflexivity | apply prefix_refl]|].
           apply Forall_app. split.
           ++ eapply Forall_impl; [|exact Hops]. intros o [q [-> Hq]]. exists q. split; [reflexivity | apply prefix_removelast; exact Hq].
           ++ apply Hone.
Qed.

(* ========================================================================================= *)
(* 6. successful runs from a given state                                                      *)
Definition runs {A} (m : M A) (f : fs) (a : A) (f' : fs) : Prop :=
  snd (m f) = inr a /\ f' = run_ops (fst (m f)) f /\ jsteps (fst (m f)) f.

Lemma runs_ret {A} (a : A) f : runs (ret a) f a f.
Proof. repeat split. Qed.

Lemma runs_bind {A B} (m : M A) (k : A -> M B) f a f1 b f2 :
  runs m f a f1 -> runs (k a) f1 b f2 -> runs (bind m k) f b f2.
Proof.
  intros [H1 [H2 H3]] [H4 [H5 H6]]. unfold runs, bind. destruct (m f) as [ops r]. cbn [fst snd] in *. subst r f1.
  destruct (k a (run_ops ops f)) as [ops2 r2]. cbn [fst snd] in *. subst r2 f2.
  split; [reflexivity|]. split; [symmetry; apply run_ops_app | apply jsteps_app; split; assumption].
Qed.

Lemma runs_get {B} (k : fs -> M B) f b f2 : runs (k f) f b f2 -> runs (bind get k) f b f2.
Proof. unfold runs. rewrite bind_get_eq. exact (fun H => H). Qed.

Lemma runs_J {A} (m : M A) f a f' : J f -> runs m f a f' -> J f'.
Proof. intros HJ [_ [-> H]]. apply jsteps_final; assumption. Qed.

(* a single operation *)
Lemma runs_single {A} (m : M A) o f a :
  m f = ([o], inr a) -> (forall j, J (tear_op o j f)) -> J (apply_op o f) -> runs m f a (apply_op o f).
Proof. intros E H1 H2. unfold runs. rewrite E. cbn. auto. Qed.

Lemma shape_dir_only f q : shape f -> dir_path q = true -> lookup f q = None \/ lookup f q = Some Dir.
Proof.
  intros HS Hd. destruct (lookup f q) as [n|] eqn:E; [|left; reflexivity]. right.
  destruct (HS q n E) as [Hk _]. destruct n as [|c|c|t]; [reflexivity| | |]; cbn in Hk.
  - unfold file_path in Hk. rewrite Hd in Hk. discriminate.
  - unfold file_path in Hk. rewrite Hd in Hk. discriminate.
  - rewrite (link_path_not_dir q Hk) in Hd. discriminate.
Qed.

Lemma shape_path_clear f p : shape f -> (forall q, is_prefix q p -> dir_path q = true) -> path_clear f p.
Proof.
  intros HS Hd. split.
  - intros q Hq. apply shape_dir_only; [exact HS | apply Hd; exact Hq].
  - intros q Hq Hne He. unfold exists_ in He. destruct (lookup f q) as [n|] eqn:E; [|discriminate].
    destruct (HS q n E) as [_ [Hp _]]. destruct q; [congruence | exact Hp].
Qed.

Lemma prefix_firstn q p : is_prefix q p -> q = firstn (length q) p.
Proof. intros [r ->]. rewrite firstn_app, Nat.sub_diag, firstn_all. cbn. rewrite app_nil_r. reflexivity. Qed.

Lemma prefixes_meta_dir K q : is_prefix q (meta_dir K) -> dir_path q = true.
Proof.
  intros H. pose proof (prefix_length _ _ H) as Hl. rewrite (prefix_firstn _ _ H). cbn in Hl.
  destruct (length q) as [|[|[|[|n]]]]; reflexivity.
Qed.
Lemma prefixes_hdir h q : is_prefix q (hdir h) -> dir_path q = true.
Proof.
  intros H. pose proof (prefix_length _ _ H) as Hl. rewrite (prefix_firstn _ _ H). cbn in Hl.
  destruct (length q) as [|[|[|[|[|n]]]]]; reflexivity.
Qed.

Lemma is_model_file_spec q : is_model_file q = true -> exists K, q = model_file K.
Proof.
  intros H. destruct q as [|c1 q]; cbn in H; try discriminate. destruct c1; cbn in H; try discriminate.
  destruct q as [|c2 q]; cbn in H; try discriminate. destruct c2; cbn in H; try discriminate.
  destruct q as [|c3 q]; cbn in H; try discriminate. destruct c3; cbn in H; try discriminate.
  destruct q; cbn in H; try discriminate. eexists. reflexivity.
Qed.
Lemma is_csv_spec q : is_csv q = true -> exists n, q = csv n.
Proof.
  intros H. destruct q as [|c1 q]; cbn in H; try discriminate. destruct c1; cbn in H; try discriminate.
  destruct q as [|c2 q]; cbn in H; try discriminate. destruct c2; cbn in H; try discriminate.
  destruct q as [|c3 q]; cbn in H; try discriminate. destruct c3; cbn in H; try discriminate.
  destruct q; cbn in H; try discriminate. eexists. reflexivity.
Qed.
Lemma jquiet_mkdir q : dir_path q = true -> jquiet (Mkdir q) = true.
Proof.
  intros Hd. unfold jquiet. cbn [kind_okb nosym wtarget wsource quiet_path]. rewrite Hd, orb_true_r.
  destruct (is_model_file q) eqn:E1; [destruct (is_model_file_spec q E1) as [K ->]; discriminate|].
  destruct (is_csv q) eqn:E2; [destruct (is_csv_spec q E2) as [n ->]; discriminate|]. reflexivity.
Qed.

(* mkdir -p of a path all of whose ancestors are directory names: succeeds, J all along *)
Lemma runs_mkdir_p f p :
  J f -> (forall q, is_prefix q p -> dir_path q = true) ->
  exists f', runs (mkdir_p p) f tt f'
             /\ (forall q, is_prefix q p -> is_dir f' q = true)
             /\ (forall q, ~ is_prefix q p -> lookup f' q = lookup f q).
Proof.
  intros HJ Hd. unfold mkdir_p.
  destruct (mkdir_p_aux_spec (length p) p f (le_n _) (shape_path_clear f p (proj1 HJ) Hd)) as [Hr [H1 [H2 Hops]]].
  eexists. split; [|split; [exact H1 | exact H2]]. repeat split; [exact Hr|].
  apply jsteps_quiet; [|exact HJ]. apply forallb_forall. intros o Ho. rewrite Forall_forall in Hops.
  destruct (Hops o Ho) as [q [-> Hq]]. apply jquiet_mkdir, Hd, Hq.
Qed.

Lemma touch_eq p f :
  touch p f = if exists_ f p then ([Utime p], inr tt)
              else ([Utime p; OpenC p], if parent_ok f p then inr tt else inl EFileNotFound).
Proof.
  unfold touch. rewrite bind_get_eq, bind_emit_eq. destruct (exists_ f p); [reflexivity|].
  rewrite bind_emit_eq. destruct (parent_ok f p); reflexivity.
Qed.

Lemma jquiet_runs_list {A} (m : M A) ops a f :
  J f -> m f = (ops, inr a) -> forallb jquiet ops = true -> runs m f a (run_ops ops f).
Proof. intros HJ E Hq. unfold runs. rewrite E. cbn [fst snd]. repeat split. apply jsteps_quiet; assumption. Qed.

(* touching a file name whose parent exists *)
Lemma runs_touch f p :
  J f -> file_path p = true -> is_model_file p = false -> is_csv p = false -> in_ds p = false -> parent_ok f p = true ->
  exists f', runs (touch p) f tt f' /\ exists_ f' p = true /\ (forall q, q <> p -> lookup f' q = lookup f q)
             /\ (exists_ f p = true -> f' = f).
Proof.
  intros HJ Hfp Hm Hc Hds Hp.
  assert (Hq1 : jquiet (Utime p) = true) by reflexivity.
  assert (Hq2 : jquiet (OpenC p) = true).
  { unfold jquiet. cbn [kind_okb nosym wtarget wsource quiet_path]. rewrite Hfp, Hm, Hc, Hds. reflexivity. }
  destruct (exists_ f p) eqn:Ee.
  - exists f. split; [|split; [exact Ee | split; [reflexivity | reflexivity]]].
    apply (jquiet_runs_list _ [Utime p]); [exact HJ | rewrite touch_eq, Ee; reflexivity | reflexivity].
  - exists (set f p (File [])). split; [|split; [|split]].
    + assert (E : run_ops [Utime p; OpenC p] f = set f p (File [])).
      { cbn. rewrite Hp, Ee. reflexivity. }
      rewrite <- E. apply jquiet_runs_list; [exact HJ | rewrite touch_eq, Ee, Hp; reflexivity | cbn; rewrite Hq2; reflexivity].
    + unfold exists_. rewrite lookup_set_same. reflexivity.
    + intros q Hq. apply lookup_set_other. congruence.
    + discriminate.
Qed.

Lemma lock_eq p f : lock p f = (let '(ops, r) := touch p f in
                                match r with inl e => (ops, inl e) | inr _ => (ops ++ [OpenL p], inr tt) end).
Proof. unfold lock, bind. destruct (touch p f) as [ops r]. destruct r; reflexivity. Qed.

Lemma runs_lock f p :
  J f -> file_path p = true -> is_model_file p = false -> is_csv p = false -> in_ds p = false -> parent_ok f p = true ->
  exists f', runs (lock p) f tt f' /\ (forall q, q <> p -> lookup f' q = lookup f q).
Proof.
  intros HJ Hfp Hm Hc Hds Hp. destruct (runs_touch f p HJ Hfp Hm Hc Hds Hp) as [f' [Hr [_ [Hfr _]]]].
  exists f'. split; [|exact Hfr]. unfold lock. eapply runs_bind; [exact Hr|].
  assert (HJ' : J f') by (eapply runs_J; eassumption).
  apply (runs_single _ (OpenL p)); [reflexivity | intros j; exact HJ' | exact HJ'].
Qed.

(* ========================================================================================= *)
(* 7. the phases of a store                                                                   *)
Lemma not_prefix_longer (q p : path) : length p < length q -> ~ is_prefix q p.
Proof. intros H Hp. apply prefix_length in Hp. lia. Qed.

Lemma runs_write_quiet f p c :
  J f -> jquiet (OpenW p c) = true -> can_write f p = true ->
  runs (write_file p c) f tt (set f p (File c)).
Proof.
  intros HJ Hq Hc. destruct (jquiet_step f _ Hq HJ) as [H1 H2].
  replace (set f p (File c)) with (apply_op (OpenW p c) f) by (cbn; rewrite Hc; reflexivity).
  apply runs_single; [rewrite write_file_eq, Hc; reflexivity | exact H1 | exact H2].
Qed.

(* phase A: directories of the key, the database lock, the PENDING marker; then the rest [k] *)
Lemma runs_begin_k {B} f K (k : M B) (Q : B -> fs -> Prop) :
  J f -> exists_ f (pending K) = false ->
  (forall f1, J f1 -> lookup f1 (pending K) = Some (File []) ->
              is_dir f1 (meta_dir K) = true -> is_dir f1 (key_dir K) = true -> is_dir f1 [CDb] = true ->
              (forall q, ~ is_prefix q (meta_dir K) -> q <> db_lock -> q <> pending K -> lookup f1 q = lookup f q) ->
              exists b f', runs k f1 b f' /\ Q b f') ->
  exists b f', runs (mkdir_p (meta_dir K) ;; lock db_lock ;; touch_excl (pending K) ;; k) f b f' /\ Q b f'.
Proof.
  intros HJ Hp Hk.
  destruct (runs_mkdir_p f (meta_dir K) HJ (prefixes_meta_dir K)) as [fa [Ra [Da Fa]]].
  assert (HJa : J fa) by (eapply runs_J; eassumption).
  assert (Hdb : is_dir fa [CDb] = true) by (apply Da; exists [CKey K; CPharmpy]; reflexivity).
  destruct (runs_lock fa db_lock HJa eq_refl eq_refl eq_refl eq_refl Hdb) as [fb [Rb Fb]].
  assert (HJb : J fb) by (eapply runs_J; eassumption).
  assert (Hmb : is_dir fb (meta_dir K) = true).
  { unfold is_dir. rewrite Fb by discriminate. apply Da, prefix_refl. }
  assert (Hpb : exists_ fb (pending K) = false).
  { unfold exists_. rewrite Fb by discriminate. rewrite Fa by (apply not_prefix_longer; cbn; lia). exact Hp. }
  assert (Hq : jquiet (OpenX (pending K)) = true) by reflexivity.
  destruct (jquiet_step fb _ Hq HJb) as [H1 H2].
  assert (Happ : apply_op (OpenX (pending K)) fb = set fb (pending K) (File [])).
  { cbn [apply_op]. rewrite Hpb. replace (parent_ok fb (pending K)) with (is_dir fb (meta_dir K)) by reflexivity.
    rewrite Hmb. reflexivity. }
  assert (Rc : runs (touch_excl (pending K)) fb tt (set fb (pending K) (File []))).
  { rewrite <- Happ. apply runs_single; [|exact H1 | exact H2]. rewrite touch_excl_eq, Hpb.
    replace (parent_ok fb (pending K)) with (is_dir fb (meta_dir K)) by reflexivity. rewrite Hmb. reflexivity. }
  destruct (Hk (set fb (pending K) (File []))) as [b [f' [Rk HQ]]].
  - exact (runs_J _ _ _ _ HJb Rc).
  - apply lookup_set_same.
  - unfold is_dir. rewrite lookup_set_other by discriminate. exact Hmb.
  - unfold is_dir. rewrite lookup_set_other, Fb by discriminate. apply Da. exists [CPharmpy]. reflexivity.
  - unfold is_dir. rewrite lookup_set_other, Fb by discriminate. exact Hdb.
  - intros q H1' H2' H3'. rewrite lookup_set_other by congruence. rewrite Fb by exact H2'. apply Fa. exact H1'.
  - exists b, f'. split; [|exact HQ].
    eapply runs_bind; [exact Ra|]. eapply runs_bind; [exact Rb|]. eapply runs_bind; [exact Rc | exact Rk].
Qed.

(* the highest dataset number is not taken *)
Lemma fold_max_ge l : forall acc n,
  (acc <= fold_left (fun a c => match c with CCsv k => N.max a k | _ => a end) l acc)%N
  /\ (In (CCsv n) l -> (n <= fold_left (fun a c => match c with CCsv k => N.max a k | _ => a end) l acc)%N).
Proof.
  induction l as [|c l IH]; intros acc n; cbn [fold_left]; [split; [lia | intros []]|].
  destruct (IH (match c with CCsv k => N.max acc k | _ => acc end) n) as [H1 H2]. split.
  - destruct c; try exact H1. lia.
  - intros [-> | Hin]; [lia | apply H2; exact Hin].
Qed.

Lemma csv_fresh f : lookup f (csv (highest f + 1)) = None.
Proof.
  destruct (lookup f (csv (highest f + 1))) eqn:E; [|reflexivity]. exfalso.
  assert (Hin : In (CCsv (highest f + 1)) (children f ds_dir)).
  { apply in_children. unfold exists_. change (ds_dir ++ [CCsv (highest f + 1)]) with (csv (highest f + 1)). rewrite E. reflexivity. }
  unfold highest in Hin at 1. apply (fold_max_ge _ 0%N) in Hin. fold (highest f) in Hin. lia.
Qed.

Lemma shape_file_only f q : shape f -> file_path q = true -> is_file f q = false -> lookup f q = None.
Proof.
  intros HS Hfp Hnf. destruct (lookup f q) as [n|] eqn:E; [|reflexivity]. destruct (HS q n E) as [Hk _].
  unfold is_file in Hnf. rewrite E in Hnf. unfold file_path in Hfp. apply andb_true_iff in Hfp. destruct Hfp as [H1 H2].
  apply negb_true_iff in H1. apply negb_true_iff in H2. destruct n; cbn in Hk; congruence.
Qed.

Lemma can_write_file f q : shape f -> file_path q = true -> parent_ok f q = true -> can_write f q = true.
Proof.
  intros HS Hfp Hp. unfold can_write. destruct (lookup f q) as [n|] eqn:E; [|exact Hp].
  destruct (HS q n E) as [Hk _]. unfold file_path in Hfp. apply andb_true_iff in Hfp. destruct Hfp as [H1 H2].
  apply negb_true_iff in H1. apply negb_true_iff in H2. destruct n; cbn in Hk; congruence.
Qed.

(* setting a path outside .datasets keeps the index invariant *)
Lemma ds_inv_set_outside f p n : in_ds p = false -> ds_inv f -> ds_inv (set f p n).
Proof.
  intros Hp. apply ds_inv_frame. intros q Hq _. apply lookup_set_other. intros <-. congruence.
Qed.

(* writing the model file of key K, inside its transaction, with a link that is good *)
Lemma runs_write_model f K h link :
  J f -> is_dir f (key_dir K) = true -> is_file f (model_file K) = false ->
  (link <> 0%N -> lookup f (csv link) = Some (File [T_CSV; h])) ->
  runs (write_file (model_file K) [T_MODEL; K; h; link]) f tt (set f (model_file K) (File [T_MODEL; K; h; link])).
Proof.
  intros [HS [HL HD]] Hd Hnf Hlink.
  assert (Hcw : can_write f (model_file K) = true) by (apply can_write_file; [exact HS | reflexivity | exact Hd]).
  destruct (not_dir_of_can_write _ _ Hcw) as [Hnd Hpo].
  replace (set f (model_file K) (File [T_MODEL; K; h; link]))
    with (apply_op (OpenW (model_file K) [T_MODEL; K; h; link]) f) by (cbn; rewrite Hcw; reflexivity).
  apply runs_single; [rewrite write_file_eq, Hcw; reflexivity | |].
  - intros j. cbn [tear_op]. rewrite Hcw. split; [|split].
    + apply shape_set; auto; discriminate.
    + intros K1 K2 h1 n1 Hm Hn. destruct (N.eq_dec K1 K) as [-> | Hne].
      * rewrite lookup_set_same in Hm. discriminate.
      * rewrite lookup_set_other in Hm by (intros [= E]; congruence). rewrite lookup_set_other by discriminate.
        eapply HL; eassumption.
    + apply ds_inv_set_outside; [reflexivity | exact HD].
  - cbn [apply_op]. rewrite Hcw. split; [|split].
    + apply shape_set; auto; discriminate.
    + intros K1 K2 h1 n1 Hm Hn. rewrite lookup_set_other by discriminate. destruct (N.eq_dec K1 K) as [-> | Hne].
      * rewrite lookup_set_same in Hm. injection Hm as <- <- <-. apply Hlink. exact Hn.
      * rewrite lookup_set_other in Hm by (intros [= E]; congruence). eapply HL; eassumption.
    + apply ds_inv_set_outside; [reflexivity | exact HD].
Qed.

(* a data file number without index entry, and setting its csv / datainfo *)
Lemma ds_inv_set_unindexed f p n0 nd :
  (p = csv n0 \/ p = dinfo n0) -> (forall h, lookup f (hidx h n0) = None) -> ds_inv f -> ds_inv (set f p nd).
Proof.
  intros Hp Hni HD h c Hc.
  assert (Hne : forall h' c', hdir h' ++ [c'] <> p) by (intros h' c' E; destruct Hp as [-> | ->]; discriminate E).
  unfold exists_ in Hc. rewrite lookup_set_other in Hc by (intros E; symmetry in E; exact (Hne _ _ E)).
  destruct (HD h c Hc) as [n [di [-> [H1 [H2 [H3 H4]]]]]].
  assert (Hnn : n <> n0).
  { intros ->. specialize (Hni h). change (hdir h ++ [CCsv n0]) with (hidx h n0) in Hc. rewrite Hni in Hc. discriminate. }
  exists n, di. repeat split; auto.
  - intros c' Hc'. apply H2. unfold exists_ in *. rewrite lookup_set_other in Hc' by (intros E; symmetry in E; exact (Hne _ _ E)). exact Hc'.
  - rewrite lookup_set_other; [exact H3|]. destruct Hp as [-> | ->]; intros [= E]; congruence.
  - rewrite lookup_set_other; [exact H4|]. destruct Hp as [-> | ->]; intros [= E]; congruence.
Qed.

Lemma unindexed_of_no_csv f n : ds_inv f -> lookup f (csv n) = None -> forall h, lookup f (hidx h n) = None.
Proof.
  intros HD Hn h. destruct (lookup f (hidx h n)) eqn:E; [|reflexivity]. exfalso.
  assert (Hc : exists_ f (hdir h ++ [CCsv n]) = true) by (unfold exists_; change (hdir h ++ [CCsv n]) with (hidx h n); rewrite E; reflexivity).
  destruct (HD h _ Hc) as [n' [di [E' [_ [_ [H3 _]]]]]]. injection E' as <-. congruence.
Qed.

(* writing a fresh csv *)
Lemma runs_write_csv f n h :
  J f -> lookup f (csv n) = None -> is_dir f ds_dir = true ->
  runs (write_file (csv n) [T_CSV; h]) f tt (set f (csv n) (File [T_CSV; h])).
Proof.
  intros [HS [HL HD]] Hnone Hd.
  assert (Hcw : can_write f (csv n) = true) by (unfold can_write; rewrite Hnone; exact Hd).
  assert (Hfresh : forall X, link_inv (set f (csv n) X)).
  { intros X K1 K2 h1 n1 Hm Hn. rewrite lookup_set_other in Hm by discriminate.
    pose proof (HL _ _ _ _ Hm Hn) as E. destruct (N.eq_dec n1 n) as [-> | Hne]; [congruence|].
    rewrite lookup_set_other by (intros [= E']; congruence). exact E. }
  assert (Hds : forall X, ds_inv (set f (csv n) X)).
  { intros X. apply (ds_inv_set_unindexed f (csv n) n); [left; reflexivity | apply unindexed_of_no_csv; assumption | exact HD]. }
  assert (Hnd : is_dir f (csv n) = false) by (unfold is_dir; rewrite Hnone; reflexivity).
  replace (set f (csv n) (File [T_CSV; h])) with (apply_op (OpenW (csv n) [T_CSV; h]) f) by (cbn; rewrite Hcw; reflexivity).
  apply runs_single; [rewrite write_file_eq, Hcw; reflexivity | |].
  - intros j. cbn [tear_op]. rewrite Hcw. split; [apply shape_set; auto; discriminate | split; [apply Hfresh | apply Hds]].
  - cbn [apply_op]. rewrite Hcw. split; [apply shape_set; auto; discriminate | split; [apply Hfresh | apply Hds]].
Qed.

(* writing the datainfo of a data file number that has no index entry yet *)
Lemma runs_write_dinfo f n c :
  J f -> (forall h, lookup f (hidx h n) = None) -> is_dir f ds_dir = true ->
  runs (write_file (dinfo n) c) f tt (set f (dinfo n) (File c)).
Proof.
  intros [HS [HL HD]] Hni Hd.
  assert (Hcw : can_write f (dinfo n) = true) by (apply can_write_file; [exact HS | reflexivity | exact Hd]).
  destruct (not_dir_of_can_write _ _ Hcw) as [Hnd Hpo].
  assert (Hl : forall X, link_inv (set f (dinfo n) X)).
  { intros X. eapply link_inv_frame; [| |exact HL]; intros p Hp; apply lookup_set_other; intros <-; discriminate. }
  assert (Hds : forall X, ds_inv (set f (dinfo n) X)).
  { intros X. apply (ds_inv_set_unindexed f (dinfo n) n); [right; reflexivity | exact Hni | exact HD]. }
  replace (set f (dinfo n) (File c)) with (apply_op (OpenW (dinfo n) c) f) by (cbn; rewrite Hcw; reflexivity).
  apply runs_single; [rewrite write_file_eq, Hcw; reflexivity | |].
  - intros j. cbn [tear_op]. rewrite Hcw. split; [apply shape_set; auto; discriminate | split; [apply Hl | apply Hds]].
  - cbn [apply_op]. rewrite Hcw. split; [apply shape_set; auto; discriminate | split; [apply Hl | apply Hds]].
Qed.

Lemma runs_noop {A} (m : M A) o f a :
  J f -> m f = ([o], inr a) -> apply_op o f = f -> (forall j, tear_op o j f = f) -> runs m f a f.
Proof.
  intros HJ E H1 H2. unfold runs. rewrite E. cbn [fst snd]. rewrite run_ops_cons, H1. cbn [run_ops fold_left jsteps].
  rewrite H1. split; [reflexivity|]. split; [reflexivity|]. split; [intros j0; rewrite H2; exact HJ | split; [exact HJ | exact I]].
Qed.

Lemma read_file_eq p f :
  read_file p f = ([OpenR p], match read_node (lookup f p) with Some c => inr c | None => inl EFileNotFound end).
Proof.
  unfold read_file. rewrite bind_get_eq, bind_emit_eq. destruct (read_node (lookup f p)); reflexivity.
Qed.

Lemma children_head f d c0 :
  (forall c, exists_ f (d ++ [c]) = true <-> c = c0) -> exists l, children f d = c0 :: l.
Proof.
  intros H. destruct (children f d) as [|c l] eqn:E.
  - assert (Hin : In c0 (children f d)) by (apply in_children, H; reflexivity). rewrite E in Hin. destruct Hin.
  - assert (Hc : c = c0) by (apply H, in_children; rewrite E; left; reflexivity). subst. eauto.
Qed.

Lemma shape_child_none f d c : shape f -> is_dir f d = false -> lookup f (d ++ [c]) = None.
Proof.
  intros HS Hd. destruct (lookup f (d ++ [c])) as [n|] eqn:E; [|reflexivity].
  destruct (HS _ _ E) as [_ [Hp _]]. unfold parent_ok in Hp. destruct (d ++ [c]) eqn:Ed; [destruct d; discriminate|].
  rewrite <- Ed, removelast_last in Hp. congruence.
Qed.

(* creating the index entry of a complete dataset in an index directory without entries *)
Lemma runs_touch_index f h n di :
  J f -> is_dir f (hdir h) = true -> (forall c, lookup f (hdir h ++ [c]) = None) -> n <> 0%N ->
  lookup f (csv n) = Some (File [T_CSV; h]) -> lookup f (dinfo n) = Some (File [T_DI; di; n]) ->
  runs (touch (hidx h n)) f tt (set f (hidx h n) (File [])).
Proof.
  intros HJ Hd Hempty Hn Hcsv Hdi. destruct HJ as [HS [HL HD]].
  assert (Hne : exists_ f (hidx h n) = false) by (unfold exists_; change (hidx h n) with (hdir h ++ [CCsv n]); rewrite Hempty; reflexivity).
  assert (Hpo : parent_ok f (hidx h n) = true) by exact Hd.
  assert (HJf : J f) by (split; [exact HS | split; assumption]).
  assert (HJ' : J (set f (hidx h n) (File []))).
  { split; [|split].
    - apply shape_set; auto using not_dir_of_absent. discriminate.
    - eapply link_inv_frame; [| |exact HL]; intros p Hp; apply lookup_set_other; intros <-; discriminate.
    - intros h' c' Hc'. unfold exists_ in Hc'.
      destruct (path_eq_dec (hidx h n) (hdir h' ++ [c'])) as [E | E].
      + injection E as <- <-. exists n, di. split; [reflexivity|]. split; [exact Hn|]. split; [|split].
        * intros c'' Hc''. unfold exists_ in Hc''. destruct (path_eq_dec (hidx h n) (hdir h ++ [c''])) as [E2 | E2];
            [injection E2 as <-; reflexivity|]. rewrite lookup_set_other, Hempty in Hc'' by exact E2. discriminate.
        * rewrite lookup_set_other by discriminate. exact Hcsv.
        * rewrite lookup_set_other by discriminate. exact Hdi.
      + rewrite lookup_set_other in Hc' by exact E.
        assert (Hh : h' <> h) by (intros ->; rewrite Hempty in Hc'; discriminate).
        destruct (HD h' c' Hc') as [n' [di' [-> [H1 [H2 [H3 H4]]]]]]. exists n', di'. split; [reflexivity|]. split; [exact H1|].
        split; [|split].
        * intros c'' Hc''. apply H2. unfold exists_ in *. rewrite lookup_set_other in Hc''; [exact Hc''|]. intros [= E' _]. congruence.
        * rewrite lookup_set_other by discriminate. exact H3.
        * rewrite lookup_set_other by discriminate. exact H4. }
  assert (Hrun : run_ops [Utime (hidx h n); OpenC (hidx h n)] f = set f (hidx h n) (File [])).
  { unfold run_ops. cbn [fold_left apply_op]. rewrite Hpo, Hne. reflexivity. }
  unfold runs. rewrite touch_eq, Hne, Hpo. cbn [fst snd]. rewrite Hrun. split; [reflexivity|]. split; [reflexivity|].
  cbn [jsteps tear_op apply_op]. rewrite Hpo, Hne. cbn [andb negb].
  split; [intros j; exact HJf|]. split; [exact HJf|]. split; [intros j; exact HJf|]. split; [exact HJ' | exact I].
Qed.

Lemma runs_mkdir_p_existing f p : J f -> is_dir f p = true -> runs (mkdir_p p) f tt f.
Proof.
  intros HJ Hd. assert (He : exists_ f p = true) by (unfold exists_; apply is_dir_lookup in Hd; rewrite Hd; reflexivity).
  apply (runs_noop _ (Mkdir p)); [exact HJ | | apply apply_mkdir_noop; left; exact He | reflexivity].
  unfold mkdir_p. rewrite mkdir_p_aux_eq, He, Hd. reflexivity.
Qed.

Lemma runs_mkdir1_existing f p : J f -> is_dir f p = true -> runs (mkdir1 p true) f tt f.
Proof.
  intros HJ Hd. assert (He : exists_ f p = true) by (unfold exists_; apply is_dir_lookup in Hd; rewrite Hd; reflexivity).
  apply (runs_noop _ (Mkdir p)); [exact HJ | | apply apply_mkdir_noop; left; exact He | reflexivity].
  rewrite mkdir1_eq, He, Hd. reflexivity.
Qed.


(* the "new dataset" part: csv, datainfo, then the index entry *)
Lemma runs_create_tail fa m :
  J fa -> is_dir fa (hdir (m_dh m)) = true -> is_dir fa ds_dir = true ->
  (forall c, lookup fa (hdir (m_dh m) ++ [c]) = None) ->
  exists n f', runs (f1 <- get ;; emit (Listdir ds_dir) ;;
                     let n := (highest f1 + 1)%N in
                     write_file (csv n) [T_CSV; m_dh m] ;; write_file (dinfo n) [T_DI; m_di m; n] ;;
                     touch (hidx (m_dh m) n) ;; ret n) fa n f'
    /\ lookup f' (csv n) = Some (File [T_CSV; m_dh m]) /\ n <> 0%N
    /\ (forall q, in_ds q = false -> lookup f' q = lookup fa q).
Proof.
  intros HJa Hhd Hds Hempty. set (h := m_dh m) in *. set (n := (highest fa + 1)%N).
  assert (Hn0 : n <> 0%N) by (unfold n; rewrite N.add_1_r; apply N.neq_succ_0).
  assert (Hcn : lookup fa (csv n) = None) by apply csv_fresh.
  pose proof (runs_write_csv fa n h HJa Hcn Hds) as Rc. set (fc := set fa (csv n) (File [T_CSV; h])) in *.
  assert (HJc : J fc) by (eapply runs_J; eassumption).
  assert (Hni : forall h', lookup fc (hidx h' n) = None).
  { intros h'. unfold fc. rewrite lookup_set_other by discriminate. apply unindexed_of_no_csv; [apply HJa | exact Hcn]. }
  assert (Hdsc : is_dir fc ds_dir = true) by (unfold is_dir, fc; rewrite lookup_set_other by discriminate; exact Hds).
  pose proof (runs_write_dinfo fc n [T_DI; m_di m; n] HJc Hni Hdsc) as Rd.
  set (fd := set fc (dinfo n) (File [T_DI; m_di m; n])) in *.
  assert (HJd : J fd) by (eapply runs_J; eassumption).
  assert (Hfd : forall q, q <> dinfo n -> q <> csv n -> lookup fd q = lookup fa q).
  { intros q H1 H2. unfold fd, fc. rewrite !lookup_set_other by congruence. reflexivity. }
  assert (Ri : runs (touch (hidx h n)) fd tt (set fd (hidx h n) (File []))).
  { apply (runs_touch_index fd h n (m_di m) HJd); [| | exact Hn0 | |].
    - unfold is_dir. rewrite Hfd by discriminate. exact Hhd.
    - intros c. rewrite Hfd by discriminate. apply Hempty.
    - unfold fd, fc. rewrite lookup_set_other by discriminate. apply lookup_set_same.
    - unfold fd. apply lookup_set_same. }
  exists n, (set fd (hidx h n) (File [])). split; [|split; [|split; [exact Hn0|]]].
  - apply runs_get. eapply runs_bind; [apply (runs_noop _ (Listdir ds_dir)); [exact HJa | reflexivity | reflexivity | reflexivity]|].
    fold n. eapply runs_bind; [exact Rc|]. eapply runs_bind; [exact Rd|]. eapply runs_bind; [exact Ri | apply runs_ret].
  - rewrite lookup_set_other by discriminate. unfold fd, fc. rewrite lookup_set_other by discriminate. apply lookup_set_same.
  - intros q Hq. rewrite lookup_set_other by (intros <-; discriminate). apply Hfd; intros ->; discriminate.
Qed.

(* phase B, the dataset part *)
Lemma runs_store_dataset f m :
  J f -> is_dir f [CDb] = true ->
  exists link f', runs (store_dataset m f) f link f'
    /\ (link <> 0%N -> lookup f' (csv link) = Some (File [T_CSV; m_dh m]))
    /\ (forall q, in_ds q = false -> lookup f' q = lookup f q).
Proof.
  intros HJ Hdb. set (h := m_dh m). unfold store_dataset. cbv zeta. fold h.
  destruct (is_dir f (hdir h)) eqn:Ehd.
  - destruct (children f (hdir h)) as [|c l] eqn:Ech.
    + (* an index directory without entry: what an interrupted store left *)
      assert (Hempty : forall c, lookup f (hdir h ++ [c]) = None).
      { intros c. destruct (lookup f (hdir h ++ [c])) eqn:E; [|reflexivity]. exfalso.
        assert (Hin : In c (children f (hdir h))) by (apply in_children; unfold exists_; rewrite E; reflexivity).
        rewrite Ech in Hin. destruct Hin. }
      assert (Hds : is_dir f ds_dir = true).
      { apply (dirs_upward f (hdir h)); [apply shape_path_clear; [apply HJ | apply prefixes_hdir] | exact Ehd|].
        exists [CHash; CDh h]. reflexivity. }
      destruct (runs_create_tail f m HJ Ehd Hds Hempty) as [n [f' [R [H1 [H2 H3]]]]].
      exists n, f'. split; [|split; [intros _; exact H1 | exact H3]].
      eapply runs_bind; [apply (runs_noop _ (Listdir (hdir h))); [exact HJ | reflexivity | reflexivity | reflexivity]|].
      eapply runs_bind; [apply runs_mkdir_p_existing; assumption | exact R].
    + (* the dataset is indexed *)
      assert (Hc : exists_ f (hdir h ++ [c]) = true) by (apply in_children; rewrite Ech; left; reflexivity).
      destruct (proj2 (proj2 HJ) h c Hc) as [n [di [-> [Hn0 [_ [Hcsv Hdi]]]]]].
      exists (if N.eqb di (m_di m) then n else 0%N), f. split; [|split; [|reflexivity]].
      * eapply runs_bind; [apply (runs_noop _ (Listdir (hdir h))); [exact HJ | reflexivity | reflexivity | reflexivity]|].
        eapply runs_bind.
        -- apply (runs_noop _ (OpenR (dinfo n))); [exact HJ | | reflexivity | reflexivity].
           rewrite read_file_eq, Hdi. reflexivity.
        -- cbn. apply runs_ret.
      * destruct (N.eqb di (m_di m)); [intros _; exact Hcsv | congruence].
  - (* no index directory *)
    destruct (runs_mkdir_p f (hdir h) HJ (prefixes_hdir h)) as [fa [Ra [Da Fa]]].
    assert (HJa : J fa) by (eapply runs_J; eassumption).
    assert (Hhd : is_dir fa (hdir h) = true) by (apply Da, prefix_refl).
    assert (Hds : is_dir fa ds_dir = true) by (apply Da; exists [CHash; CDh h]; reflexivity).
    assert (Hempty : forall c, lookup fa (hdir h ++ [c]) = None).
    { intros c. rewrite Fa by (apply not_prefix_longer; rewrite app_length; cbn; lia).
      apply shape_child_none; [apply HJ | exact Ehd]. }
    destruct (runs_create_tail fa m HJa Hhd Hds Hempty) as [n [f' [R [H1 [H2 H3]]]]].
    exists n, f'. split; [|split; [intros _; exact H1|]].
    + eapply runs_bind; [exact Ra | exact R].
    + intros q Hq. rewrite H3 by exact Hq.
      destruct q as [|c1 [|c2 q]].
      * assert (H0 : is_dir f [] = true).
        { apply is_dir_lookup in Hdb. destruct (proj1 HJ _ _ Hdb) as [_ [Hp _]]. exact Hp. }
        pose proof (Da [] (prefix_nil _)) as H1'. apply is_dir_lookup in H0. apply is_dir_lookup in H1'. congruence.
      * destruct (comp_eqb c1 CDb) eqn:Ec.
        -- apply comp_eqb_eq in Ec. subst c1. pose proof (Da [CDb] (ex_intro _ [CDatasets; CHash; CDh h] eq_refl)) as H1'.
           apply is_dir_lookup in Hdb. apply is_dir_lookup in H1'. congruence.
        -- apply Fa. intros Hp. apply prefix_firstn in Hp. cbn in Hp. injection Hp as ->. rewrite comp_eqb_refl in Ec. discriminate.
      * apply Fa. intros Hp. apply prefix_firstn in Hp. cbn in Hp.
        destruct q as [|c3 [|c4 q]]; cbn in Hp; injection Hp as -> ->; discriminate.
Qed.

(* phase B *)
Lemma runs_store_model f m :
  J f -> is_dir f (key_dir (m_key m)) = true -> is_dir f [CDb] = true ->
  exists f2, runs (store_model m) f tt f2 /\ is_file f2 (model_file (m_key m)) = true
             /\ (forall q, in_ds q = false -> q <> model_file (m_key m) -> lookup f2 q = lookup f q).
Proof.
  intros HJ Hk Hdb. set (K := m_key m) in *. rewrite store_model_unfold. fold K.
  destruct (is_file f (model_file K)) eqn:Ef.
  - exists f. split; [apply runs_get; rewrite Ef; apply runs_ret | auto].
  - destruct (runs_store_dataset f m HJ Hdb) as [link [f' [Rd [Hl Fr]]]].
    assert (HJ' : J f') by (eapply runs_J; eassumption).
    assert (Hk' : is_dir f' (key_dir K) = true) by (unfold is_dir; rewrite Fr by reflexivity; exact Hk).
    assert (Hnf' : is_file f' (model_file K) = false) by (unfold is_file; rewrite Fr by reflexivity; exact Ef).
    pose proof (runs_write_model f' K (m_dh m) link HJ' Hk' Hnf' Hl) as Rw.
    eexists. split; [|split].
    + apply runs_get. rewrite Ef. eapply runs_bind; [exact Rd|].
      eapply runs_bind; [apply runs_mkdir1_existing; assumption | exact Rw].
    + unfold is_file. rewrite lookup_set_same. reflexivity.
    + intros q Hq Hne. rewrite lookup_set_other by congruence. apply Fr. exact Hq.
Qed.

(* phase C *)
Lemma runs_store_results f m :
  J f -> is_dir f (meta_dir (m_key m)) = true ->
  exists f3, runs (store_modelfit_results m) f tt f3
             /\ (forall q, q <> results_file (m_key m) -> lookup f3 q = lookup f q).
Proof.
  intros HJ Hm. unfold store_modelfit_results. destruct (m_res m) as [r|].
  - assert (Hcw : can_write f (results_file (m_key m)) = true)
      by (apply can_write_file; [exact (proj1 HJ) | reflexivity | exact Hm]).
    eexists. split.
    + eapply runs_bind; [apply runs_mkdir_p_existing; assumption|]. apply runs_write_quiet; [exact HJ | reflexivity | exact Hcw].
    + intros q Hq. apply lookup_set_other. congruence.
  - exists f. split; [|reflexivity]. eapply runs_bind; [apply runs_mkdir_p_existing; assumption | apply runs_ret].
Qed.

Lemma remove_file_full_eq p f :
  remove_file p f = ([Remove p], match lookup f p with
                                 | Some (File _) | Some (Torn _) | Some (Link _) => inr tt
                                 | _ => inl EFileNotFound end).
Proof.
  unfold remove_file. rewrite bind_get_eq, bind_emit_eq. destruct (lookup f p) as [[| | |]|]; reflexivity.
Qed.

Lemma prefix_meta_not_ds K q : is_prefix q (meta_dir K) -> in_ds q = false.
Proof.
  intros H. rewrite (prefix_firstn _ _ H). destruct (length q) as [|[|[|[|n]]]]; reflexivity.
Qed.

(* the whole database-level store *)
Lemma runs_db_store f m :
  J f -> exists_ f (pending (m_key m)) = false ->
  exists (u : unit) f', runs (db_store_model_entry m) f u f'
    /\ (visible f' (m_key m) = true
        /\ is_dir f' (key_dir (m_key m)) = true
        /\ (forall q, in_ds q = false -> ~ is_prefix q (meta_dir (m_key m)) -> q <> db_lock ->
                      q <> pending (m_key m) -> q <> model_file (m_key m) -> q <> results_file (m_key m) ->
                      lookup f' q = lookup f q)).
Proof.
  intros HJ Hp. set (K := m_key m) in *. unfold db_store_model_entry, transaction. fold K.
  apply (runs_begin_k f K _ _ HJ Hp). intros f1 HJ1 Hp1 Hm1 Hk1 Hdb1 F1.
  destruct (runs_store_model f1 m HJ1 Hk1 Hdb1) as [f2 [R2 [Hf2 F2]]]. fold K in R2, Hf2, F2.
  assert (HJ2 : J f2) by (eapply runs_J; eassumption).
  assert (Hm2 : is_dir f2 (meta_dir K) = true) by (unfold is_dir; rewrite F2 by (try reflexivity; discriminate); exact Hm1).
  destruct (runs_store_results f2 m HJ2 Hm2) as [f3 [R3 F3]]. fold K in F3.
  assert (HJ3 : J f3) by (eapply runs_J; eassumption).
  assert (Hp3 : lookup f3 (pending K) = Some (File [])).
  { rewrite F3 by discriminate. rewrite F2 by (try reflexivity; discriminate). exact Hp1. }
  assert (Hq : jquiet (Remove (pending K)) = true) by reflexivity.
  destruct (jquiet_step f3 _ Hq HJ3) as [T4 J4].
  assert (Happ : apply_op (Remove (pending K)) f3 = remove f3 (pending K)) by (cbn [apply_op]; rewrite Hp3; reflexivity).
  exists tt, (remove f3 (pending K)). split; [|split; [|split]].
  - unfold store_model_entry. eapply runs_bind; [eapply runs_bind; [exact R2 | exact R3]|].
    eapply runs_bind; [|apply runs_ret]. rewrite <- Happ.
    apply runs_single; [rewrite remove_file_full_eq, Hp3; reflexivity | exact T4 | exact J4].
  - unfold visible, exists_, is_file. rewrite lookup_remove_same. cbn.
    rewrite lookup_remove_other by discriminate. rewrite F3 by discriminate. exact Hf2.
  - unfold is_dir. rewrite lookup_remove_other by discriminate. rewrite F3 by discriminate.
    rewrite F2 by (try reflexivity; discriminate). exact Hk1.
  - intros q H1 H2 H3 H4 H5 H6. rewrite lookup_remove_other by congruence. rewrite F3 by congruence.
    rewrite F2 by assumption. apply F1; assumption.
Qed.

(* ========================================================================================= *)
(* 8. every workload keeps J in all intermediate and torn states                               *)
(* static facts about the primitives, for any predicate on operations *)
Lemma all_mkdir1 S p b : S (Mkdir p) = true -> all_prog S (mkdir1 p b).
Proof. intros H f. rewrite mkdir1_eq. cbn. rewrite H. reflexivity. Qed.
Lemma all_mkdir_p_aux S fuel : forall p,
  forallb (fun q => S (Mkdir q)) (ancestors fuel p) = true -> all_prog S (mkdir_p_aux fuel p).
Proof.
  induction fuel as [|n IH]; intros p H f; rewrite mkdir_p_aux_eq; cbn in H; apply andb_true_iff in H; destruct H as [H1 H2].
  - destruct (exists_ f p); [cbn; rewrite H1; reflexivity|]. destruct (parent_ok f p); cbn; rewrite H1; reflexivity.
  - destruct (exists_ f p); [cbn; rewrite H1; reflexivity|]. destruct (parent_ok f p); [cbn; rewrite H1; reflexivity|].
    pose proof (all_bind S _ (fun _ => mkdir1 p true) (IH _ H2) (fun _ => all_mkdir1 S p true H1) (apply_op (Mkdir p) f)) as Hb.
    destruct (bind (mkdir_p_aux n (removelast p)) (fun _ => mkdir1 p true) (apply_op (Mkdir p) f)) as [ops r].
    cbn in *. rewrite H1, Hb. reflexivity.
Qed.
Lemma all_mkdir_p S p : forallb (fun q => S (Mkdir q)) (ancestors (length p) p) = true -> all_prog S (mkdir_p p).
Proof. apply all_mkdir_p_aux. Qed.
Lemma all_touch S p : S (Utime p) = true -> S (OpenC p) = true -> all_prog S (touch p).
Proof. intros H1 H2 f. rewrite touch_eq. destruct (exists_ f p); cbn; rewrite H1, ?H2; reflexivity. Qed.
Lemma all_lock S p : S (Utime p) = true -> S (OpenC p) = true -> S (OpenL p) = true -> all_prog S (lock p).
Proof. intros H1 H2 H3. unfold lock. apply all_bind; [apply all_touch; assumption | intro; apply all_emit; exact H3]. Qed.
Lemma all_read_file S p : S (OpenR p) = true -> all_prog S (read_file p).
Proof. intros H f. rewrite read_file_eq. cbn. rewrite H. reflexivity. Qed.
Lemma all_append_file S p c : S (OpenA p c) = true -> all_prog S (append_file p c).
Proof.
  intros H f. unfold append_file. rewrite bind_get_eq, bind_emit_eq. destruct (can_write f p); cbn; rewrite H; reflexivity.
Qed.

Lemma dsquiet_jquiet o : dsquiet o = true -> jquiet o = true.
Proof. unfold dsquiet. intros H. apply andb_true_iff in H. destruct H as [H _]. apply andb_true_iff in H. tauto. Qed.

Ltac all_tac S :=
  repeat first
    [ apply all_mkdir_p; reflexivity | apply all_mkdir1; reflexivity | apply all_touch; reflexivity
    | apply all_lock; reflexivity | apply all_write_file; reflexivity | apply all_append_file; reflexivity
    | apply all_read_file; reflexivity | apply all_touch_excl; reflexivity | apply all_remove_file; reflexivity
    | apply all_rename_file; reflexivity
    | match goal with
      | |- all_prog S (bind _ _) => apply all_bind; [|intro]
      | |- all_prog S (ret _) => apply all_ret
      | |- all_prog S (fail _) => apply all_fail
      | |- all_prog S get => apply all_get
      | |- all_prog S (emit _) => apply all_emit; reflexivity
      | |- all_prog S (if ?b then _ else _) => destruct b
      | |- all_prog S (match ?x with _ => _ end) => destruct x
      end ].

Lemma dsq_ctx_init : all_prog dsquiet ctx_init.
Proof. unfold ctx_init. all_tac dsquiet. Qed.
Lemma dsq_store_annotation name a : all_prog dsquiet (store_annotation name a).
Proof. unfold store_annotation. all_tac dsquiet. Qed.
Lemma dsq_store_message p d s msg : all_prog dsquiet (store_message p d s msg).
Proof. unfold store_message. all_tac dsquiet. Qed.
Lemma dsq_read_model K : all_prog dsquiet (read_model K).
Proof. unfold read_model. all_tac dsquiet. Qed.
Lemma dsq_snapshot {A} K (body : M A) : all_prog dsquiet body -> all_prog dsquiet (snapshot K body).
Proof. intros H. unfold snapshot. all_tac dsquiet. exact H. Qed.
Lemma dsq_retrieve_model_entry K : all_prog dsquiet (retrieve_model_entry K).
Proof.
  unfold retrieve_model_entry. apply all_bind; [apply dsq_read_model | intro].
  apply all_bind; [apply dsq_read_model | intro]. all_tac dsquiet.
Qed.
Lemma dsq_retrieve_annotation name : all_prog dsquiet (retrieve_annotation name).
Proof. unfold retrieve_annotation. all_tac dsquiet. Qed.
Lemma dsq_retrieve_log : all_prog dsquiet retrieve_log.
Proof. unfold retrieve_log. all_tac dsquiet. Qed.
Lemma dsq_ctx_retrieve name : all_prog dsquiet (ctx_retrieve name).
Proof.
  unfold ctx_retrieve. apply all_bind; [apply all_get | intro f].
  destruct (resolve_name f name); [|apply all_fail].
  apply all_bind; [apply dsq_snapshot; apply all_ret | intro].
  apply all_bind; [apply dsq_snapshot; apply dsq_retrieve_model_entry | intro].
  apply all_bind; [apply dsq_retrieve_annotation | intro]. apply all_ret.
Qed.
Lemma dsq_forget {A} (m : M A) : all_prog dsquiet m -> all_prog dsquiet (forget m).
Proof. intros H. unfold forget. apply all_bind; [exact H | intro; apply all_ret]. Qed.
Lemma dsq_sub_init s0 : all_prog dsquiet (sub_init s0).
Proof. unfold sub_init, annot_path_at, cdir. all_tac dsquiet. Qed.
Lemma dsq_store_annotation_at s0 name a : all_prog dsquiet (store_annotation_at (cdir (Some s0)) name a).
Proof. unfold store_annotation_at, annot_lock_at, annot_path_at, annot_tmp_at, cdir. all_tac dsquiet. Qed.
Lemma dsq_retrieve_annotation_at s0 name : all_prog dsquiet (retrieve_annotation_at (cdir (Some s0)) name).
Proof. unfold retrieve_annotation_at, annot_lock_at, annot_path_at, cdir. all_tac dsquiet. Qed.
Lemma dsq_sub_retrieve s0 name : all_prog dsquiet (sub_retrieve s0 name).
Proof.
  unfold sub_retrieve. apply all_bind; [apply all_get | intro f].
  destruct (resolve_name_at (cdir (Some s0)) f name); [|apply all_fail].
  apply all_bind; [apply dsq_snapshot; apply all_ret | intro].
  apply all_bind; [apply dsq_snapshot; apply dsq_retrieve_model_entry | intro].
  apply all_bind; [apply dsq_retrieve_annotation_at | intro]. apply all_ret.
Qed.
Lemma dsq_store_results c id : all_prog dsquiet (store_results c id).
Proof. unfold store_results, results_json, results_csv, cdir. destruct c; all_tac dsquiet. Qed.
Lemma dsq_retrieve_results c : all_prog dsquiet (retrieve_results c).
Proof. unfold retrieve_results, results_json, cdir. destruct c; all_tac dsquiet. Qed.
Lemma dsq_metadata K id : all_prog dsquiet (db_store_metadata K id).
Proof. unfold db_store_metadata, transaction. all_tac dsquiet. Qed.

(* J holds after every operation and every torn operation of the program, whatever its outcome *)
Definition keeps {A} (m : M A) : Prop := forall f, J f -> jsteps (fst (m f)) f.

Lemma keeps_dsquiet {A} (m : M A) : all_prog dsquiet m -> keeps m.
Proof.
  intros H f HJ. apply jsteps_quiet; [|exact HJ]. specialize (H f). rewrite forallb_forall in *.
  intros o Ho. apply dsquiet_jquiet, H, Ho.
Qed.

Lemma keeps_bind {A B} (m : M A) (k : A -> M B) : keeps m -> (forall a, keeps (k a)) -> keeps (bind m k).
Proof.
  intros Hm Hk f HJ. unfold bind. specialize (Hm f HJ). destruct (m f) as [ops r]. cbn [fst] in *.
  destruct r as [e|a]; cbn [fst]; [exact Hm|].
  specialize (Hk a (run_ops ops f) (jsteps_final _ _ HJ Hm)). destruct (k a (run_ops ops f)) as [ops2 r2]. cbn [fst] in *.
  apply jsteps_app. split; assumption.
Qed.

(* after a successful first part, only the steps of the second part remain to be shown *)
Lemma jsteps_after {A B} (m : M A) (k : A -> M B) f a f1 :
  runs m f a f1 -> jsteps (fst (k a f1)) f1 -> jsteps (fst (bind m k f)) f.
Proof.
  intros [E1 [E2 E3]] H. unfold bind. destruct (m f) as [ops r]. cbn [fst snd] in *. subst r f1.
  destruct (k a (run_ops ops f)) as [ops2 r2]. cbn [fst] in *. apply jsteps_app. split; assumption.
Qed.

Lemma keeps_db_store m : keeps (db_store_model_entry m).
Proof.
  intros f HJ. set (K := m_key m). destruct (exists_ f (pending K)) eqn:Ep.
  - (* a PENDING marker exists: the transaction stops at the marker *)
    unfold db_store_model_entry, transaction. fold K.
    destruct (runs_mkdir_p f (meta_dir K) HJ (prefixes_meta_dir K)) as [fa [Ra [Da Fa]]].
    assert (HJa : J fa) by (eapply runs_J; eassumption).
    eapply jsteps_after; [exact Ra|].
    assert (Hdb : is_dir fa [CDb] = true) by (apply Da; exists [CKey K; CPharmpy]; reflexivity).
    destruct (runs_lock fa db_lock HJa eq_refl eq_refl eq_refl eq_refl Hdb) as [fb [Rb Fb]].
    assert (HJb : J fb) by (eapply runs_J; eassumption).
    eapply jsteps_after; [exact Rb|].
    assert (Hpb : exists_ fb (pending K) = true).
    { unfold exists_. rewrite Fb by discriminate. rewrite Fa by (apply not_prefix_longer; cbn; lia). exact Ep. }
    unfold bind. rewrite touch_excl_eq, Hpb. cbn [fst].
    assert (Hq : jquiet (OpenX (pending K)) = true) by reflexivity.
    destruct (jquiet_step fb _ Hq HJb) as [H1 H2]. cbn [jsteps]. auto.
  - destruct (runs_db_store f m HJ Ep) as [u [f' [[_ [_ E3]] _]]]. exact E3.
Qed.

Lemma shape_exists_dir f q : shape f -> dir_path q = true -> exists_ f q = true -> is_dir f q = true.
Proof.
  intros HS Hd He. destruct (shape_dir_only f q HS Hd) as [H|H]; [unfold exists_ in He; rewrite H in He; discriminate|].
  apply is_dir_lookup. exact H.
Qed.

Lemma keeps_store_key name K : keeps (store_key name K).
Proof.
  intros f HJ. rewrite store_key_ops.
  destruct (path_exists f (name_link name)); [exact I|].
  destruct (exists_ f (key_dir K)) eqn:E2; [|exact I].
  assert (Hd : is_dir f (key_dir K) = true) by (apply shape_exists_dir; [exact (proj1 HJ) | reflexivity | exact E2]).
  assert (Hfr : forall q, protected q -> lookup (apply_op (Symlink (key_dir K) (name_link name)) f) q = lookup f q).
  { intros q Hq. apply apply_op_frame; cbn; [|discriminate]. intros [= <-]. destruct Hq as [H|[H|[H _]]]; discriminate. }
  cbn [jsteps tear_op]. split; [intros j; exact HJ|]. split; [|exact I]. destruct HJ as [HS [HL HD]]. split; [|split].
  - apply step_shape; [exact HS|]. split; [reflexivity|]. intros t p [= <- <-]. exact Hd.
  - eapply link_inv_frame; [| |exact HL]; intros q Hq; apply Hfr; unfold protected; auto.
  - eapply ds_inv_frame; [|exact HD]. intros q H1 H2. apply Hfr. unfold protected. auto.
Qed.

Lemma keeps_store_key_at s0 name K : keeps (store_key_at (cdir (Some s0)) name K).
Proof.
  intros f HJ. rewrite store_key_at_ops. set (lk := name_link_at (cdir (Some s0)) name).
  destruct (path_exists f lk); [exact I|].
  destruct (exists_ f (key_dir K)) eqn:E2; [|exact I].
  assert (Hd : is_dir f (key_dir K) = true) by (apply shape_exists_dir; [exact (proj1 HJ) | reflexivity | exact E2]).
  assert (Hfr : forall q, protected q -> lookup (apply_op (Symlink (key_dir K) lk) f) q = lookup f q).
  { intros q Hq. apply apply_op_frame; cbn; [|discriminate]. intros [= <-]. destruct Hq as [H|[H|[H _]]]; discriminate. }
  cbn [jsteps tear_op]. split; [intros j; exact HJ|]. split; [|exact I]. destruct HJ as [HS [HL HD]]. split; [|split].
  - apply step_shape; [exact HS|]. split; [reflexivity|]. intros t p [= <- <-]. exact Hd.
  - eapply link_inv_frame; [| |exact HL]; intros q Hq; apply Hfr; unfold protected; auto.
  - eapply ds_inv_frame; [|exact HD]. intros q H1 H2. apply Hfr. unfold protected. auto.
Qed.

Lemma keeps_item i : keeps (item_prog i).
Proof.
  destruct i; cbn [item_prog].
  - apply keeps_dsquiet, dsq_ctx_init.
  - unfold ctx_store. apply keeps_bind; [apply keeps_db_store | intro].
    apply keeps_bind; [apply keeps_store_key | intro]. apply keeps_dsquiet, dsq_store_annotation.
  - apply keeps_db_store.
  - apply keeps_dsquiet, dsq_metadata.
  - apply keeps_dsquiet, dsq_store_annotation.
  - apply keeps_dsquiet, dsq_store_message.
  - apply keeps_dsquiet, dsq_forget, dsq_ctx_retrieve.
  - apply keeps_dsquiet, dsq_forget, dsq_snapshot, dsq_read_model.
  - apply keeps_dsquiet, dsq_forget, dsq_retrieve_annotation.
  - apply keeps_dsquiet, dsq_forget, dsq_retrieve_log.
  - apply keeps_dsquiet, dsq_sub_init.
  - unfold sub_store. apply keeps_bind; [apply keeps_db_store | intro].
    apply keeps_bind; [apply keeps_store_key_at | intro]. apply keeps_dsquiet, dsq_store_annotation_at.
  - apply keeps_dsquiet, dsq_forget, dsq_sub_retrieve.
  - apply keeps_dsquiet, dsq_store_results.
  - apply keeps_dsquiet, dsq_forget, dsq_retrieve_results.
Qed.

Lemma trace_keeps w : forall f0, J f0 -> jsteps (trace w f0) f0.
Proof.
  induction w as [|i w IH]; intros f0 HJ; [exact I|]. cbn [trace].
  pose proof (keeps_item i f0 HJ) as Hs. fold (item_ops i f0) in Hs.
  apply jsteps_app. split; [exact Hs | apply IH, jsteps_final; assumption].
Qed.

Lemma J_empty : J [].
Proof. split; [apply shape_empty | split; [intros K K' h n H; discriminate | intros h c H; discriminate]]. Qed.

(* ---- the statements used in Properties.v --------------------------------------------------- *)
Lemma consistent_closed_lemma : forall f0 w, J f0 -> J (run w f0).
Proof. intros f0 w HJ. unfold run. apply jsteps_final; [exact HJ | apply trace_keeps; exact HJ]. Qed.

Lemma crash_J_lemma : forall f0 w k torn, J f0 -> J (crash_w f0 w k torn).
Proof. intros f0 w k torn HJ. apply jsteps_crash; [exact HJ | apply trace_keeps; exact HJ]. Qed.

Lemma dataset_faithful_lemma :
  forall f0 w k torn K K' h n,
    J f0 ->
    lookup (crash_w f0 w k torn) (model_file K) = Some (File [T_MODEL; K'; h; n]) -> n <> 0%N ->
    lookup (crash_w f0 w k torn) (csv n) = Some (File [T_CSV; h]).
Proof. intros f0 w k torn K K' h n HJ. apply (proj1 (proj2 (crash_J_lemma f0 w k torn HJ))). Qed.

Lemma db_store_succeeds_lemma :
  forall f m, J f -> exists_ f (pending (m_key m)) = false ->
    item_res (WDbStore m) f = inr tt
    /\ visible (run [WDbStore m] f) (m_key m) = true
    /\ J (run [WDbStore m] f).
Proof.
  intros f m HJ Hp. destruct (runs_db_store f m HJ Hp) as [[] [f' [[E1 [E2 E3]] [Hv _]]]].
  unfold item_res, run. cbn [item_prog trace]. rewrite app_nil_r. unfold item_ops. cbn [item_prog].
  rewrite <- E2. split; [exact E1|]. split; [exact Hv|].
  apply (runs_J (db_store_model_entry m) f tt f' HJ). split; [exact E1 | split; [exact E2 | exact E3]].
Qed.

(* ========================================================================================= *)
(* 9. the context-level store: Context._store_model                                            *)
Definition ctx_ok (f : fs) : Prop :=
  is_dir f [] = true /\ is_dir f [CModels] = true /\ is_file f annot_path = true.

Lemma store_key_eq name K f :
  store_key name K f =
  if path_exists f (name_link name) then ([], inr tt)
  else if exists_ f (key_dir K) then
    ([Symlink (key_dir K) (name_link name)],
     if exists_ f (name_link name) then inl EFileExists
     else if parent_ok f (name_link name) then inr tt else inl EFileNotFound)
  else ([], inr tt).
Proof.
  unfold store_key. rewrite bind_get_eq. destruct (path_exists f (name_link name)); [reflexivity|].
  destruct (exists_ f (key_dir K)); [|reflexivity]. rewrite bind_emit_eq.
  destruct (exists_ f (name_link name)); [reflexivity|]. destruct (parent_ok f (name_link name)); reflexivity.
Qed.

Lemma runs_store_key f name K :
  J f -> is_dir f (key_dir K) = true -> is_dir f [CModels] = true ->
  exists f', runs (store_key name K) f tt f'
             /\ (forall q, q <> name_link name -> lookup f' q = lookup f q)
             /\ (path_exists f (name_link name) = false -> lookup f' (name_link name) = Some (Link (key_dir K))).
Proof.
  intros HJ Hk Hm. pose proof (keeps_store_key name K f HJ) as Hsteps.
  destruct (path_exists f (name_link name)) eqn:Epe.
  - exists f. split; [|split; [reflexivity | discriminate]].
    unfold runs. rewrite store_key_eq, Epe. cbn. auto.
  - assert (Hke : exists_ f (key_dir K) = true) by (unfold exists_; apply is_dir_lookup in Hk; rewrite Hk; reflexivity).
    assert (Hne : exists_ f (name_link name) = false).
    { unfold path_exists, exists_ in *. destruct (lookup f (name_link name)) as [[| | |t]|] eqn:E; try discriminate; [|reflexivity].
      destruct (proj1 HJ _ _ E) as [_ [_ Hl]]. specialize (Hl t eq_refl). apply is_dir_lookup in Hl. rewrite Hl in Epe. discriminate. }
    assert (Happ : apply_op (Symlink (key_dir K) (name_link name)) f = set f (name_link name) (Link (key_dir K))).
    { cbn [apply_op]. rewrite Hne. replace (parent_ok f (name_link name)) with (is_dir f [CModels]) by reflexivity. rewrite Hm. reflexivity. }
    exists (set f (name_link name) (Link (key_dir K))). split; [|split].
    + unfold runs. rewrite store_key_eq in *. rewrite Epe, Hke in *. rewrite Hne.
      replace (parent_ok f (name_link name)) with (is_dir f [CModels]) by reflexivity. rewrite Hm. cbn [fst snd] in *.
      split; [reflexivity|]. split; [|exact Hsteps]. rewrite run_ops_cons, Happ. reflexivity.
    + intros q Hq. apply lookup_set_other. congruence.
    + intros _. apply lookup_set_same.
Qed.

(* store_annotation: lock, read, write annotations.tmp, os.replace *)
Lemma rename_file_eq s0 d f :
  rename_file s0 d f = ([Rename s0 d], if is_file f s0 && can_write f d then inr tt else inl EFileNotFound).
Proof.
  unfold rename_file. rewrite bind_get_eq, bind_emit_eq. destruct (is_file f s0 && can_write f d); reflexivity.
Qed.

Lemma runs_store_annotation f name a c :
  J f -> is_dir f [] = true -> read_node (lookup f annot_path) = Some c ->
  exists f', runs (store_annotation name a) f tt f'
             /\ lookup f' annot_path = Some (File (annot_store c name a))
             /\ (forall q, q <> annot_path -> q <> annot_lock -> q <> annot_tmp -> lookup f' q = lookup f q).
Proof.
  intros HJ H0 Hc. destruct (runs_lock f annot_lock HJ eq_refl eq_refl eq_refl eq_refl H0) as [fa [Ra Fa]].
  assert (HJa : J fa) by (eapply runs_J; eassumption).
  assert (Hca : read_node (lookup fa annot_path) = Some c) by (rewrite Fa by discriminate; exact Hc).
  assert (H0a : is_dir fa [] = true) by (unfold is_dir; rewrite Fa by discriminate; exact H0).
  assert (Hcw : can_write fa annot_tmp = true) by (apply can_write_file; [exact (proj1 HJa) | reflexivity | exact H0a]).
  pose proof (runs_write_quiet fa annot_tmp (annot_store c name a) HJa eq_refl Hcw) as Rw.
  set (fb := set fa annot_tmp (File (annot_store c name a))) in *.
  assert (HJb : J fb) by (eapply runs_J; eassumption).
  assert (Hcw2 : can_write fb annot_path = true).
  { apply can_write_file; [exact (proj1 HJb) | reflexivity|]. change (is_dir fb [] = true).
    unfold is_dir, fb. rewrite lookup_set_other by discriminate. exact H0a. }
  assert (Htmp : lookup fb annot_tmp = Some (File (annot_store c name a))) by apply lookup_set_same.
  assert (Hq : jquiet (Rename annot_tmp annot_path) = true) by reflexivity.
  destruct (jquiet_step fb _ Hq HJb) as [T J'].
  assert (Happ : apply_op (Rename annot_tmp annot_path) fb = set (remove fb annot_tmp) annot_path (File (annot_store c name a))).
  { cbn [apply_op]. rewrite Htmp, Hcw2. reflexivity. }
  exists (set (remove fb annot_tmp) annot_path (File (annot_store c name a))). split; [|split].
  - unfold store_annotation. eapply runs_bind; [exact Ra|]. eapply runs_bind.
    + apply (runs_noop _ (OpenR annot_path)); [exact HJa | rewrite read_file_eq, Hca; reflexivity | reflexivity | reflexivity].
    + eapply runs_bind; [exact Rw|]. rewrite <- Happ. apply runs_single; [|exact T | exact J'].
      rewrite rename_file_eq. unfold is_file. rewrite Htmp, Hcw2. reflexivity.
  - apply lookup_set_same.
  - intros q H1 H2 H3. rewrite lookup_set_other, lookup_remove_other by congruence. unfold fb.
    rewrite lookup_set_other by congruence. apply Fa. exact H2.
Qed.

Lemma ctx_store_succeeds_lemma :
  forall f m c,
    J f -> ctx_ok f -> read_node (lookup f annot_path) = Some c ->
    exists_ f (pending (m_key m)) = false ->
    item_res (WStore m) f = inr tt
    /\ visible (run [WStore m] f) (m_key m) = true
    /\ (path_exists f (name_link (m_name m)) = false -> resolve_name (run [WStore m] f) (m_name m) = Some (m_key m))
    /\ read_node (lookup (run [WStore m] f) annot_path) = Some (annot_store c (m_name m) (m_desc m))
    /\ J (run [WStore m] f) /\ ctx_ok (run [WStore m] f).
Proof.
  intros f m c HJ [H0 [Hmod Hann]] Hc Hp. set (K := m_key m) in *.
  destruct (runs_db_store f m HJ Hp) as [[] [f1 [R1 [Hv1 [Hk1 F1]]]]]. fold K in Hv1, Hk1, F1.
  assert (HJ1 : J f1) by (eapply runs_J; eassumption).
  assert (Hrun1 : f1 = run_ops (fst (db_store_model_entry m f)) f) by (apply R1).
  assert (H01 : is_dir f1 [] = true) by (rewrite Hrun1; apply is_dir_mono_ops; exact H0).
  assert (Hmod1 : is_dir f1 [CModels] = true) by (rewrite Hrun1; apply is_dir_mono_ops; exact Hmod).
  assert (Fr1 : forall q, (q = annot_path \/ q = name_link (m_name m)) -> lookup f1 q = lookup f q).
  { intros q [-> | ->]; apply F1; try reflexivity; try discriminate;
      intros Hpre; apply prefix_firstn in Hpre; cbn in Hpre; discriminate. }
  destruct (runs_store_key f1 (m_name m) K HJ1 Hk1 Hmod1) as [f2 [R2 [F2 Hlink]]].
  assert (HJ2 : J f2) by (eapply runs_J; eassumption).
  assert (H02 : is_dir f2 [] = true) by (unfold is_dir; rewrite F2 by discriminate; exact H01).
  assert (Hc2 : read_node (lookup f2 annot_path) = Some c).
  { rewrite F2 by discriminate. rewrite Fr1 by (left; reflexivity). exact Hc. }
  destruct (runs_store_annotation f2 (m_name m) (m_desc m) c HJ2 H02 Hc2) as [f3 [R3 [Ha3 F3]]].
  assert (HJ3 : J f3) by (eapply runs_J; eassumption).
  assert (Rall : runs (ctx_store m) f tt f3).
  { unfold ctx_store. eapply runs_bind; [exact R1|]. eapply runs_bind; [exact R2 | exact R3]. }
  assert (Efin : run [WStore m] f = f3).
  { unfold run. cbn [trace]. rewrite app_nil_r. unfold item_ops. cbn [item_prog]. symmetry. apply Rall. }
  rewrite Efin. split; [apply Rall|]. split; [|split; [|split; [|split]]].
  - unfold visible, exists_, is_file in *. rewrite !F3 by discriminate. rewrite !F2 by discriminate. exact Hv1.
  - intros Hpe. apply resolve_name_spec. rewrite F3 by discriminate. apply Hlink.
    unfold path_exists in *. rewrite Fr1 by (right; reflexivity).
    destruct (lookup f (name_link (m_name m))) as [[| | |t]|] eqn:El; try exact Hpe.
    destruct (proj1 HJ _ _ El) as [_ [_ Hl]]. specialize (Hl t eq_refl). unfold exists_ in Hpe.
    apply is_dir_lookup in Hl. rewrite Hl in Hpe. discriminate.
  - rewrite Ha3. reflexivity.
  - exact HJ3.
  - split; [|split].
    + unfold is_dir. rewrite F3 by discriminate. exact H02.
    + unfold is_dir. rewrite F3, F2 by discriminate. exact Hmod1.
    + unfold is_file. rewrite Ha3. reflexivity.
Qed.
