(* PV.C16.Check — comparison run inside Coq by the correspondence check.
   A case = workload w1 run on the real code (crashed before event k, event k possibly torn),
   the directory tree found afterwards, a second workload w2 (fresh objects: recovery reads and
   further stores) with its events, outcomes, returned values and final tree.
   Tags 1..9: the model disagrees with the observation (correspondence).
   Tags 11..19: the PROPERTY evaluated on the implementation's own observations (oracle).
   Tags >= 200: guard facts of the case.  Tags >= 1000: a sub-check was inconclusive. *)
From Coq Require Import List Bool NArith Arith.
From PV Require Import C16.Model.
Import ListNotations.
Local Open Scope nat_scope.

(* observed tree node *)
Inductive onode :=
| ODir
| OText (c : content) (torn : bool)      (* a text file with its code points *)
| OBlob (id : N) (torn : bool)           (* a file written by pharmpy's writers: identity of its bytes *)
| OLink (t : path).

(* observed outcome of a workload item *)
Inductive oout :=
| OOk
| OErr (e : err)
| OErrOther            (* an exception class the model has no name for *)
| OCut.                (* the process died inside this item, or before it *)

(* observed value returned by a retrieval item *)
Inductive oval :=
| VNone
| VEntry (h : option N)      (* which known dataset the retrieved model carries *)
         (n : N)             (* dataN.csv it is linked to (0: another path) *)
         (has_res : bool) (desc : str)
         (eqkeys : list N)   (* keys of the stored models (of that name / key) the retrieved entry is
                                equivalent to: parameters, statements, random variables, datainfo,
                                dataset, name, results *)
| VStr (s : str)
| VLog (cells : list cell)
| VLogTyped
| VRes (id : N).              (* the tool results read back *)                 (* read_csv converted the message column to numbers / booleans *)

(* expectation attached to a retrieval item of w2: which stored model it should be *)
Record case := mkCase {
  c_w1 : list witem;
  c_k : option nat;                       (* crash before event k of w1 (None: w1 ran to its end) *)
  c_torn : option nat;                    (* event k interrupted after j units *)
  c_w2 : list witem;
  c_ev1 : list op;                        (* observed events of w1 up to the crash (write contents not observed) *)
  c_out1 : list oout;
  c_tree1 : list (path * onode);
  c_ev2 : list op;
  c_out2 : list oout;
  c_val2 : list oval;
  c_tree2 : list (path * onode);
  c_expect2 : list (option mdl);          (* for WRetrieve / WDbRetrieve items of w2: the model stored under that name / key *)
  c_n2 : list nat                         (* number of observed events of every item of w2 *)
}.

Definition tag (b : bool) (t : nat) : list nat := if b then [] else [t].

(* ---- events ---------------------------------------------------------------------------- *)
Definition op_shape_eqb (a b : op) : bool :=
  match a, b with
  | Mkdir p, Mkdir q | Utime p, Utime q | OpenC p, OpenC q | OpenX p, OpenX q | OpenL p, OpenL q
  | OpenR p, OpenR q | OpenW p _, OpenW q _ | OpenA p _, OpenA q _ | Listdir p, Listdir q
  | Remove p, Remove q => path_eqb p q
  | Symlink t p, Symlink u q | Rename t p, Rename u q => path_eqb t u && path_eqb p q
  | _, _ => false
  end.

(* ---- trees ----------------------------------------------------------------------------- *)
Definition is_blob (c : content) : bool :=
  match c with t :: _ => N.leb 3000000 t | [] => false end.

Definition content_eqb : content -> content -> bool := list_eqb N.eqb.

(* kind / text content of one observed entry against the model's file system *)
Definition node_agree (m : option node) (o : onode) : bool :=
  match m, o with
  | Some Dir, ODir => true
  | Some (Link t), OLink u => path_eqb t u
  | Some (File c), OText d false => negb (is_blob c) && content_eqb c d
  | Some (Torn c), OText d true => content_eqb c d
  | Some (File c), OBlob _ false => is_blob c
  | Some (Torn _), OBlob _ true => true
  | _, _ => false
  end.

Definition blob_pairs (f : fs) (t : list (path * onode)) : list (content * N) :=
  flat_map (fun e => match lookup f (fst e), snd e with
                     | Some (File c), OBlob i false => [(c, i)]
                     | _, _ => []
                     end) t.

(* same model blob <-> same bytes *)
Definition pairs_bijective (l : list (content * N)) : bool :=
  forallb (fun a => forallb (fun b => Bool.eqb (content_eqb (fst a) (fst b)) (N.eqb (snd a) (snd b))) l) l.

Fixpoint nodup_paths (l : list path) : bool :=
  match l with [] => true | p :: tl => negb (existsb (path_eqb p) tl) && nodup_paths tl end.

Definition tree_agree (f : fs) (t : list (path * onode)) : bool :=
  Nat.eqb (length f) (length t) && nodup_paths (map fst t) && nodup_paths (map fst f)
  && forallb (fun e => node_agree (lookup f (fst e)) (snd e)) t
  && pairs_bijective (blob_pairs f t).

(* ---- outcomes -------------------------------------------------------------------------- *)
Definition err_eqb (a b : err) : bool :=
  match a, b with
  | EPending, EPending | EKeyError, EKeyError | EFileNotFound, EFileNotFound
  | EStopIteration, EStopIteration | EFileExists, EFileExists | ECorrupt, ECorrupt
  | EIndexError, EIndexError => true
  | _, _ => false
  end.

Definition out_agree {A} (m : err + A) (o : oout) : bool :=
  match m, o with
  | inr _, OOk => true
  | inl e, OErr e' => err_eqb e e'
  | _, _ => false
  end.

(* values: re-run the retrieval programs of the model *)
Inductive mval := MNone | MEntry (h n : N) (has_res : bool) (desc : option str) | MStr (s : str) | MLog (l : logres) | MRes (id : N).

Definition item_val (i : witem) (f : fs) : mval :=
  match i with
  | WRetrieve name =>
      match snd (ctx_retrieve name f) with
      | inr (_, h, n, r, a) => MEntry h n (match r with Some _ => true | None => false end) (Some a)
      | inl _ => MNone
      end
  | WDbRetrieve K =>
      match snd (db_retrieve_model K f) with
      | inr (_, h, n) => MEntry h n false None
      | inl _ => MNone
      end
  | WGetAnnot name =>
      match snd (retrieve_annotation name f) with inr a => MStr a | inl _ => MNone end
  | WGetLog =>
      match snd (retrieve_log f) with inr l => MLog l | inl _ => MNone end
  | WSubRetrieve s name =>
      match snd (sub_retrieve s name f) with
      | inr (_, h, n, r, a) => MEntry h n (match r with Some _ => true | None => false end) (Some a)
      | inl _ => MNone
      end
  | WGetResults c => match snd (retrieve_results c f) with inr id => MRes id | inl _ => MNone end
  | _ => MNone
  end.

Definition cell_eqb (a b : cell) : bool :=
  match a, b with CStr x, CStr y => str_eqb x y | CNaN, CNaN => true | _, _ => false end.

(* 0 agree, 1 disagree, 2 inconclusive *)
Definition val_agree (m : mval) (o : oval) : nat :=
  match m, o with
  | MNone, VNone => 0
  | MEntry h n r d, VEntry (Some h') n' r' d' _ =>
      if (N.eqb n 0 || N.eqb h h') && N.eqb n n' && Bool.eqb r (r' && r)   (* a db-level read does not look at results *)
         && match d with Some a => str_eqb a d' | None => true end then 0 else 1
  | MEntry _ _ _ _, VEntry None _ _ _ _ => 1
  | MStr a, VStr b => if str_eqb a b then 0 else 1
  | MRes a, VRes b => if N.eqb a b then 0 else 1
  | MLog (LCells l), VLog l' => if list_eqb cell_eqb l l' then 0 else 1
  | _, _ => 1
  end.

Fixpoint vals (w : list witem) (f : fs) : list mval :=
  match w with
  | [] => []
  | i :: w' => item_val i f :: vals w' (run_ops (item_ops i f) f)
  end.

Fixpoint zip3 {A B C} (a : list A) (b : list B) (c : list C) : list (A * B * C) :=
  match a, b, c with x :: a', y :: b', z :: c' => (x, y, z) :: zip3 a' b' c' | _, _, _ => [] end.

(* ---- the model's side of the case ------------------------------------------------------- *)
Definition k_of (c : case) : nat := match c_k c with Some k => k | None => length (trace (c_w1 c) []) end.
Definition f1_of (c : case) : fs := crash_w [] (c_w1 c) (k_of c) (c_torn c).
Definition ops1_of (c : case) : list op :=
  firstn (match c_torn c with Some _ => S (k_of c) | None => k_of c end) (trace (c_w1 c) []).

(* items of w1 completed before the crash, by the model's own account: number of events of the
   prefix of items is <= k *)
Fixpoint out1_model (w : list witem) (f : fs) (k : nat) : list (option (err + unit)) :=
  match w with
  | [] => []
  | i :: w' =>
      let ops := item_ops i f in
      if Nat.leb (length ops) k
      then Some (item_res i f) :: out1_model w' (run_ops ops f) (k - length ops)
      else map (fun _ => None) w
  end.

Definition out1_agree (m : option (err + unit)) (o : oout) : bool :=
  match m, o with
  | None, OCut => true
  | Some r, _ => out_agree r o
  | _, _ => false
  end.

Definition check_corr (c : case) : list nat :=
  let f1 := f1_of c in
  tag (list_eqb op_shape_eqb (ops1_of c) (c_ev1 c)) 1
  ++ tag (tree_agree f1 (c_tree1 c)) 2
  ++ tag (list_eqb op_shape_eqb (trace (c_w2 c) f1) (c_ev2 c)) 3
  ++ tag (Nat.eqb (length (c_out2 c)) (length (c_w2 c))
          && forallb (fun p => out_agree (fst p) (snd p)) (combine (results (c_w2 c) f1) (c_out2 c))) 4
  ++ tag (tree_agree (run (c_w2 c) f1) (c_tree2 c)) 5
  ++ (match c_k c, c_torn c with
      | _, Some _ => []      (* a torn crash cuts inside an item: outcomes of w1 are compared without it below *)
      | _, None => tag (Nat.eqb (length (c_out1 c)) (length (c_w1 c))
                        && forallb (fun p => out1_agree (fst p) (snd p))
                                   (combine (out1_model (c_w1 c) [] (k_of c)) (c_out1 c))) 6
      end)
  ++ (let vs := map (fun p => val_agree (fst p) (snd p)) (combine (vals (c_w2 c) f1) (c_val2 c)) in
      tag (negb (existsb (Nat.eqb 1) vs)) 7 ++ (if existsb (Nat.eqb 2) vs then [1007] else [])).

(* ---- the property, evaluated on the implementation's observations ------------------------ *)
(* a key is committed, by the implementation's own account, when the removal of its PENDING marker
   is among the observed events ([committed_in] of Model.v applied to OBSERVED events) *)
Definition has_path (t : list (path * onode)) (p : path) : bool := existsb (fun e => path_eqb p (fst e)) t.

(* items of w1 the implementation completed without raising *)
Fixpoint completed_items (w : list witem) (o : list oout) : list witem :=
  match w, o with
  | i :: w', OOk :: o' => i :: completed_items w' o'
  | _ :: w', _ :: o' => completed_items w' o'
  | _, _ => []
  end.

Definition stored_name (i : witem) (name : str) : option mdl :=
  match i with WStore m => if str_eqb (m_name m) name then Some m else None | _ => None end.
Definition stored_key (i : witem) (K : N) : bool :=
  match i with WStore m | WDbStore m => N.eqb (m_key m) K | _ => false end.

(* expected annotation of a name: the last completed WStore / WAnnot for it *)
Definition expected_annot (done : list witem) (name : str) : option str :=
  fold_left (fun acc i => match i with
                          | WStore m => if str_eqb (m_name m) name then Some (m_desc m) else acc
                          | WAnnot n a => if str_eqb n name then Some a else acc
                          | _ => acc end) done None.
Definition expected_log (done : list witem) : list str :=
  flat_map (fun i => match i with WLog _ _ _ msg => [msg] | _ => [] end) done.

Definition option_str_eqb (a b : option str) : bool :=
  match a, b with Some x, Some y => str_eqb x y | None, None => true | _, _ => false end.

Fixpoint res_candidates (cx : option str) (w : list witem) (o : list oout) (acc : option (list N)) : option (list N) :=
  match w, o with
  | WResults cx' id :: w', OOk :: o' =>
      res_candidates cx w' o' (if option_str_eqb cx' cx then Some [id] else acc)
  | WResults cx' id :: w', _ :: o' =>
      res_candidates cx w' o' (if option_str_eqb cx' cx then option_map (fun l => id :: l) acc else acc)
  | _ :: w', _ :: o' => res_candidates cx w' o' acc
  | _, _ => acc
  end.

(* the oracle on one recovery item; [evs] = all events observed before the item started *)
Definition oracle_item (c : case) (done : list witem) (evs : list op) (i : witem) (o : oout) (v : oval) : list nat :=
  match i with
  | WRetrieve name =>
      let stored := existsb (fun j => match stored_name j name with Some _ => true | None => false end) done in
      match o, v with
      | OOk, VEntry _ _ _ d eqk =>
          (* a reader got an entry: it must be committed, equivalent to the model stored LAST under that
             name, and carry the description stored last *)
          match fold_left (fun acc j => match stored_name j name with Some m => Some m | None => acc end)
                          done
                          (fold_left (fun acc j => match stored_name j name with Some m => Some m | None => acc end)
                                     (c_w1 c ++ c_w2 c) None) with
          | Some m => tag (committed_in evs (m_key m)) 11 ++ tag (existsb (N.eqb (m_key m)) eqk) 12
          | None => [11]
          end
          ++ match expected_annot done name with Some a => tag (str_eqb a d) 12 | None => [] end
      | _, _ => tag (negb stored) 13     (* stored successfully, yet not retrievable after the restart *)
      end
  | WDbRetrieve K =>
      let stored := existsb (fun j => stored_key j K) done in
      match o, v with
      | OOk, VEntry _ _ _ _ eqk => tag (committed_in evs K) 11 ++ tag (existsb (N.eqb K) eqk) 12
      | _, _ => tag (negb stored) 13
      end
  | WStore m | WDbStore m =>
      (* further stores of keys without a PENDING marker after the restart must succeed *)
      match o with
      | OOk => []
      | _ => tag (has_path (c_tree1 c) (pending (m_key m))) 14
      end
  | WGetAnnot name =>
      match expected_annot done name with
      | Some a => match o, v with OOk, VStr b => tag (str_eqb a b) 16 | _, _ => [16] end
      | None => []
      end
  | WGetLog =>
      match o, v with
      | OOk, VLog cells => tag (list_eqb cell_eqb (map CStr (expected_log done)) cells) 17
      | _, _ => [17]
      end
  | WSubRetrieve s name =>
      (* the name layer of a subcontext: like WRetrieve, against the stores made through that subcontext *)
      let sub_stored := fun j => match j with WSubStore s' m => if str_eqb s' s && str_eqb (m_name m) name then Some m else None | _ => None end in
      let last := fun l => fold_left (fun acc j => match sub_stored j with Some m => Some m | None => acc end) l None in
      match o, v with
      | OOk, VEntry _ _ _ d eqk =>
          match last done, last (c_w1 c ++ c_w2 c) with
          | Some m, _ | None, Some m =>
              tag (committed_in evs (m_key m)) 11 ++ tag (existsb (N.eqb (m_key m)) eqk) 12 ++ tag (str_eqb (m_desc m) d) 12
          | None, None => [11]
          end
      | _, _ => tag (match last done with Some _ => false | None => true end) 13
      end
  | WGetResults cx =>
      (* tool results stored successfully are read back: the last completed store_results of that context,
         or one that was in progress after it when the process died *)
      match res_candidates cx (c_w1 c) (c_out1 c) None with
      | Some ids => match o, v with OOk, VRes id' => tag (existsb (N.eqb id') ids) 18 | _, _ => [18] end
      | None => []
      end
  | _ => []
  end.

Fixpoint oracle_items (c : case) (done : list witem) (evs rest : list op)
         (w : list witem) (os : list oout) (vs : list oval) (ns : list nat) : list nat :=
  match w, os, vs, ns with
  | i :: w', o :: os', v :: vs', n :: ns' =>
      oracle_item c done evs i o v
      ++ oracle_items c (match o with OOk => done ++ [i] | _ => done end)
                      (evs ++ firstn n rest) (skipn n rest) w' os' vs' ns'
  | _, _, _, _ => []
  end.

Definition check_oracle (c : case) : list nat :=
  oracle_items c (completed_items (c_w1 c) (c_out1 c)) (c_ev1 c) (c_ev2 c)
               (c_w2 c) (c_out2 c) (c_val2 c) (c_n2 c).

(* ---- guard facts ------------------------------------------------------------------------ *)
Definition annot_guard (w : list witem) : bool :=
  forallb (fun i => match i with
                    | WStore m => name_ok (m_name m)
                    | WAnnot n a => name_ok n
                    | _ => true end) w.

(* the crash state has a PENDING marker on a key whose model file is complete: the crash hit a
   transaction on a key that was already committed *)
Definition retransact_crash (f : fs) (c : case) : bool :=
  existsb (fun i => match i with
                    | WStore m | WDbStore m | WMeta m _ =>
                        exists_ f (pending (m_key m)) && committed_in (ops1_of c) (m_key m)
                    | _ => false end) (c_w1 c).

(* two models with the same dataset but different DataInfo *)
Definition mdls_of (w : list witem) : list mdl :=
  flat_map (fun i => match i with WStore m | WDbStore m | WMeta m _ => [m] | _ => [] end) w.
Definition di_guard (w : list witem) : bool :=
  let ms := mdls_of w in
  forallb (fun a => forallb (fun b => negb (N.eqb (m_dh a) (m_dh b)) || N.eqb (m_di a) (m_di b)) ms) ms.

(* a name is used for two different keys *)
Definition rebind_guard (w : list witem) : bool :=
  let ms := flat_map (fun i => match i with WStore m => [m] | _ => [] end) w in
  forallb (fun a => forallb (fun b => negb (str_eqb (m_name a) (m_name b)) || N.eqb (m_key a) (m_key b)) ms) ms.

Definition torn_on (c : case) (p : path) : bool :=
  match c_torn c, nth_error (trace (c_w1 c) []) (k_of c) with
  | Some _, Some (OpenW q _) | Some _, Some (OpenA q _) => path_eqb p q
  | _, _ => false
  end.

(* the interrupted write is a context's results.json *)
Definition torn_results (c : case) : bool :=
  match c_torn c, nth_error (trace (c_w1 c) []) (k_of c) with
  | Some _, Some (OpenW q _) => match rev q with CResJson :: _ => true | _ => false end
  | _, _ => false
  end.

Definition guard_tags (c : case) : list nat :=
  let f1 := f1_of c in
  tag (annot_guard (c_w1 c ++ c_w2 c)) 201
  ++ tag (log_guard (expected_log (completed_items (c_w1 c) (c_out1 c)))) 202
  ++ tag (negb (retransact_crash f1 c)) 204
  ++ tag (negb (torn_on c log_path)) 206
  ++ tag (di_guard (c_w1 c ++ c_w2 c)) 207
  ++ tag (rebind_guard (c_w1 c ++ c_w2 c)) 208
  ++ tag (negb (torn_results c)) 209.

Definition verdict (c : case) : list nat := check_corr c ++ check_oracle c ++ guard_tags c.

(* ---- two concurrent writers: the final tree against the two serial orders --------------------- *)
Record ccase := mkCC {
  cc_pre : list witem;                    (* run first, by one process *)
  cc_a : list witem;                      (* writer A *)
  cc_b : list witem;                      (* writer B, concurrently *)
  cc_tree : list (path * onode);          (* the tree after both finished *)
  cc_ok : bool                            (* every item of both writers returned without an exception *)
}.
Definition in_db (p : path) : bool := match p with CDb :: _ => true | _ => false end.
Definition part_agree (P : path -> bool) (f : fs) (t : list (path * onode)) : bool :=
  tree_agree (filter (fun e => P (fst e)) f) (filter (fun e => P (fst e)) t).
(* 21: the model database is that of neither serial order; 22: the context files (name links, annotations —
   they are written under their own lock after the transaction) are those of neither serial order;
   23: a writer raised *)
Definition cverdict (c : ccase) : list nat :=
  let fa := run (cc_pre c ++ cc_a c ++ cc_b c) [] in
  let fb := run (cc_pre c ++ cc_b c ++ cc_a c) [] in
  tag (part_agree in_db fa (cc_tree c) || part_agree in_db fb (cc_tree c)) 21
  ++ tag (part_agree (fun p => negb (in_db p)) fa (cc_tree c) || part_agree (fun p => negb (in_db p)) fb (cc_tree c)) 22
  ++ tag (cc_ok c) 23.
