(* PV.C16.Model — executable model of the on-disk protocol of
     pharmpy.workflows.model_database.local_directory.LocalModelDirectoryDatabase
       (transaction / snapshot / store_model / store_modelfit_results / store_metadata / retrieve_model ...)
     pharmpy.workflows.contexts.local_directory.LocalDirectoryContext
       (__init__, store_key, retrieve_key, store_annotation, retrieve_annotation, store_message,
        retrieve_log) and Context._store_model / _retrieve_me (contexts/baseclass.py)
   over an abstract file system, as programs that emit the same sequence of file-system events the
   CPython audit hook reports for the real code (os.mkdir, os.utime, open, os.listdir, os.remove,
   os.symlink; the hook fires BEFORE the operation, so "the first k events" is a crash point).
   Codecs: the annotations file (lines `name SP text NL`, read with universal newlines) and the log
   CSV (quote doubling; the pandas C tokenizer's state machine; NA/type inference of read_csv).
   No proofs in this file. *)
From Coq Require Import List Bool NArith Arith Lia.
Import ListNotations.
Local Open Scope nat_scope.

(* ------------------------------------------------------------------------------------------ *)
(* strings = lists of code points                                                              *)
Definition str := list N.

Fixpoint list_eqb {A} (eqb : A -> A -> bool) (a b : list A) : bool :=
  match a, b with
  | [], [] => true
  | x :: a', y :: b' => eqb x y && list_eqb eqb a' b'
  | _, _ => false
  end.
Definition str_eqb : str -> str -> bool := list_eqb N.eqb.

Definition LF : N := 10%N.  Definition CR : N := 13%N.  Definition SP : N := 32%N.
Definition DQ : N := 34%N.  Definition COMMA : N := 44%N.

(* ------------------------------------------------------------------------------------------ *)
(* paths relative to the context directory                                                     *)
Inductive comp :=
| CDb | CDatasets | CHash | CPharmpy | CPending | CLock | CModels | CAnnot | CAnnotLock | CAnnotTmp
| CLog | CLogLock | CSub | CCommon | CModelFile | CResults | CMetadata | CResJson | CResCsv
| CCsv (n : N)        (* dataN.csv  (in .datasets and, as index entry, in .datasets/.hash/<h>) *)
| CDi (n : N)         (* dataN.datainfo *)
| CKey (k : N)        (* <ModelHash> directory *)
| CDh (h : N)         (* <dataset hash> directory *)
| CName (s : str)     (* models/<name> symlink *)
| COther (s : str).

Definition comp_eqb (a b : comp) : bool :=
  match a, b with
  | CDb, CDb | CDatasets, CDatasets | CHash, CHash | CPharmpy, CPharmpy | CPending, CPending
  | CLock, CLock | CModels, CModels | CAnnot, CAnnot | CAnnotLock, CAnnotLock | CAnnotTmp, CAnnotTmp | CLog, CLog
  | CLogLock, CLogLock | CSub, CSub | CCommon, CCommon | CModelFile, CModelFile
  | CResults, CResults | CMetadata, CMetadata | CResJson, CResJson | CResCsv, CResCsv => true
  | CCsv x, CCsv y | CDi x, CDi y | CKey x, CKey y | CDh x, CDh y => N.eqb x y
  | CName x, CName y | COther x, COther y => str_eqb x y
  | _, _ => false
  end.

Definition path := list comp.
Definition path_eqb : path -> path -> bool := list_eqb comp_eqb.

(* ------------------------------------------------------------------------------------------ *)
(* file contents.  Text files (annotations, log.csv, common_options) carry their code points;
   files whose bytes are produced by pharmpy's model / dataset / results writers are blobs
   [tag; ...] with tags outside the code point range. *)
Definition content := list N.
Definition T_MODEL : N := 3000001%N.   (* [T_MODEL; key; dataset hash; n]  model.ctl with $DATA ../.datasets/data<n>.csv
                                          (n = 0: the model's original dataset path) *)
Definition T_CSV : N := 3000002%N.     (* [T_CSV; dataset hash] *)
Definition T_DI : N := 3000003%N.      (* [T_DI; datainfo id; n]  datainfo JSON with path data<n>.csv *)
Definition T_RES : N := 3000004%N.     (* [T_RES; results id] *)
Definition T_META : N := 3000005%N.    (* [T_META; id] *)
Definition T_TRES : N := 3000006%N.    (* [T_TRES; id]  tool results json of a context *)
Definition T_TCSV : N := 3000007%N.    (* [T_TCSV; id]  tool results csv of a context *)

(* [Torn c]: the file holds c, and c is what an interrupted write left behind (a strict prefix of
   the intended content, or old content plus a prefix for an append).  Readers cannot see the
   difference between File and Torn — the marker is ghost state used in the theorem statements. *)
Inductive node := Dir | File (c : content) | Torn (c : content) | Link (t : path).

Definition fs := list (path * node).

Fixpoint lookup (f : fs) (p : path) : option node :=
  match f with
  | [] => None
  | (q, n) :: tl => if path_eqb p q then Some n else lookup tl p
  end.
Definition remove (f : fs) (p : path) : fs := filter (fun e => negb (path_eqb p (fst e))) f.
Definition set (f : fs) (p : path) (n : node) : fs := (p, n) :: remove f p.

Definition exists_ (f : fs) (p : path) : bool := match lookup f p with Some _ => true | None => false end.
Definition is_dir (f : fs) (p : path) : bool := match lookup f p with Some Dir => true | _ => false end.
Definition is_file (f : fs) (p : path) : bool :=
  match lookup f p with Some (File _) | Some (Torn _) => true | _ => false end.
Definition parent_ok (f : fs) (p : path) : bool :=
  match p with [] => true (* the directory that holds the context exists *) | _ => is_dir f (removelast p) end.
Definition read_node (n : option node) : option content :=
  match n with Some (File c) | Some (Torn c) => Some c | _ => None end.

Fixpoint strip_prefix (d p : path) : option path :=
  match d, p with
  | [], _ => Some p
  | x :: d', y :: p' => if comp_eqb x y then strip_prefix d' p' else None
  | _ :: _, [] => None
  end.
(* names of the entries of directory d *)
Definition children (f : fs) (d : path) : list comp :=
  flat_map (fun e => match strip_prefix d (fst e) with Some [c] => [c] | _ => [] end) f.

(* ------------------------------------------------------------------------------------------ *)
(* audit events = atomic file-system operations                                                *)
Inductive op :=
| Mkdir (p : path)                 (* os.mkdir *)
| Utime (p : path)                 (* os.utime (Path.touch tries this first) *)
| OpenC (p : path)                 (* open O_CREAT|O_WRONLY (touch creating the file) *)
| OpenX (p : path)                 (* open O_CREAT|O_EXCL|O_WRONLY (touch(exist_ok=False)) *)
| OpenL (p : path)                 (* open O_RDWR of a lock file (path_lock) *)
| OpenR (p : path)                 (* open for reading *)
| OpenW (p : path) (c : content)   (* open(.., 'w'): truncate, write c, close *)
| OpenA (p : path) (c : content)   (* open(.., 'a'): append c, close *)
| Listdir (p : path)               (* os.listdir / os.scandir (Path.iterdir) *)
| Remove (p : path)                (* os.remove (Path.unlink) *)
| Symlink (t : path) (p : path)    (* os.symlink(target, p); target resolved against the context dir *)
| Rename (s : path) (d : path).    (* os.rename / os.replace(s, d): atomic *)

Definition can_write (f : fs) (p : path) : bool :=
  match lookup f p with
  | Some Dir | Some (Link _) => false
  | _ => parent_ok f p
  end.

Definition apply_op (o : op) (f : fs) : fs :=
  match o with
  | Mkdir p => if parent_ok f p && negb (exists_ f p) then set f p Dir else f
  | OpenC p => if parent_ok f p && negb (exists_ f p) then set f p (File []) else f
  | OpenX p => if parent_ok f p && negb (exists_ f p) then set f p (File []) else f
  | OpenW p c => if can_write f p then set f p (File c) else f
  | OpenA p c =>
      if can_write f p then
        match lookup f p with
        | Some (File c0) => set f p (File (c0 ++ c))
        | Some (Torn c0) => set f p (Torn (c0 ++ c))
        | _ => set f p (File c)
        end
      else f
  | Remove p => match lookup f p with Some (File _) | Some (Torn _) | Some (Link _) => remove f p | _ => f end
  | Symlink t p => if parent_ok f p && negb (exists_ f p) then set f p (Link t) else f
  | Rename s d =>
      match lookup f s with
      | Some (File c) => if can_write f d then set (remove f s) d (File c) else f
      | Some (Torn c) => if can_write f d then set (remove f s) d (Torn c) else f
      | _ => f
      end
  | Utime _ | OpenL _ | OpenR _ | Listdir _ => f
  end.

(* the operation is interrupted after j units of its content were written *)
Definition tear_op (o : op) (j : nat) (f : fs) : fs :=
  match o with
  | OpenW p c => if can_write f p then set f p (Torn (firstn j c)) else f
  | OpenA p c =>
      if can_write f p then
        match lookup f p with
        | Some (File c0) | Some (Torn c0) => set f p (Torn (c0 ++ firstn j c))
        | _ => set f p (Torn (firstn j c))
        end
      else f
  | _ => f     (* every other operation is atomic: interrupted = not happened *)
  end.

Definition run_ops (ops : list op) (f : fs) : fs := fold_left (fun f o => apply_op o f) ops f.

(* crash: the first k operations happened; with [Some j] operation k was interrupted after j units *)
Definition crash (f0 : fs) (ops : list op) (k : nat) (torn : option nat) : fs :=
  let f := run_ops (firstn k ops) f0 in
  match torn, nth_error ops k with
  | Some j, Some o => tear_op o j f
  | _, _ => f
  end.

(* ------------------------------------------------------------------------------------------ *)
(* programs: state (the file system) + emitted events + Python exception                      *)
Inductive err :=
| EPending          (* PendingTransactionError *)
| EKeyError
| EFileNotFound
| EStopIteration
| EFileExists
| ECorrupt          (* JSONDecodeError / parse error on a damaged file *)
| EIndexError.

Definition M (A : Type) : Type := fs -> list op * (err + A).

Definition ret {A} (a : A) : M A := fun _ => ([], inr a).
Definition fail {A} (e : err) : M A := fun _ => ([], inl e).
Definition get : M fs := fun f => ([], inr f).
Definition emit (o : op) : M unit := fun _ => ([o], inr tt).
Definition bind {A B} (m : M A) (k : A -> M B) : M B :=
  fun f =>
    let '(ops, r) := m f in
    match r with
    | inl e => (ops, inl e)
    | inr a => let '(ops2, r2) := k a (run_ops ops f) in (ops ++ ops2, r2)
    end.
Notation "x <- m ;; k" := (bind m (fun x => k)) (at level 61, m at next level, right associativity).
Notation "m ;; k" := (bind m (fun _ => k)) (at level 61, right associativity).

(* os.mkdir via Path.mkdir(exist_ok=..) without parents *)
Definition mkdir1 (p : path) (exist_ok : bool) : M unit :=
  f <- get ;; emit (Mkdir p) ;;
  if exists_ f p then (if exist_ok && is_dir f p then ret tt else fail EFileExists)
  else if parent_ok f p then ret tt else fail EFileNotFound.

(* Path.mkdir(parents=True, exist_ok=True): try, on FileNotFoundError make the parent, try again *)
Fixpoint mkdir_p_aux (fuel : nat) (p : path) : M unit :=
  f <- get ;; emit (Mkdir p) ;;
  if exists_ f p then (if is_dir f p then ret tt else fail EFileExists)
  else if parent_ok f p then ret tt
  else match fuel with
       | 0 => fail EFileNotFound
       | S fuel' => mkdir_p_aux fuel' (removelast p) ;; mkdir1 p true
       end.
Definition mkdir_p (p : path) : M unit := mkdir_p_aux (length p) p.

(* Path.touch(exist_ok=True) *)
Definition touch (p : path) : M unit :=
  f <- get ;; emit (Utime p) ;;
  if exists_ f p then ret tt
  else (emit (OpenC p) ;; if parent_ok f p then ret tt else fail EFileNotFound).

(* Path.touch(exist_ok=False) on the PENDING marker *)
Definition touch_excl (p : path) : M unit :=
  f <- get ;; emit (OpenX p) ;;
  if exists_ f p then fail EPending
  else if parent_ok f p then ret tt else fail EFileNotFound.

(* _read_lock / _write_lock: touch the lock file, path_lock opens it O_RDWR *)
Definition lock (p : path) : M unit := touch p ;; emit (OpenL p).

Definition write_file (p : path) (c : content) : M unit :=
  f <- get ;; emit (OpenW p c) ;; if can_write f p then ret tt else fail EFileNotFound.
Definition append_file (p : path) (c : content) : M unit :=
  f <- get ;; emit (OpenA p c) ;; if can_write f p then ret tt else fail EFileNotFound.
Definition read_file (p : path) : M content :=
  f <- get ;; emit (OpenR p) ;;
  match read_node (lookup f p) with Some c => ret c | None => fail EFileNotFound end.
Definition rename_file (s d : path) : M unit :=
  f <- get ;; emit (Rename s d) ;;
  if is_file f s && can_write f d then ret tt else fail EFileNotFound.
Definition remove_file (p : path) : M unit :=
  f <- get ;; emit (Remove p) ;;
  match lookup f p with Some (File _) | Some (Torn _) | Some (Link _) => ret tt | _ => fail EFileNotFound end.

(* ------------------------------------------------------------------------------------------ *)
(* LocalModelDirectoryDatabase                                                                 *)
Definition key_dir (K : N) : path := [CDb; CKey K].
Definition meta_dir (K : N) : path := [CDb; CKey K; CPharmpy].
Definition pending (K : N) : path := [CDb; CKey K; CPharmpy; CPending].
Definition model_file (K : N) : path := [CDb; CKey K; CModelFile].
Definition results_file (K : N) : path := [CDb; CKey K; CPharmpy; CResults].
Definition metadata_file (K : N) : path := [CDb; CKey K; CPharmpy; CMetadata].
Definition db_lock : path := [CDb; CLock].
Definition ds_dir : path := [CDb; CDatasets].
Definition hash_dir : path := [CDb; CDatasets; CHash].
Definition hdir (h : N) : path := [CDb; CDatasets; CHash; CDh h].
Definition hidx (h n : N) : path := [CDb; CDatasets; CHash; CDh h; CCsv n].
Definition csv (n : N) : path := [CDb; CDatasets; CCsv n].
Definition dinfo (n : N) : path := [CDb; CDatasets; CDi n].

Record mdl := mkMdl {
  m_key : N;            (* ModelHash (of model code without name/description, dataset, datainfo without path) *)
  m_dh : N;             (* key.dataset_hash *)
  m_di : N;             (* identity of model.datainfo up to its path (DataInfo.__eq__ ignores the path) *)
  m_name : str;
  m_desc : str;
  m_res : option N      (* modelfit results attached to the entry *)
}.

(* with database.transaction(obj) as txn: body *)
Definition transaction {A} (K : N) (body : M A) : M A :=
  mkdir_p (meta_dir K) ;;
  lock db_lock ;;
  touch_excl (pending K) ;;
  a <- body ;;
  remove_file (pending K) ;;    (* commit: only reached when the body raised nothing *)
  ret a.

(* highest N with dataN.csv in .datasets *)
Definition highest (f : fs) : N :=
  fold_left (fun acc c => match c with CCsv n => N.max acc n | _ => acc end) (children f ds_dir) 0%N.

(* the dataset part of store_model.  An index directory without entry is what an interrupted store
   leaves behind and counts as "not indexed"; the index entry is created LAST, after the csv and the
   datainfo (commit b547698). *)
Definition store_dataset (m : mdl) (f : fs) : M N :=
  let h := m_dh m in
  let create : M N :=
    mkdir_p (hdir h) ;;
    f1 <- get ;; emit (Listdir ds_dir) ;;
    let n := (highest f1 + 1)%N in
    write_file (csv n) [T_CSV; h] ;;
    write_file (dinfo n) [T_DI; m_di m; n] ;;
    touch (hidx h n) ;;
    ret n in
  if is_dir f (hdir h) then
    emit (Listdir (hdir h)) ;;                                  (* next(h_dir.iterdir(), None) *)
    match children f (hdir h) with
    | [] => create
    | CCsv n :: _ =>
        dc <- read_file (dinfo n) ;;                            (* DataInfo.read_json(dipath) *)
        match dc with
        | [t; di; n'] =>
            if N.eqb t T_DI then ret (if N.eqb di (m_di m) then n' else 0%N)
            else fail ECorrupt
        | _ => fail ECorrupt
        end
    | _ :: _ => fail ECorrupt
    end
  else create.

(* LocalModelDirectoryDatabaseTransaction.store_model *)
Definition store_model (m : mdl) : M unit :=
  let K := m_key m in let h := m_dh m in
  f <- get ;;
  if is_file f (model_file K) then ret tt else
  link <- store_dataset m f ;;
  mkdir1 (key_dir K) true ;;
  write_file (model_file K) [T_MODEL; K; h; link].

Definition store_modelfit_results (m : mdl) : M unit :=
  mkdir_p (meta_dir (m_key m)) ;;
  match m_res m with Some r => write_file (results_file (m_key m)) [T_RES; r] | None => ret tt end.

Definition store_model_entry (m : mdl) : M unit := store_model m ;; store_modelfit_results m.

Definition db_store_model_entry (m : mdl) : M unit := transaction (m_key m) (store_model_entry m).

Definition db_store_metadata (K : N) (id : N) : M unit :=
  transaction K (mkdir_p (meta_dir K) ;; write_file (metadata_file K) [T_META; id]).

(* with database.snapshot(key): body *)
Definition snapshot {A} (K : N) (body : M A) : M A :=
  mkdir_p (meta_dir K) ;;
  lock db_lock ;;
  f <- get ;;
  if exists_ f (pending K) then fail EPending else body.

(* what a reader obtains for a key: (key written in the model file, dataset hash, dataset file number) *)
Definition parse_model_blob (c : content) : option (N * N * N) :=
  match c with
  | [t; K; h; n] => if N.eqb t T_MODEL then Some (K, h, n) else None
  | _ => None
  end.

(* Model.parse_model(path): reads the model file, then the datainfo (if present) and the dataset.
   Result: (key written in the model file, dataset actually loaded, data file number).  With n = 0
   the model refers to its original dataset path outside the database: the dataset hash of the
   model file is reported, what that path holds today is outside the model. *)
Definition read_model (K : N) : M (N * N * N) :=
  f <- get ;;
  if is_file f (model_file K) then
    c <- read_file (model_file K) ;;
    match parse_model_blob c with
    | Some (K', h, n) =>
        if N.eqb n 0 then ret (K', h, n)
        else
          (if is_file f (dinfo n) then (read_file (dinfo n) ;; ret tt) else ret tt) ;;
          dc <- read_file (csv n) ;;
          match dc with
          | [t; h'] => if N.eqb t T_CSV then ret (K', h', n) else fail ECorrupt
          | _ => fail ECorrupt
          end
    | None => fail ECorrupt
    end
  else fail EKeyError.

(* snapshot.retrieve_model_entry: retrieve_model, retrieve_modelfit_results (parses the model again,
   then results.json when it is a file) *)
Definition retrieve_model_entry (K : N) : M (N * N * N * option content) :=
  e <- read_model K ;;
  read_model K ;;
  f <- get ;;
  if is_file f (results_file K) then (r <- read_file (results_file K) ;; ret (e, Some r))
  else ret (e, None).

Definition db_retrieve_model (K : N) : M (N * N * N) := snapshot K (read_model K).
Definition db_retrieve_model_entry (K : N) := snapshot K (retrieve_model_entry K).

(* ------------------------------------------------------------------------------------------ *)
(* the annotations file                                                                        *)
(* text-mode read: \r\n and \r become \n *)
Fixpoint translate (s : str) : str :=
  match s with
  | [] => []
  | c :: tl =>
      if N.eqb c CR then
        match tl with
        | d :: tl' => if N.eqb d LF then LF :: translate tl' else LF :: translate tl
        | [] => [LF]
        end
      else c :: translate tl
  end.

(* fh.readlines(): lines with their terminator *)
Fixpoint split_lines (s : str) : list str :=
  match s with
  | [] => []
  | c :: tl =>
      if N.eqb c LF then [c] :: split_lines tl
      else match split_lines tl with
           | [] => [[c]]
           | l :: ls => (c :: l) :: ls
           end
  end.

(* line.split(" ", 1) *)
Fixpoint split_sp (l : str) : str * option str :=
  match l with
  | [] => ([], None)
  | c :: tl => if N.eqb c SP then ([], Some tl) else let '(a, r) := split_sp tl in (c :: a, r)
  end.

Definition BS : N := 92%N.   (* backslash *)
(* annotation.replace('\\', '\\\\').replace('\n', '\\n').replace('\r', '\\r')  (commit 81deceb) *)
Definition esc1 (c : N) : str :=
  if N.eqb c BS then [BS; BS] else if N.eqb c LF then [BS; 110%N] else if N.eqb c CR then [BS; 114%N] else [c].
Definition escape (a : str) : str := flat_map esc1 a.
(* re.sub(r'\\(.)', known escapes or the match itself, s): '.' does not match a line feed *)
Fixpoint unescape (s : str) : str :=
  match s with
  | [] => []
  | c :: tl =>
      if N.eqb c BS then
        match tl with
        | d :: tl' =>
            if N.eqb d 110 then LF :: unescape tl'
            else if N.eqb d 114 then CR :: unescape tl'
            else if N.eqb d BS then BS :: unescape tl'
            else if N.eqb d LF then c :: unescape tl
            else c :: d :: unescape tl'
        | [] => [c]
        end
      else c :: unescape tl
  end.

Definition annot_line (name a : str) : str := name ++ [SP] ++ escape a ++ [LF].

Fixpoint annot_replace (lines : list str) (name a : str) : list str * bool :=
  match lines with
  | [] => ([], false)
  | l :: tl =>
      let '(tl', found) := annot_replace tl name a in
      if str_eqb (fst (split_sp l)) name then (annot_line name a :: tl', true) else (l :: tl', found)
  end.

(* LocalDirectoryContext.store_annotation: new content of the file *)
Definition annot_store (file name a : str) : str :=
  let '(ls, found) := annot_replace (split_lines (translate file)) name a in
  concat (if found then ls else ls ++ [annot_line name a]).

Inductive ares := AFound (a : str) | AMissing (* KeyError *) | AIndexError.

Fixpoint annot_find (lines : list str) (name : str) : ares :=
  match lines with
  | [] => AMissing
  | l :: tl =>
      let '(a0, r) := split_sp l in
      if str_eqb a0 name then
        match r with Some rest => AFound (unescape (removelast rest)) (* a[1][:-1] *) | None => AIndexError end
      else annot_find tl name
  end.

(* LocalDirectoryContext.retrieve_annotation *)
Definition annot_retrieve (file name : str) : ares := annot_find (split_lines (translate file)) name.

(* guards of the annotation codec: no line break in the text, no line break or space in the name *)
Definition no_nl (s : str) : bool := negb (existsb (fun ch => N.eqb ch LF || N.eqb ch CR) s).
Definition name_ok (s : str) : bool := negb (existsb (fun ch => N.eqb ch LF || N.eqb ch CR || N.eqb ch SP) s).
(* the file is empty or ends with a line terminator (after newline translation) *)
Fixpoint ends_nlb (s : str) : bool :=
  match s with
  | [] => true
  | c :: tl => match tl with [] => N.eqb c LF | _ => ends_nlb tl end
  end.

(* ------------------------------------------------------------------------------------------ *)
(* the log file                                                                                *)
Definition log_header : str :=   (* "path,time,severity,message\n" *)
  [112;97;116;104;44;116;105;109;101;44;115;101;118;101;114;105;116;121;44;109;101;115;115;97;103;101;10]%N.

Definition mangle (m : str) : str :=
  DQ :: flat_map (fun c => if N.eqb c DQ then [DQ; DQ] else [c]) m ++ [DQ].

Definition log_line (ctxpath date sev msg : str) : str :=
  ctxpath ++ [COMMA] ++ date ++ [COMMA] ++ sev ++ [COMMA] ++ mangle msg ++ [LF].

(* The pandas C tokenizer (tokenizer.c, tokenize_bytes) with the read_csv defaults: delimiter ',',
   quotechar DQ, doublequote, no escapechar, lineterminator \n | \r | \r\n, skip_blank_lines. *)
Inductive cst := StartRecord | StartField | InField | InQuoted | QuoteInQuoted | EatCRNL.

Record cacc := mkAcc { a_cur : str (* reversed *); a_row : list str (* reversed *); a_rows : list (list str) (* reversed *) }.
Definition end_field (a : cacc) : cacc := mkAcc [] (rev (a_cur a) :: a_row a) (a_rows a).
Definition end_line (a : cacc) : cacc := mkAcc [] [] (rev (a_row a) :: a_rows a).
Definition push (c : N) (a : cacc) : cacc := mkAcc (c :: a_cur a) (a_row a) (a_rows a).

Definition start_field_step (c : N) (a : cacc) : cst * cacc :=
  if N.eqb c LF then (StartRecord, end_line (end_field a))
  else if N.eqb c CR then (EatCRNL, end_field a)
  else if N.eqb c DQ then (InQuoted, a)
  else if N.eqb c COMMA then (StartField, end_field a)
  else (InField, push c a).

Definition csv_step (st : cst) (c : N) (a : cacc) : cst * cacc :=
  match st with
  | StartRecord =>
      if N.eqb c LF then (StartRecord, a)                (* blank line skipped *)
      else if N.eqb c CR then (EatCRNL, a)               (* EAT_CRNL_NOP *)
      else start_field_step c a
  | StartField => start_field_step c a
  | InField =>
      if N.eqb c LF then (StartRecord, end_line (end_field a))
      else if N.eqb c CR then (EatCRNL, end_field a)
      else if N.eqb c COMMA then (StartField, end_field a)
      else (InField, push c a)
  | InQuoted =>
      if N.eqb c DQ then (QuoteInQuoted, a) else (InQuoted, push c a)
  | QuoteInQuoted =>
      if N.eqb c DQ then (InQuoted, push c a)
      else if N.eqb c COMMA then (StartField, end_field a)
      else if N.eqb c LF then (StartRecord, end_line (end_field a))
      else if N.eqb c CR then (EatCRNL, end_field a)
      else (InField, push c a)
  | EatCRNL =>
      let a' := match a_row a with [] => a | _ => end_line a end in
      if N.eqb c LF then (StartRecord, a')
      else if N.eqb c CR then (EatCRNL, a')
      else start_field_step c a'
  end.

Fixpoint csv_run (s : str) (st : cst) (a : cacc) : option (list (list str)) :=
  match s with
  | c :: tl => let '(st', a') := csv_step st c a in csv_run tl st' a'
  | [] =>
      match st with
      | InQuoted => None                                  (* "EOF inside string" ParserError *)
      | StartRecord => Some (rev (a_rows a))
      | EatCRNL => Some (rev (a_rows (match a_row a with [] => a | _ => end_line a end)))
      | StartField | InField | QuoteInQuoted => Some (rev (a_rows (end_line (end_field a))))
      end
  end.
Definition csv_parse (s : str) : option (list (list str)) := csv_run s StartRecord (mkAcc [] [] []).

(* a cell as the C parser hands it on: NUL terminated *)
Fixpoint cstr (s : str) : str := match s with [] => [] | c :: tl => if N.eqb c 0 then [] else c :: cstr tl end.

Definition s_ (l : list N) : str := l.
(* pandas' default NA strings (STR_NA_VALUES) *)
Definition na_values : list str :=
  [ [] ;
    [35;78;47;65] ; [35;78;47;65;32;78;47;65] ; [35;78;65] ; [45;49;46;35;73;78;68] ; [45;49;46;35;81;78;65;78] ;
    [45;78;97;78] ; [45;110;97;110] ; [49;46;35;73;78;68] ; [49;46;35;81;78;65;78] ; [60;78;65;62] ;
    [78;47;65] ; [78;65] ; [78;85;76;76] ; [78;97;78] ; [78;111;110;101] ; [110;47;97] ; [110;97;110] ;
    [110;117;108;108] ]%N.
Definition is_na (s : str) : bool := existsb (str_eqb s) na_values.

Inductive cell := CStr (s : str) | CNaN.

(* the 'message' column of retrieve_log() *)
Inductive logres :=
| LCells (l : list cell)
| LParserError          (* pandas.errors.ParserError / EmptyDataError *)
| LKeyError.            (* the header line is not the expected one *)

Definition nth_field (r : list str) (i : nat) : option str := nth_error r i.
Definition header_row : list str :=
  [[112;97;116;104]; [116;105;109;101]; [115;101;118;101;114;105;116;121]; [109;101;115;115;97;103;101]]%N.

Definition read_log (file : str) : logres :=
  match csv_parse file with
  | None => LParserError
  | Some [] => LParserError                                   (* EmptyDataError *)
  | Some (hdr :: rows) =>
      if negb (list_eqb str_eqb hdr header_row) then LKeyError           (* df['path'] / df['message'] *)
      else if existsb (fun r => Nat.ltb 4 (length r)) rows then LParserError   (* "Expected 4 fields, saw n" *)
      else
        (* read_csv(dtype=str, keep_default_na=False) (commit 90b40e7): every cell is a string, a missing
           trailing field is the empty string; the C parser still ends a cell at NUL *)
        LCells (map (fun r => match nth_field r 3 with Some s => CStr (cstr s) | None => CStr [] end) rows)
  end.

(* guards of the log codec *)
Definition no_nul (s : str) : bool := negb (existsb (N.eqb 0) s).
(* a field written without quotes: no separator, quote or line break *)
Definition plain_field (s : str) : bool :=
  negb (existsb (fun ch => N.eqb ch COMMA || N.eqb ch DQ || N.eqb ch LF || N.eqb ch CR) s).
(* every message survives the C string conversion *)
Definition log_guard (msgs : list str) : bool := forallb no_nul msgs.

(* the whole log file after the given (ctxpath, date, severity, message) records *)
Definition log_file (rows : list (str * str * str * str)) : str :=
  log_header ++ concat (map (fun r => let '(p, d, s, m) := r in log_line p d s m) rows).

(* ------------------------------------------------------------------------------------------ *)
(* LocalDirectoryContext                                                                       *)
Definition annot_path : path := [CAnnot].
Definition annot_lock : path := [CAnnotLock].
Definition annot_tmp : path := [CAnnotTmp].
Definition log_path : path := [CLog].
Definition log_lock : path := [CLogLock].
Definition models_dir : path := [CModels].
Definition name_link (name : str) : path := [CModels; CName name].
Definition common_path : path := [CCommon].
Definition common_content : content := [123; 125]%N.   (* "{}" *)

(* LocalDirectoryContext.__init__ of a top level context *)
Definition ctx_init : M unit :=
  f <- get ;;
  (if is_dir f [] then ret tt else mkdir1 [] false) ;;
  f <- get ;;
  (if is_dir f [CSub] then ret tt else mkdir1 [CSub] false) ;;
  mkdir_p [CDb] ;;
  f <- get ;;
  (if is_file f annot_path then ret tt else touch annot_path) ;;
  mkdir1 models_dir true ;;
  f <- get ;;
  (if is_file f log_path then ret tt else write_file log_path log_header) ;;
  f <- get ;;
  (if is_file f common_path then ret tt else write_file common_path common_content).

(* Path.exists() follows a symlink *)
Definition path_exists (f : fs) (p : path) : bool :=
  match lookup f p with
  | Some (Link t) => exists_ f t
  | Some _ => true
  | None => false
  end.

Definition store_key (name : str) (K : N) : M unit :=
  f <- get ;;
  if path_exists f (name_link name) then ret tt
  else if exists_ f (key_dir K) then
    emit (Symlink (key_dir K) (name_link name)) ;;
    if exists_ f (name_link name) then fail EFileExists
    else if parent_ok f (name_link name) then ret tt else fail EFileNotFound
  else ret tt.

Definition store_annotation (name a : str) : M unit :=
  lock annot_lock ;;
  c <- read_file annot_path ;;
  write_file annot_tmp (annot_store c name a) ;;       (* temp file, then os.replace (commit ffb4c75) *)
  rename_file annot_tmp annot_path.

Definition store_message (ctxpath date sev msg : str) : M unit :=
  lock log_lock ;;
  append_file log_path (log_line ctxpath date sev msg).

(* Context._store_model(name, model_entry) *)
Definition ctx_store (m : mdl) : M unit :=
  transaction (m_key m) (store_model_entry m) ;;
  store_key (m_name m) (m_key m) ;;
  store_annotation (m_name m) (m_desc m).

(* retrieve_key: resolve the link; the digest is the last component of the target *)
Definition resolve_name (f : fs) (name : str) : option N :=
  match lookup f (name_link name) with
  | Some (Link [CDb; CKey K]) => Some K
  | _ => None
  end.

Definition retrieve_annotation (name : str) : M str :=
  lock annot_lock ;;
  c <- read_file annot_path ;;
  match annot_retrieve c name with
  | AFound a => ret a
  | AMissing => fail EKeyError
  | AIndexError => fail EIndexError
  end.

(* LocalDirectoryContext.retrieve_log() *)
Definition retrieve_log : M logres :=
  lock log_lock ;;
  c <- read_file log_path ;;
  match read_log c with LParserError => fail ECorrupt | LKeyError => fail EKeyError | r => ret r end.

(* Context._retrieve_me(name): (entry as read, results, description) *)
Definition ctx_retrieve (name : str) : M (N * N * N * option content * str) :=
  f <- get ;;
  match resolve_name f name with
  | None => fail EKeyError
  | Some K =>
      snapshot K (ret tt) ;;
      e <- db_retrieve_model_entry K ;;
      a <- retrieve_annotation name ;;
      ret (e, a)
  end.

(* ------------------------------------------------------------------------------------------ *)
(* subcontexts (one level: ctx.create_subcontext(s) / ctx.get_subcontext(s)) and tool results     *)
(* the directory of a context: the top level context or subcontexts/<s> *)
Definition cdir (c : option str) : path := match c with None => [] | Some s => [CSub; CName s] end.
Definition annot_path_at (cp : path) : path := cp ++ [CAnnot].
Definition annot_lock_at (cp : path) : path := cp ++ [CAnnotLock].
Definition annot_tmp_at (cp : path) : path := cp ++ [CAnnotTmp].
Definition name_link_at (cp : path) (name : str) : path := cp ++ [CModels; CName name].
Definition results_json (cp : path) : path := cp ++ [CResJson].
Definition results_csv (cp : path) : path := cp ++ [CResCsv].

(* LocalDirectoryContext.__init__ of subcontexts/<s>: the model database, log.csv and common_options
   belong to the top level context *)
Definition sub_init (s : str) : M unit :=
  let cp := cdir (Some s) in
  f <- get ;;
  (if is_dir f cp then ret tt else mkdir_p cp) ;;
  f <- get ;;
  (if is_dir f (cp ++ [CSub]) then ret tt else mkdir1 (cp ++ [CSub]) false) ;;
  mkdir_p [CDb] ;;
  f <- get ;;
  (if is_file f (annot_path_at cp) then ret tt else touch (annot_path_at cp)) ;;
  mkdir1 (cp ++ [CModels]) true.

Definition store_key_at (cp : path) (name : str) (K : N) : M unit :=
  f <- get ;;
  if path_exists f (name_link_at cp name) then ret tt
  else if exists_ f (key_dir K) then
    emit (Symlink (key_dir K) (name_link_at cp name)) ;;
    if exists_ f (name_link_at cp name) then fail EFileExists
    else if parent_ok f (name_link_at cp name) then ret tt else fail EFileNotFound
  else ret tt.

Definition store_annotation_at (cp : path) (name a : str) : M unit :=
  lock (annot_lock_at cp) ;;
  c <- read_file (annot_path_at cp) ;;
  write_file (annot_tmp_at cp) (annot_store c name a) ;;
  rename_file (annot_tmp_at cp) (annot_path_at cp).

Definition retrieve_annotation_at (cp : path) (name : str) : M str :=
  lock (annot_lock_at cp) ;;
  c <- read_file (annot_path_at cp) ;;
  match annot_retrieve c name with
  | AFound a => ret a
  | AMissing => fail EKeyError
  | AIndexError => fail EIndexError
  end.

Definition resolve_name_at (cp : path) (f : fs) (name : str) : option N :=
  match lookup f (name_link_at cp name) with
  | Some (Link [CDb; CKey K]) => Some K
  | _ => None
  end.

(* Context._store_model / _retrieve_me of a subcontext *)
Definition sub_store (s : str) (m : mdl) : M unit :=
  transaction (m_key m) (store_model_entry m) ;;
  store_key_at (cdir (Some s)) (m_name m) (m_key m) ;;
  store_annotation_at (cdir (Some s)) (m_name m) (m_desc m).

Definition sub_retrieve (s : str) (name : str) : M (N * N * N * option content * str) :=
  f <- get ;;
  match resolve_name_at (cdir (Some s)) f name with
  | None => fail EKeyError
  | Some K =>
      snapshot K (ret tt) ;;
      e <- db_retrieve_model_entry K ;;
      a <- retrieve_annotation_at (cdir (Some s)) name ;;
      ret (e, a)
  end.

(* Context.store_results(res): results.json, then results.csv; no lock, written in place *)
Definition store_results (c : option str) (id : N) : M unit :=
  write_file (results_json (cdir c)) [T_TRES; id] ;;
  write_file (results_csv (cdir c)) [T_TCSV; id].

(* Context.retrieve_results(): read_results(results.json) *)
Definition retrieve_results (c : option str) : M N :=
  r <- read_file (results_json (cdir c)) ;;
  match r with
  | [t; id] => if N.eqb t T_TRES then ret id else fail ECorrupt
  | _ => fail ECorrupt       (* json.JSONDecodeError on a cut file *)
  end.

(* ------------------------------------------------------------------------------------------ *)
(* workloads                                                                                   *)
Inductive witem :=
| WInit                                   (* LocalDirectoryContext(name, ref=...) *)
| WStore (m : mdl)                        (* ctx.store_model_entry(me) *)
| WDbStore (m : mdl)                      (* ctx.model_database.store_model_entry(me) *)
| WMeta (m : mdl) (id : N)                (* ctx.model_database.store_metadata(model, {...}) *)
| WAnnot (name a : str)                   (* ctx.store_annotation(name, a) *)
| WLog (ctxpath date sev msg : str)       (* ctx.log_message(sev, msg): store_message(sev, ctxpath, date, msg) *)
| WRetrieve (name : str)                  (* ctx.retrieve_model_entry(name) *)
| WDbRetrieve (K : N)                     (* ctx.model_database.retrieve_model(key) *)
| WGetAnnot (name : str)                  (* ctx.retrieve_annotation(name) *)
| WGetLog                                 (* ctx.retrieve_log() *)
| WSubInit (s : str)                      (* ctx.create_subcontext(s) / ctx.get_subcontext(s) *)
| WSubStore (s : str) (m : mdl)           (* sub.store_model_entry(me) (store_final_model_entry / store_input_model_entry
                                             are the same program with the names 'final' / 'input') *)
| WSubRetrieve (s : str) (name : str)     (* sub.retrieve_model_entry(name) *)
| WResults (c : option str) (id : N)      (* context.store_results(res), top level (None) or subcontext *)
| WGetResults (c : option str).           (* context.retrieve_results() *)

(* the key whose transaction an item runs (None: the item runs no transaction) *)
Definition item_key (i : witem) : option N :=
  match i with WStore m | WDbStore m | WMeta m _ | WSubStore _ m => Some (m_key m) | _ => None end.

Definition forget {A} (m : M A) : M unit := m ;; ret tt.

Definition item_prog (i : witem) : M unit :=
  match i with
  | WInit => ctx_init
  | WStore m => ctx_store m
  | WDbStore m => db_store_model_entry m
  | WMeta m id => db_store_metadata (m_key m) id
  | WAnnot name a => store_annotation name a
  | WLog p d s msg => store_message p d s msg
  | WRetrieve name => forget (ctx_retrieve name)
  | WDbRetrieve K => forget (db_retrieve_model K)
  | WGetAnnot name => forget (retrieve_annotation name)
  | WGetLog => forget retrieve_log
  | WSubInit s => sub_init s
  | WSubStore s m => sub_store s m
  | WSubRetrieve s name => forget (sub_retrieve s name)
  | WResults c id => store_results c id
  | WGetResults c => forget (retrieve_results c)
  end.

Definition item_ops (i : witem) (f : fs) : list op := fst (item_prog i f).
Definition item_res (i : witem) (f : fs) : err + unit := snd (item_prog i f).

(* every item runs inside try/except: an exception ends the item, the workload goes on *)
Fixpoint trace (w : list witem) (f : fs) : list op :=
  match w with
  | [] => []
  | i :: w' => let ops := item_ops i f in ops ++ trace w' (run_ops ops f)
  end.
Fixpoint results (w : list witem) (f : fs) : list (err + unit) :=
  match w with
  | [] => []
  | i :: w' => item_res i f :: results w' (run_ops (item_ops i f) f)
  end.
Definition run (w : list witem) (f : fs) : fs := run_ops (trace w f) f.

Definition crash_w (f0 : fs) (w : list witem) (k : nat) (torn : option nat) : fs := crash f0 (trace w f0) k torn.

(* ------------------------------------------------------------------------------------------ *)
(* what a fresh reader sees                                                                    *)
(* snapshot lets the reader in (no PENDING marker) and _find_full_model_path finds a model file *)
Definition visible (f : fs) (K : N) : bool := negb (exists_ f (pending K)) && is_file f (model_file K).

(* the commit point of a transaction on K *)
Definition commit_op (K : N) : op := Remove (pending K).
Definition op_eqb_remove (o : op) (p : path) : bool := match o with Remove q => path_eqb p q | _ => false end.
Definition committed_in (ops : list op) (K : N) : bool := existsb (fun o => op_eqb_remove o (pending K)) ops.

(* files of a key that only a transaction on that key may touch *)
Definition key_file (K : N) (p : path) : bool :=
  path_eqb p (model_file K) || path_eqb p (results_file K) || path_eqb p (metadata_file K).

Definition wtarget (o : op) : option path :=
  match o with
  | Mkdir p | OpenC p | OpenX p | OpenW p _ | OpenA p _ | Remove p | Symlink _ p | Rename _ p => Some p
  | Utime _ | OpenL _ | OpenR _ | Listdir _ => None
  end.
(* the second path an operation changes: the source of a rename *)
Definition wsource (o : op) : option path := match o with Rename s _ => Some s | _ => None end.

Definition not_torn (n : option node) : bool := match n with Some (Torn _) => false | _ => true end.

(* the key's own files are complete: a well-formed model blob for this key, nothing torn *)
Definition good_local (f : fs) (K : N) : bool :=
  match lookup f (model_file K) with
  | None => true
  | Some (File [t; K'; _; _]) => N.eqb t T_MODEL && N.eqb K' K
  | _ => false
  end && not_torn (lookup f (results_file K)) && not_torn (lookup f (metadata_file K)).

(* ------------------------------------------------------------------------------------------ *)
(* consistency of the dataset store (.datasets): executable, evaluated on a state              *)
Definition all_paths (f : fs) : list path := map fst f.
Definition dhashes (f : fs) : list N :=
  flat_map (fun p => match p with [CDb; CDatasets; CHash; CDh h] => [h] | _ => [] end) (all_paths f).

(* every index directory has exactly one entry dataN.csv, the csv is complete and holds that
   dataset, the datainfo is complete and points at it *)
Definition index_ok (f : fs) (h : N) : bool :=
  match children f (hdir h) with
  | [CCsv n] =>
      match lookup f (csv n), lookup f (dinfo n) with
      | Some (File [t; h']), Some (File [t2; _; n']) =>
          N.eqb t T_CSV && N.eqb h' h && N.eqb t2 T_DI && N.eqb n' n && negb (N.eqb n 0)
      | _, _ => false
      end
  | _ => false
  end.
Definition ds_ok (f : fs) : bool := forallb (index_ok f) (dhashes f).
