(* PV.C16.Serial — two concurrent writers, ALL schedules, ALL instance pairs.
   1. a relational program logic: two file systems that agree outside a set S of paths (and on the entry
      lists of the directories D) drive a program that reads and writes only outside S through the same
      operations to the same result, and stay related;
   2. the locked section of a writer is such a program for S = the other key's subtree + the lock file;
   3. the writer machine of Concurrent.v: an invariant over every schedule, by parts of the tree
      (subtree of key 1, subtree of key 2, the rest), gives the final state of one of the two serial orders. *)
From Coq Require Import List Bool NArith Arith Lia.
From PV Require Import C16.Model C16.Proofs C16.ProofsStore C16.Concurrent.
Import ListNotations.
Local Open Scope nat_scope.

(* ========================================================================================= *)
(* 1. entry lists under set / remove                                                          *)
Definition contrib (d p : path) : list comp := match strip_prefix d p with Some [c] => [c] | _ => [] end.

Lemma children_cons q n f d : children ((q, n) :: f) d = contrib d q ++ children f d.
Proof. reflexivity. Qed.

Lemma contrib_spec d p c : In c (contrib d p) -> p = d ++ [c].
Proof.
  unfold contrib. destruct (strip_prefix d p) as [[|c0 [|c1 l]]|] eqn:E; cbn; try tauto.
  intros [<-|[]]. apply strip_prefix_some. exact E.
Qed.

Lemma filter_id {A} (t : A -> bool) l : (forall x, In x l -> t x = true) -> filter t l = l.
Proof.
  induction l as [|a l IH]; intros H; [reflexivity|]. cbn. rewrite (H a (or_introl eq_refl)). f_equal. apply IH.
  intros x Hx. apply H. right. exact Hx.
Qed.
Lemma filter_none {A} (t : A -> bool) l : (forall x, In x l -> t x = false) -> filter t l = [].
Proof.
  induction l as [|a l IH]; intros H; [reflexivity|]. cbn. rewrite (H a (or_introl eq_refl)). apply IH.
  intros x Hx. apply H. right. exact Hx.
Qed.

Lemma children_remove f p d :
  children (remove f p) d = filter (fun c => negb (path_eqb p (d ++ [c]))) (children f d).
Proof.
  induction f as [|[q n] f IH]; [reflexivity|].
  rewrite children_cons, filter_app, <- IH. unfold remove. cbn [filter fst]. fold (remove f p).
  destruct (path_eqb p q) eqn:E; cbn [negb].
  - apply path_eqb_eq in E. subst q. rewrite filter_none; [reflexivity|].
    intros c Hc. apply contrib_spec in Hc. rewrite <- Hc, path_eqb_refl. reflexivity.
  - rewrite children_cons. f_equal. symmetry. apply filter_id. intros c Hc. apply contrib_spec in Hc. subst q.
    rewrite E. reflexivity.
Qed.

Lemma children_set f p n d : children (set f p n) d = contrib d p ++ children (remove f p) d.
Proof. reflexivity. Qed.

Lemma children_remove_other f p d : (forall c, p <> d ++ [c]) -> children (remove f p) d = children f d.
Proof.
  intros H. rewrite children_remove. apply filter_id. intros c _. apply negb_true_iff. apply path_eqb_neq. apply H.
Qed.
Lemma children_set_other f p n d : (forall c, p <> d ++ [c]) -> children (set f p n) d = children f d.
Proof.
  intros H. rewrite children_set, children_remove_other by exact H.
  destruct (contrib d p) as [|c l] eqn:E; [reflexivity|]. exfalso. apply (H c). apply contrib_spec. rewrite E. left. reflexivity.
Qed.

Lemma children_frame o f d :
  (forall c, wtarget o <> Some (d ++ [c])) -> (forall c, wsource o <> Some (d ++ [c])) ->
  children (apply_op o f) d = children f d.
Proof.
  destruct o; cbn [wtarget wsource apply_op]; intros H Hs; try reflexivity;
    repeat match goal with
           | |- context [if ?b then _ else _] => destruct b
           | |- context [match lookup ?g ?r with _ => _ end] => destruct (lookup g r) as [[| | |]|]
           end; try reflexivity;
    try (apply children_set_other; intros cc E; apply (H cc); rewrite E; reflexivity);
    try (apply children_remove_other; intros cc E; apply (H cc); rewrite E; reflexivity);
    try (rewrite children_set_other, children_remove_other;
         [reflexivity | intros cc E; apply (Hs cc); rewrite E; reflexivity | intros cc E; apply (H cc); rewrite E; reflexivity]).
Qed.

(* ========================================================================================= *)
(* 2. agreement outside S                                                                     *)
Section Rel.
Variable S : path -> bool.
Variable D : path -> bool.

Definition R (f g : fs) : Prop :=
  (forall p, S p = false -> lookup f p = lookup g p) /\ (forall d, D d = true -> children f d = children g d).

Lemma R_refl f : R f f.
Proof. split; reflexivity. Qed.
Lemma R_sym f g : R f g -> R g f.
Proof. intros [H1 H2]. split; intros; symmetry; auto. Qed.
Lemma R_trans f g h : R f g -> R g h -> R f h.
Proof. intros [H1 H2] [H3 H4]. split; intros; [rewrite H1, H3 | rewrite H2, H4]; auto. Qed.

Lemma R_set f g p n : R f g -> R (set f p n) (set g p n).
Proof.
  intros [H1 H2]. split.
  - intros q Hq. destruct (path_eqb p q) eqn:E.
    + apply path_eqb_eq in E. subst q. rewrite !lookup_set_same. reflexivity.
    + assert (p <> q) by (intro; subst; rewrite path_eqb_refl in E; discriminate).
      rewrite !lookup_set_other by assumption. apply H1. exact Hq.
  - intros d Hd. rewrite !children_set, !children_remove, (H2 d Hd). reflexivity.
Qed.
Lemma R_remove f g p : R f g -> R (remove f p) (remove g p).
Proof.
  intros [H1 H2]. split.
  - intros q Hq. destruct (path_eqb p q) eqn:E.
    + apply path_eqb_eq in E. subst q. rewrite !lookup_remove_same. reflexivity.
    + assert (p <> q) by (intro; subst; rewrite path_eqb_refl in E; discriminate).
      rewrite !lookup_remove_other by assumption. apply H1. exact Hq.
  - intros d Hd. rewrite !children_remove, (H2 d Hd). reflexivity.
Qed.

(* a path whose node and whose parent are outside S *)
Definition clr (p : path) : bool := negb (S p) && negb (S (removelast p)).

Lemma clr_S p : clr p = true -> S p = false.
Proof. unfold clr. intros H. apply andb_true_iff in H. destruct H as [H _]. apply negb_true_iff. exact H. Qed.
Lemma R_lookup f g p : R f g -> clr p = true -> lookup f p = lookup g p.
Proof. intros [H _] Hc. apply H. apply clr_S. exact Hc. Qed.
Lemma R_exists f g p : R f g -> clr p = true -> exists_ f p = exists_ g p.
Proof. intros H Hc. unfold exists_. rewrite (R_lookup f g p H Hc). reflexivity. Qed.
Lemma R_is_dir f g p : R f g -> clr p = true -> is_dir f p = is_dir g p.
Proof. intros H Hc. unfold is_dir. rewrite (R_lookup f g p H Hc). reflexivity. Qed.
Lemma R_is_file f g p : R f g -> clr p = true -> is_file f p = is_file g p.
Proof. intros H Hc. unfold is_file. rewrite (R_lookup f g p H Hc). reflexivity. Qed.
Lemma R_parent_ok f g p : R f g -> clr p = true -> parent_ok f p = parent_ok g p.
Proof.
  intros [H _] Hc. unfold parent_ok. destruct p as [|c p]; [reflexivity|]. unfold is_dir. rewrite H; [reflexivity|].
  unfold clr in Hc. apply andb_true_iff in Hc. destruct Hc as [_ Hc]. apply negb_true_iff. exact Hc.
Qed.
Lemma R_can_write f g p : R f g -> clr p = true -> can_write f p = can_write g p.
Proof. intros H Hc. unfold can_write. rewrite (R_lookup f g p H Hc), (R_parent_ok f g p H Hc). reflexivity. Qed.

Definition av (o : op) : bool :=
  match wtarget o with Some p => clr p | None => true end && match wsource o with Some p => clr p | None => true end.

(* the same operation on both sides *)
Lemma R_step o f g : R f g -> av o = true -> R (apply_op o f) (apply_op o g).
Proof.
  intros HR Ha. unfold av in Ha. apply andb_true_iff in Ha. destruct Ha as [Ht Hs].
  destruct o; cbn [wtarget wsource apply_op] in *; try exact HR;
    try (rewrite (R_parent_ok f g p HR Ht), (R_exists f g p HR Ht);
         destruct (parent_ok g p && negb (exists_ g p)); [apply R_set; exact HR | exact HR]).
  - rewrite (R_can_write f g p HR Ht). destruct (can_write g p); [apply R_set; exact HR | exact HR].
  - rewrite (R_can_write f g p HR Ht), (R_lookup f g p HR Ht).
    destruct (can_write g p); [|exact HR]. destruct (lookup g p) as [[| | |]|]; apply R_set; exact HR.
  - rewrite (R_lookup f g p HR Ht). destruct (lookup g p) as [[| | |]|]; try exact HR; apply R_remove; exact HR.
  - rewrite (R_lookup f g s HR Hs), (R_can_write f g d HR Ht).
    destruct (lookup g s) as [[| | |]|]; try exact HR; destruct (can_write g d); try exact HR;
      apply R_set; apply R_remove; exact HR.
Qed.

Lemma R_run ops : forall f g, R f g -> forallb av ops = true -> R (run_ops ops f) (run_ops ops g).
Proof.
  induction ops as [|o ops IH]; intros f g HR Ha; [exact HR|]. cbn [forallb] in Ha. apply andb_true_iff in Ha.
  destruct Ha as [Ho Ha]. rewrite !run_ops_cons. apply IH; [apply R_step; assumption | exact Ha].
Qed.

(* an operation inside S on one side only *)
Hypothesis D_ok : forall d c, D d = true -> S (d ++ [c]) = false.

Definition inS (o : op) : bool :=
  match wtarget o with Some p => S p | None => true end && match wsource o with Some p => S p | None => true end.

Lemma R_one o f g : R f g -> inS o = true -> R (apply_op o f) g.
Proof.
  intros [H1 H2] Hi. unfold inS in Hi. apply andb_true_iff in Hi. destruct Hi as [Ht Hs]. split.
  - intros q Hq. rewrite apply_op_frame; [apply H1; exact Hq | |].
    + intros E. rewrite E in Ht. congruence.
    + intros E. rewrite E in Hs. congruence.
  - intros d Hd. rewrite children_frame; [apply H2; exact Hd | |].
    + intros c E. rewrite E in Ht. rewrite (D_ok d c Hd) in Ht. discriminate.
    + intros c E. rewrite E in Hs. rewrite (D_ok d c Hd) in Hs. discriminate.
Qed.
Lemma R_one_run ops : forall f g, R f g -> forallb inS ops = true -> R (run_ops ops f) g.
Proof.
  induction ops as [|o ops IH]; intros f g HR Ha; [exact HR|]. cbn [forallb] in Ha. apply andb_true_iff in Ha.
  destruct Ha as [Ho Ha]. rewrite run_ops_cons. apply IH; [apply R_one; assumption | exact Ha].
Qed.

(* ---- programs ------------------------------------------------------------------------------ *)
Definition simrel {A} (m m' : M A) : Prop :=
  forall f g, R f g -> m f = m' g /\ forallb av (fst (m f)) = true.
Definition sim {A} (m : M A) : Prop := simrel m m.

Lemma sim_ret {A} (a : A) : sim (ret a).
Proof. intros f g _. split; reflexivity. Qed.
Lemma sim_fail {A} e : sim (@fail A e).
Proof. intros f g _. split; reflexivity. Qed.
Lemma sim_emit o : av o = true -> sim (emit o).
Proof. intros H f g _. split; [reflexivity|]. cbn. rewrite H. reflexivity. Qed.
Lemma simrel_bind {A B} (m m' : M A) (k k' : A -> M B) :
  simrel m m' -> (forall a, simrel (k a) (k' a)) -> simrel (bind m k) (bind m' k').
Proof.
  intros Hm Hk f g HR. destruct (Hm f g HR) as [E Ha]. unfold bind. rewrite <- E. destruct (m f) as [ops r].
  cbn [fst] in Ha. destruct r as [e|a]; [split; [reflexivity | exact Ha]|].
  destruct (Hk a (run_ops ops f) (run_ops ops g) (R_run ops f g HR Ha)) as [E2 Ha2]. rewrite <- E2.
  destruct (k a (run_ops ops f)) as [ops2 r2]. cbn [fst] in *. split; [reflexivity|].
  rewrite forallb_app, Ha, Ha2. reflexivity.
Qed.
Lemma sim_bind {A B} (m : M A) (k : A -> M B) : sim m -> (forall a, sim (k a)) -> sim (bind m k).
Proof. apply simrel_bind. Qed.
Lemma sim_get {B} (k : fs -> M B) : (forall f g, R f g -> simrel (k f) (k g)) -> sim (bind get k).
Proof. intros H f g HR. rewrite !bind_get_eq. apply H; exact HR. Qed.

Ltac sim_tac :=
  repeat match goal with
         | |- simrel (bind _ _) (bind _ _) => apply simrel_bind; [|intro]
         | |- simrel (emit ?o) (emit ?o) => apply sim_emit
         | |- simrel (ret ?a) (ret ?a) => apply sim_ret
         | |- simrel (fail ?e) (fail ?e) => apply sim_fail
         | |- simrel (if ?b then _ else _) (if ?b then _ else _) => destruct b
         end.

Lemma av_of_clr_t o p : wtarget o = Some p -> wsource o = None -> clr p = true -> av o = true.
Proof. intros H1 H2 H. unfold av. rewrite H1, H2, H. reflexivity. Qed.

Lemma sim_mkdir1 p b : clr p = true -> sim (mkdir1 p b).
Proof.
  intros Hc. unfold mkdir1. apply sim_get. intros f g HR.
  rewrite (R_exists f g p HR Hc), (R_is_dir f g p HR Hc), (R_parent_ok f g p HR Hc).
  sim_tac; try (unfold av; cbn; rewrite Hc; reflexivity).
Qed.

Lemma sim_mkdir_p_aux fuel : forall p, (forall q, is_prefix q p -> clr q = true) -> sim (mkdir_p_aux fuel p).
Proof.
  induction fuel as [|n IH]; intros p Hp; pose proof (Hp p (prefix_refl p)) as Hc;
    cbn [mkdir_p_aux]; apply sim_get; intros f g HR;
    rewrite (R_exists f g p HR Hc), (R_is_dir f g p HR Hc), (R_parent_ok f g p HR Hc);
    sim_tac; try (unfold av; cbn; rewrite Hc; reflexivity).
  - apply IH. intros q Hq. apply Hp. apply prefix_removelast. exact Hq.
  - apply sim_mkdir1. exact Hc.
Qed.

Lemma sim_touch p : clr p = true -> sim (touch p).
Proof.
  intros Hc. unfold touch. apply sim_get. intros f g HR. rewrite (R_exists f g p HR Hc), (R_parent_ok f g p HR Hc).
  sim_tac; try reflexivity; try (unfold av; cbn; rewrite Hc; reflexivity).
Qed.
Lemma sim_touch_excl p : clr p = true -> sim (touch_excl p).
Proof.
  intros Hc. unfold touch_excl. apply sim_get. intros f g HR. rewrite (R_exists f g p HR Hc), (R_parent_ok f g p HR Hc).
  sim_tac; try (unfold av; cbn; rewrite Hc; reflexivity).
Qed.
Lemma sim_write_file p c : clr p = true -> sim (write_file p c).
Proof.
  intros Hc. unfold write_file. apply sim_get. intros f g HR. rewrite (R_can_write f g p HR Hc).
  sim_tac; try (unfold av; cbn; rewrite Hc; reflexivity).
Qed.
Lemma sim_append_file p c : clr p = true -> sim (append_file p c).
Proof.
  intros Hc. unfold append_file. apply sim_get. intros f g HR. rewrite (R_can_write f g p HR Hc).
  sim_tac; try (unfold av; cbn; rewrite Hc; reflexivity).
Qed.
Lemma sim_read_file p : clr p = true -> sim (read_file p).
Proof.
  intros Hc. unfold read_file. apply sim_get. intros f g HR. rewrite (R_lookup f g p HR Hc).
  sim_tac; try reflexivity. destruct (read_node (lookup g p)); sim_tac.
Qed.
Lemma sim_remove_file p : clr p = true -> sim (remove_file p).
Proof.
  intros Hc. unfold remove_file. apply sim_get. intros f g HR. rewrite (R_lookup f g p HR Hc).
  sim_tac; try (unfold av; cbn; rewrite Hc; reflexivity). destruct (lookup g p) as [[| | |]|]; sim_tac.
Qed.
Lemma sim_rename_file s d : clr s = true -> clr d = true -> sim (rename_file s d).
Proof.
  intros Hs Hd. unfold rename_file. apply sim_get. intros f g HR. rewrite (R_is_file f g s HR Hs), (R_can_write f g d HR Hd).
  sim_tac; try (unfold av; cbn; rewrite Hs, Hd; reflexivity).
Qed.

End Rel.

(* ========================================================================================= *)
(* 3. the locked section of a writer reads and writes only its own key and the dataset area    *)
Lemma prefix_enum4 (q : path) a b c d :
  is_prefix q [a; b; c; d] -> q = [] \/ q = [a] \/ q = [a; b] \/ q = [a; b; c] \/ q = [a; b; c; d].
Proof.
  intros H. rewrite (prefix_firstn q _ H). pose proof (prefix_length _ _ H) as HL.
  destruct (length q) as [|[|[|[|[|n]]]]]; cbn; auto 6.
Qed.
Lemma prefix_enum3 (q : path) a b c : is_prefix q [a; b; c] -> q = [] \/ q = [a] \/ q = [a; b] \/ q = [a; b; c].
Proof.
  intros H. rewrite (prefix_firstn q _ H). pose proof (prefix_length _ _ H) as HL.
  destruct (length q) as [|[|[|[|n]]]]; cbn; auto 6.
Qed.

Definition ds_create (m : mdl) : M N :=
  let h := m_dh m in
  mkdir_p (hdir h) ;;
  f1 <- get ;; emit (Listdir ds_dir) ;;
  let n := (highest f1 + 1)%N in
  write_file (csv n) [T_CSV; h] ;;
  write_file (dinfo n) [T_DI; m_di m; n] ;;
  touch (hidx h n) ;;
  ret n.

Lemma store_dataset_eq m f :
  store_dataset m f =
  if is_dir f (hdir (m_dh m)) then
    emit (Listdir (hdir (m_dh m))) ;;
    match children f (hdir (m_dh m)) with
    | [] => ds_create m
    | CCsv n :: _ =>
        dc <- read_file (dinfo n) ;;
        match dc with
        | [t; di; n'] => if N.eqb t T_DI then ret (if N.eqb di (m_di m) then n' else 0%N) else fail ECorrupt
        | _ => fail ECorrupt
        end
    | _ :: _ => fail ECorrupt
    end
  else ds_create m.
Proof. reflexivity. Qed.

Section Critical.
Variable S : path -> bool.
Variable D : path -> bool.
Variable m : mdl.
Let K := m_key m.
Hypothesis Hroot : S [] = false.
Hypothesis Hdb : S [CDb] = false.
Hypothesis HK : forall r, S (CDb :: CKey K :: r) = false.
Hypothesis HD : forall r, S (CDb :: CDatasets :: r) = false.
Hypothesis HDh : forall h, D (hdir h) = true.
Hypothesis HDd : D ds_dir = true.

Lemma clr_ds r : clr S (CDb :: CDatasets :: r) = true.
Proof.
  unfold clr. rewrite HD. destruct r as [|c r]; [cbn; rewrite Hdb; reflexivity|].
  replace (removelast (CDb :: CDatasets :: c :: r)) with (CDb :: CDatasets :: removelast (c :: r)) by reflexivity.
  rewrite HD. reflexivity.
Qed.
Lemma clr_key r : clr S (CDb :: CKey K :: r) = true.
Proof.
  unfold clr. rewrite HK. destruct r as [|c r]; [cbn; rewrite Hdb; reflexivity|].
  replace (removelast (CDb :: CKey K :: c :: r)) with (CDb :: CKey K :: removelast (c :: r)) by reflexivity.
  rewrite HK. reflexivity.
Qed.
Lemma clr_root : clr S [] = true.
Proof. unfold clr. cbn. rewrite Hroot. reflexivity. Qed.
Lemma clr_db : clr S [CDb] = true.
Proof. unfold clr. cbn. rewrite Hdb, Hroot. reflexivity. Qed.

Lemma sim_mkdir_p_hdir h : sim S D (mkdir_p (hdir h)).
Proof.
  unfold mkdir_p. apply sim_mkdir_p_aux. intros q Hq. apply prefix_enum4 in Hq.
  destruct Hq as [->|[->|[->|[->| ->]]]]; [apply clr_root | apply clr_db | apply clr_ds ..].
Qed.
Lemma sim_mkdir_p_meta : sim S D (mkdir_p (meta_dir K)).
Proof.
  unfold mkdir_p. apply sim_mkdir_p_aux. intros q Hq. apply prefix_enum3 in Hq.
  destruct Hq as [->|[->|[->| ->]]]; [apply clr_root | apply clr_db | apply clr_key ..].
Qed.

Lemma sim_ds_create : sim S D (ds_create m).
Proof.
  unfold ds_create. cbv zeta. apply sim_bind; [apply sim_mkdir_p_hdir | intros _].
  apply sim_get. intros f g HR. unfold highest. rewrite (proj2 HR ds_dir HDd).
  apply simrel_bind; [apply sim_emit; reflexivity | intros _].
  apply simrel_bind; [apply sim_write_file; apply clr_ds | intros _].
  apply simrel_bind; [apply sim_write_file; apply clr_ds | intros _].
  apply simrel_bind; [apply sim_touch; apply clr_ds | intros _].
  apply sim_ret.
Qed.

Lemma sim_store_dataset f g : R S D f g -> simrel S D (store_dataset m f) (store_dataset m g).
Proof.
  intros HR. rewrite !store_dataset_eq. rewrite (R_is_dir S D f g (hdir (m_dh m)) HR (clr_ds _)), (proj2 HR _ (HDh (m_dh m))).
  destruct (is_dir g (hdir (m_dh m))); [|apply sim_ds_create].
  apply simrel_bind; [apply sim_emit; reflexivity | intros _].
  destruct (children g (hdir (m_dh m))) as [|c l]; [apply sim_ds_create|].
  destruct c; try apply sim_fail.
  apply simrel_bind; [apply sim_read_file; apply clr_ds | intros dc].
  destruct dc as [|t [|di [|n' [|x l']]]]; try apply sim_fail.
  destruct (N.eqb t T_DI); [apply sim_ret | apply sim_fail].
Qed.

Lemma sim_store_model : sim S D (store_model m).
Proof.
  unfold store_model. cbv zeta. fold K. apply sim_get. intros f g HR.
  rewrite (R_is_file S D f g (model_file K) HR (clr_key _)). destruct (is_file g (model_file K)); [apply sim_ret|].
  apply simrel_bind; [apply sim_store_dataset; exact HR | intros link].
  apply simrel_bind; [apply sim_mkdir1; apply clr_key | intros _].
  apply sim_write_file. apply clr_key.
Qed.

Lemma sim_store_results : sim S D (store_modelfit_results m).
Proof.
  unfold store_modelfit_results. fold K. apply sim_bind; [apply sim_mkdir_p_meta | intros _].
  destruct (m_res m); [apply sim_write_file; apply clr_key | apply sim_ret].
Qed.

Lemma sim_critical : sim S D (critical m).
Proof.
  unfold critical. fold K.
  apply sim_bind; [apply sim_emit; reflexivity | intros _].
  apply sim_bind; [apply sim_touch_excl; apply clr_key | intros _].
  apply sim_bind; [apply sim_bind; [apply sim_store_model | intros _; apply sim_store_results] | intros a].
  apply sim_bind; [apply sim_remove_file; apply clr_key | intros _].
  apply sim_ret.
Qed.
End Critical.

(* ========================================================================================= *)
(* 4. more about the relation                                                                  *)
Lemma R_weaken S D S' D' f g :
  (forall p, S' p = false -> S p = false) -> (forall d, D' d = true -> D d = true) -> R S D f g -> R S' D' f g.
Proof. intros HS HD [H1 H2]. split; intros; [apply H1; apply HS | apply H2; apply HD]; assumption. Qed.

Lemma R_join S1 D1 S2 D2 S D f g :
  (forall p, S p = false -> S1 p = false \/ S2 p = false) ->
  (forall d, D d = true -> D1 d = true \/ D2 d = true) ->
  R S1 D1 f g -> R S2 D2 f g -> R S D f g.
Proof.
  intros HS HD [H1 H2] [H3 H4]. split.
  - intros p Hp. destruct (HS p Hp); auto.
  - intros d Hd. destruct (HD d Hd); auto.
Qed.

Lemma R_mkdir S D f g p :
  R S D f g -> S p = false -> parent_ok f p = parent_ok g p -> R S D (apply_op (Mkdir p) f) (apply_op (Mkdir p) g).
Proof.
  intros HR Hp Hpar. cbn [apply_op]. unfold exists_. rewrite Hpar, (proj1 HR p Hp).
  destruct (parent_ok g p && negb match lookup g p with Some _ => true | None => false end); [apply R_set; exact HR | exact HR].
Qed.

Lemma av_inS S S' o : (forall p, S p = false -> S' p = true) -> av S o = true -> inS S' o = true.
Proof.
  intros H Ha. unfold av in Ha. unfold inS. apply andb_true_iff in Ha. destruct Ha as [H1 H2].
  destruct (wtarget o) as [p|]; destruct (wsource o) as [q|]; cbn;
    rewrite ?(H _ (clr_S S _ H1)), ?(H _ (clr_S S _ H2)); reflexivity.
Qed.
Lemma avs_inS S S' ops : (forall p, S p = false -> S' p = true) -> forallb (av S) ops = true -> forallb (inS S') ops = true.
Proof.
  intros H Ha. rewrite forallb_forall in *. intros o Ho. apply (av_inS S S' o H). apply Ha. exact Ho.
Qed.

Lemma av_frame S o f q : av S o = true -> S q = true -> lookup (apply_op o f) q = lookup f q.
Proof.
  intros Ha Hq. unfold av in Ha. apply andb_true_iff in Ha. destruct Ha as [H1 H2]. apply apply_op_frame.
  - destruct (wtarget o) as [p|]; [|discriminate]. intros E. injection E as ->. apply clr_S in H1. congruence.
  - destruct (wsource o) as [p|]; [|discriminate]. intros E. injection E as ->. apply clr_S in H2. congruence.
Qed.
Lemma avs_frame S ops : forall f q, forallb (av S) ops = true -> S q = true -> lookup (run_ops ops f) q = lookup f q.
Proof.
  induction ops as [|o ops IH]; intros f q Ha Hq; [reflexivity|]. cbn [forallb] in Ha. apply andb_true_iff in Ha.
  destruct Ha as [Ho Ha]. rewrite run_ops_cons, IH by assumption. apply (av_frame S); assumption.
Qed.

(* the three parts of the tree *)
Definition under (K : N) (p : path) : bool := match p with CDb :: CKey k :: _ => N.eqb k K | _ => false end.
Definition lockp (p : path) : bool := path_eqb p db_lock.

Lemma under_app K d c : under K d = true -> under K (d ++ [c]) = true.
Proof.
  destruct d as [|a [|b d]].
  - discriminate.
  - cbn. destruct a; discriminate.
  - intros H. exact H.
Qed.
Lemma under_app_inv K d c : under K (d ++ [c]) = true -> under K d = true \/ d = [CDb].
Proof.
  destruct d as [|a [|b d]].
  - cbn. destruct c; discriminate.
  - cbn. destruct a; try discriminate. intros _. right. reflexivity.
  - intros H. left. exact H.
Qed.
Lemma under_excl K K' p : K <> K' -> under K p = true -> under K' p = false.
Proof.
  intros HK. destruct p as [|a [|b p]]; cbn; [discriminate | destruct a; discriminate |].
  destruct a; try discriminate. destruct b; try discriminate.
  intros H. apply N.eqb_eq in H. subst. apply N.eqb_neq. exact HK.
Qed.
Lemma lockp_app d c : lockp (d ++ [c]) = true -> d = [CDb].
Proof.
  unfold lockp. intros H. apply path_eqb_eq in H. unfold db_lock in H.
  destruct d as [|a [|b d]]; cbn in H; try discriminate.
  - injection H as -> _. reflexivity.
  - injection H as _ _ H. destruct d; discriminate.
Qed.
Lemma under_lock K : under K db_lock = false.
Proof. reflexivity. Qed.

Definition SQ (K : N) (p : path) : bool := negb (under K p).
Definition DQ (K : N) (d : path) : bool := under K d.
Definition SC (K K' : N) (p : path) : bool := under K p || under K' p || lockp p.
Definition DC (K K' : N) (d : path) : bool := negb (path_eqb d [CDb]) && negb (under K d) && negb (under K' d).
Definition SW (K' : N) (p : path) : bool := under K' p || lockp p.
Definition DW (K' : N) (d : path) : bool := negb (path_eqb d [CDb]) && negb (under K' d).

Lemma DQ_ok K d c : DQ K d = true -> SQ K (d ++ [c]) = false.
Proof. unfold DQ, SQ. intros H. rewrite (under_app K d c H). reflexivity. Qed.
Lemma not_db d : negb (path_eqb d [CDb]) = true -> d <> [CDb].
Proof. intros H E. subst. cbn in H. discriminate. Qed.
Lemma DC_ok K K' d c : DC K K' d = true -> SC K K' (d ++ [c]) = false.
Proof.
  unfold DC, SC. intros H. apply andb_true_iff in H. destruct H as [H H3]. apply andb_true_iff in H. destruct H as [H1 H2].
  apply not_db in H1. apply negb_true_iff in H2, H3.
  destruct (under K (d ++ [c])) eqn:E1; [apply under_app_inv in E1; destruct E1; congruence|].
  destruct (under K' (d ++ [c])) eqn:E2; [apply under_app_inv in E2; destruct E2; congruence|].
  destruct (lockp (d ++ [c])) eqn:E3; [apply lockp_app in E3; congruence | reflexivity].
Qed.
Lemma DW_ok K' d c : DW K' d = true -> SW K' (d ++ [c]) = false.
Proof.
  unfold DW, SW. intros H. apply andb_true_iff in H. destruct H as [H1 H2]. apply not_db in H1. apply negb_true_iff in H2.
  destruct (under K' (d ++ [c])) eqn:E2; [apply under_app_inv in E2; destruct E2; congruence|].
  destruct (lockp (d ++ [c])) eqn:E3; [apply lockp_app in E3; congruence | reflexivity].
Qed.

(* R (SW K') = R (SQ K) + R (SC K K') when K <> K' *)
Lemma RW_join K K' f g : K <> K' -> R (SQ K) (DQ K) f g -> R (SC K K') (DC K K') f g -> R (SW K') (DW K') f g.
Proof.
  intros HK. apply R_join.
  - intros p. unfold SW, SQ, SC. intros H. apply orb_false_iff in H. destruct H as [H1 H2]. rewrite H1, H2.
    destruct (under K p); [left | right]; reflexivity.
  - intros d. unfold DW, DQ, DC. intros H. apply andb_true_iff in H. destruct H as [H1 H2]. rewrite H1, H2.
    destruct (under K d); [left | right]; reflexivity.
Qed.
Lemma RW_Q K K' f g : K <> K' -> R (SW K') (DW K') f g -> R (SQ K) (DQ K) f g.
Proof.
  intros HK. apply R_weaken.
  - intros p. unfold SW, SQ. intros H. apply negb_false_iff in H. rewrite (under_excl K K' p HK H).
    destruct p as [|a [|b [|c p]]]; try reflexivity; cbn in H; destruct a; try discriminate; destruct b; try discriminate; reflexivity.
  - intros d. unfold DW, DQ. intros H. rewrite (under_excl K K' d HK H).
    destruct d as [|a [|b d]]; [discriminate | cbn in H; destruct a; discriminate |].
    cbn in H. destruct a; try discriminate. reflexivity.
Qed.
Lemma RW_C K K' f g : R (SW K') (DW K') f g -> R (SC K K') (DC K K') f g.
Proof.
  apply R_weaken.
  - intros p. unfold SW, SC. intros H. apply orb_false_iff in H. destruct H as [H H3]. apply orb_false_iff in H.
    destruct H as [H1 H2]. rewrite H2, H3. reflexivity.
  - intros d. unfold DW, DC. intros H. apply andb_true_iff in H. destruct H as [H H3]. apply andb_true_iff in H.
    destruct H as [H1 H2]. rewrite H1, H3. reflexivity.
Qed.
Lemma RC_swap K K' f g : R (SC K K') (DC K K') f g -> R (SC K' K) (DC K' K) f g.
Proof.
  apply R_weaken.
  - intros p. unfold SC. rewrite (orb_comm (under K' p)). exact (fun H => H).
  - intros d. unfold DC. rewrite <- !andb_assoc, (andb_comm (negb (under K' d))). exact (fun H => H).
Qed.

(* ========================================================================================= *)
(* 5. what a writer does before it holds the lock, as a function                              *)
Definition prep0 (K : N) (f : fs) : fs := apply_op (Mkdir (meta_dir K)) (apply_op (Mkdir (key_dir K)) f).
Definition prep (K : N) (f : fs) : fs := apply_op (OpenC db_lock) (prep0 K f).

Definition kshape (K : N) (f : fs) : Prop :=
  (lookup f (key_dir K) = None \/ lookup f (key_dir K) = Some Dir)
  /\ (lookup f (meta_dir K) = None \/ lookup f (meta_dir K) = Some Dir)
  /\ (lookup f (key_dir K) = None -> lookup f (meta_dir K) = None).

Lemma kshape_of_shape K f : shape f -> kshape K f.
Proof.
  intros Hs. split; [apply (shape_dir_only f _ Hs); reflexivity|]. split; [apply (shape_dir_only f _ Hs); reflexivity|].
  intros Hk. apply (shape_child_none f (key_dir K) CPharmpy Hs). unfold is_dir. rewrite Hk. reflexivity.
Qed.

Lemma bind_run {A B} (m : M A) (k : A -> M B) f ops a ops2 r2 :
  m f = (ops, inr a) -> k a (run_ops ops f) = (ops2, r2) -> bind m k f = (ops ++ ops2, r2).
Proof. intros H1 H2. unfold bind. rewrite H1, H2. reflexivity. Qed.

Lemma key_ne_meta K : key_dir K <> meta_dir K.
Proof. discriminate. Qed.

Lemma pre_mkdir K f : ready f -> kshape K f ->
  exists ops, mkdir_p (meta_dir K) f = (ops, inr tt) /\ run_ops ops f = prep0 K f.
Proof.
  intros Hr [Hk [Hm Himp]]. unfold ready in Hr. unfold mkdir_p. change (length (meta_dir K)) with 3.
  rewrite mkdir_p_aux_eq. unfold prep0. destruct Hm as [Hm|Hm].
  2:{ assert (He : exists_ f (meta_dir K) = true) by (unfold exists_; rewrite Hm; reflexivity).
      assert (Hd : is_dir f (meta_dir K) = true) by (unfold is_dir; rewrite Hm; reflexivity).
      rewrite He, Hd. exists [Mkdir (meta_dir K)]. split; [reflexivity|].
      destruct Hk as [Hk|Hk]; [rewrite (Himp Hk) in Hm; discriminate|].
      rewrite (apply_mkdir_noop f (key_dir K)) by (left; unfold exists_; rewrite Hk; reflexivity). reflexivity. }
  assert (He : exists_ f (meta_dir K) = false) by (unfold exists_; rewrite Hm; reflexivity). rewrite He.
  change (parent_ok f (meta_dir K)) with (is_dir f (key_dir K)). destruct Hk as [Hk|Hk].
  - assert (Hd : is_dir f (key_dir K) = false) by (unfold is_dir; rewrite Hk; reflexivity). rewrite Hd.
    rewrite (apply_mkdir_noop f (meta_dir K)) by (right; exact Hd).
    change (removelast (meta_dir K)) with (key_dir K).
    assert (E1 : mkdir_p_aux 2 (key_dir K) f = ([Mkdir (key_dir K)], inr tt)).
    { rewrite mkdir_p_aux_eq. assert (Hek : exists_ f (key_dir K) = false) by (unfold exists_; rewrite Hk; reflexivity).
      rewrite Hek. change (parent_ok f (key_dir K)) with (is_dir f [CDb]). rewrite Hr. reflexivity. }
    assert (Ef : run_ops [Mkdir (key_dir K)] f = set f (key_dir K) Dir).
    { change (run_ops [Mkdir (key_dir K)] f) with (apply_op (Mkdir (key_dir K)) f). apply apply_mkdir_fresh.
      - unfold exists_. rewrite Hk. reflexivity.
      - exact Hr. }
    assert (E2 : mkdir1 (meta_dir K) true (run_ops [Mkdir (key_dir K)] f) = ([Mkdir (meta_dir K)], inr tt)).
    { rewrite mkdir1_eq, Ef. unfold exists_. rewrite (lookup_set_other f _ _ Dir (key_ne_meta K)), Hm.
      change (parent_ok (set f (key_dir K) Dir) (meta_dir K)) with (is_dir (set f (key_dir K) Dir) (key_dir K)).
      unfold is_dir. rewrite lookup_set_same. reflexivity. }
    rewrite (bind_run _ _ _ _ _ _ _ E1 E2). eexists. split; [reflexivity|].
    change (run_ops (Mkdir (meta_dir K) :: [Mkdir (key_dir K)] ++ [Mkdir (meta_dir K)]) f)
      with (apply_op (Mkdir (meta_dir K)) (apply_op (Mkdir (key_dir K)) (apply_op (Mkdir (meta_dir K)) f))).
    rewrite (apply_mkdir_noop f (meta_dir K)) by (right; exact Hd). reflexivity.
  - assert (Hd : is_dir f (key_dir K) = true) by (unfold is_dir; rewrite Hk; reflexivity). rewrite Hd.
    exists [Mkdir (meta_dir K)]. split; [reflexivity|].
    rewrite (apply_mkdir_noop f (key_dir K)) by (left; unfold exists_; rewrite Hk; reflexivity). reflexivity.
Qed.

Lemma pre_touch f : ready f -> exists ops, touch db_lock f = (ops, inr tt) /\ run_ops ops f = apply_op (OpenC db_lock) f.
Proof.
  intros Hr. unfold ready in Hr. rewrite touch_eq. destruct (exists_ f db_lock) eqn:E.
  - exists [Utime db_lock]. split; [reflexivity|]. unfold run_ops. cbn [fold_left apply_op]. rewrite E, andb_false_r. reflexivity.
  - change (parent_ok f db_lock) with (is_dir f [CDb]). rewrite Hr. exists [Utime db_lock; OpenC db_lock]. split; reflexivity.
Qed.

Lemma ready_ops ops f : ready f -> ready (run_ops ops f).
Proof. unfold ready. apply is_dir_mono_ops. Qed.
Lemma ready_op o f : ready f -> ready (apply_op o f).
Proof. unfold ready. apply is_dir_mono. Qed.
Lemma ready_prep0 K f : ready f -> ready (prep0 K f).
Proof. intros H. unfold prep0. apply ready_op, ready_op, H. Qed.
Lemma ready_prep K f : ready f -> ready (prep K f).
Proof. intros H. unfold prep. apply ready_op, ready_prep0, H. Qed.

Definition rest (m : mdl) : M unit :=
  touch_excl (pending (m_key m)) ;; a <- store_model_entry m ;; remove_file (pending (m_key m)) ;; ret a.

Lemma critical_eq m x : critical m x = (OpenL db_lock :: fst (rest m x), snd (rest m x)).
Proof.
  change (critical m) with (bind (emit (OpenL db_lock)) (fun _ => rest m)). rewrite bind_emit_eq.
  change (apply_op (OpenL db_lock) x) with x. destruct (rest m x). reflexivity.
Qed.

Lemma db_store_decomp m f : ready f -> kshape (m_key m) f ->
  snd (db_store_model_entry m f) = snd (critical m (prep (m_key m) f))
  /\ run_ops (fst (db_store_model_entry m f)) f = run_ops (fst (critical m (prep (m_key m) f))) (prep (m_key m) f).
Proof.
  intros Hr Hk. set (K := m_key m).
  destruct (pre_mkdir K f Hr Hk) as [ops1 [E1 F1]].
  destruct (pre_touch (prep0 K f) (ready_prep0 K f Hr)) as [ops2 [E2 F2]].
  assert (EL : lock db_lock (prep0 K f) = (ops2 ++ [OpenL db_lock], inr tt)) by (rewrite lock_eq, E2; reflexivity).
  assert (FL : run_ops (ops2 ++ [OpenL db_lock]) (prep0 K f) = prep K f).
  { rewrite run_ops_app, F2. reflexivity. }
  change (db_store_model_entry m) with (bind (mkdir_p (meta_dir K)) (fun _ => bind (lock db_lock) (fun _ => rest m))).
  rewrite critical_eq. cbn [fst snd].
  destruct (rest m (prep K f)) as [ops3 r3] eqn:E3.
  assert (EX : bind (lock db_lock) (fun _ => rest m) (run_ops ops1 f) = ((ops2 ++ [OpenL db_lock]) ++ ops3, r3)).
  { rewrite F1. apply (bind_run _ _ _ _ tt _ _ EL). rewrite FL. exact E3. }
  rewrite (bind_run _ _ _ _ tt _ _ E1 EX). cbn [fst snd]. split; [reflexivity|].
  rewrite !run_ops_app, F1, F2. reflexivity.
Qed.

(* ========================================================================================= *)
(* 6. one writer, seen from its own subtree                                                   *)
Definition prepc (p : pc) : bool := match p with P0 | P1 | P2 | P3 | P4 | P5 => true | _ => false end.

Lemma R_one_r S D (D_ok : forall d c, D d = true -> S (d ++ [c]) = false) o f g :
  R S D f g -> inS S o = true -> R S D f (apply_op o g).
Proof. intros HR Hi. apply R_sym. apply R_one; [exact D_ok | apply R_sym; exact HR | exact Hi]. Qed.
Lemma R_one_run_r S D (D_ok : forall d c, D d = true -> S (d ++ [c]) = false) ops f g :
  R S D f g -> forallb (inS S) ops = true -> R S D f (run_ops ops g).
Proof. intros HR Hi. apply R_sym. apply R_one_run; [exact D_ok | apply R_sym; exact HR | exact Hi]. Qed.

Definition pre_op (K : N) (o : op) : Prop :=
  o = Mkdir (key_dir K) \/ o = Mkdir (meta_dir K) \/ o = Utime db_lock \/ o = OpenC db_lock.

Lemma pre_op_inS S K o :
  S (key_dir K) = true -> S (meta_dir K) = true -> S db_lock = true -> pre_op K o -> inS S o = true.
Proof. intros H1 H2 H3 [->|[->|[->| ->]]]; unfold inS; cbn [wtarget wsource]; rewrite ?H1, ?H2, ?H3; reflexivity. Qed.

Lemma SQ_under K p : under K p = true -> SQ K p = false.
Proof. unfold SQ. intros ->. reflexivity. Qed.
Lemma under_key K r : under K (CDb :: CKey K :: r) = true.
Proof. cbn. apply N.eqb_refl. Qed.

Section Writer.
Variable m : mdl.
Let K := m_key m.
Variable K' : N.
Hypothesis HKK : K <> K'.
Variable f0 : fs.
Hypothesis Hr0 : ready f0.
Hypothesis Hks : kshape K f0.

Definition stage (p : pc) : fs :=
  match p with P0 | P1 => f0 | P2 => apply_op (Mkdir (key_dir K)) f0 | _ => prep0 K f0 end.

Let Q := R (SQ K) (DQ K).

Lemma SQ_key : SQ K (key_dir K) = false.
Proof. apply SQ_under. apply under_key. Qed.
Lemma SQ_meta : SQ K (meta_dir K) = false.
Proof. apply SQ_under. apply under_key. Qed.

Lemma Q_mkdir_key g h : Q g h -> ready g -> ready h -> Q (apply_op (Mkdir (key_dir K)) g) (apply_op (Mkdir (key_dir K)) h).
Proof.
  intros HQ Hg Hh. apply R_mkdir; [exact HQ | exact SQ_key|].
  change (is_dir g [CDb] = is_dir h [CDb]). unfold ready in Hg, Hh. rewrite Hg, Hh. reflexivity.
Qed.
Lemma Q_mkdir_meta g h : Q g h -> Q (apply_op (Mkdir (meta_dir K)) g) (apply_op (Mkdir (meta_dir K)) h).
Proof.
  intros HQ. apply R_mkdir; [exact HQ | exact SQ_meta|].
  change (is_dir g (key_dir K) = is_dir h (key_dir K)). unfold is_dir. rewrite (proj1 HQ _ SQ_key). reflexivity.
Qed.
Lemma Q_prep0 g h : Q g h -> ready g -> ready h -> Q (prep0 K g) (prep0 K h).
Proof. intros HQ Hg Hh. unfold prep0. apply Q_mkdir_meta, Q_mkdir_key; assumption. Qed.

Lemma stage2_key : is_dir (apply_op (Mkdir (key_dir K)) f0) (key_dir K) = true.
Proof.
  destruct Hks as [[Hk|Hk] _].
  - rewrite apply_mkdir_fresh; [unfold is_dir; rewrite lookup_set_same; reflexivity | unfold exists_; rewrite Hk; reflexivity | exact Hr0].
  - rewrite apply_mkdir_noop by (left; unfold exists_; rewrite Hk; reflexivity). unfold is_dir. rewrite Hk. reflexivity.
Qed.
Lemma stage2_meta : lookup (apply_op (Mkdir (key_dir K)) f0) (meta_dir K) = lookup f0 (meta_dir K).
Proof. apply apply_op_frame; cbn; discriminate. Qed.

Lemma pre_step p g : Q g (stage p) -> ready g -> prepc p = true -> p <> P5 ->
  exists o p', tstep m p g = ([o], p') /\ prepc p' = true /\ Q (apply_op o g) (stage p') /\ pre_op K o
               /\ (p' = P5 -> exists_ (apply_op o g) db_lock = true).
Proof.
  intros HQ Hg Hp Hn5. destruct Hks as [Hk [Hm Himp]].
  destruct p; try discriminate; try congruence; cbn [tstep stage] in *; fold K.
  - (* P0 *)
    exists (Mkdir (meta_dir K)), (mk_step (meta_dir K) g P3 P1). split; [reflexivity|].
    pose proof (Q_mkdir_meta g f0 HQ) as Qm. unfold mk_step.
    change (parent_ok g (meta_dir K)) with (is_dir g (key_dir K)). unfold exists_, is_dir.
    rewrite (proj1 HQ _ SQ_meta), (proj1 HQ _ SQ_key).
    destruct Hm as [Hm|Hm]; rewrite Hm.
    + destruct Hk as [Hk|Hk]; rewrite Hk; cbv beta iota; cbn [stage prepc].
      * split; [reflexivity|]. split; [|split; [right; left; reflexivity | discriminate]].
        rewrite (apply_mkdir_noop f0 (meta_dir K)) in Qm; [exact Qm | right; change (is_dir f0 (key_dir K) = false); unfold is_dir; rewrite Hk; reflexivity].
      * split; [reflexivity|]. split; [|split; [right; left; reflexivity | discriminate]]. unfold prep0.
        rewrite (apply_mkdir_noop f0 (key_dir K)) by (left; unfold exists_; rewrite Hk; reflexivity). exact Qm.
    + destruct Hk as [Hk|Hk]; [rewrite (Himp Hk) in Hm; discriminate|]. rewrite ?Hk; cbv beta iota; cbn [stage prepc].
      split; [reflexivity|]. split; [|split; [right; left; reflexivity | discriminate]]. unfold prep0.
      rewrite (apply_mkdir_noop f0 (key_dir K)) by (left; unfold exists_; rewrite Hk; reflexivity). exact Qm.
  - (* P1 *)
    exists (Mkdir (key_dir K)), (mk_step (key_dir K) g P2 (PFail EFileNotFound)). split; [reflexivity|].
    pose proof (Q_mkdir_key g f0 HQ Hg Hr0) as Qk. unfold mk_step.
    change (parent_ok g (key_dir K)) with (is_dir g [CDb]). unfold ready in Hg. rewrite Hg. unfold exists_, is_dir.
    rewrite (proj1 HQ _ SQ_key).
    destruct Hk as [Hk|Hk]; rewrite Hk; cbv beta iota; cbn [stage prepc]; (split; [reflexivity|]; split; [exact Qk|]; split; [left; reflexivity | discriminate]).
  - (* P2 *)
    exists (Mkdir (meta_dir K)), (mk_step (meta_dir K) g P3 (PFail EFileNotFound)). split; [reflexivity|].
    pose proof (Q_mkdir_meta g _ HQ) as Qm. unfold mk_step.
    change (parent_ok g (meta_dir K)) with (is_dir g (key_dir K)). unfold exists_.
    rewrite (proj1 HQ _ SQ_meta), stage2_meta.
    assert (Hd : is_dir g (key_dir K) = true) by (unfold is_dir; rewrite (proj1 HQ _ SQ_key); exact stage2_key).
    rewrite Hd. unfold is_dir. rewrite (proj1 HQ _ SQ_meta), stage2_meta.
    destruct Hm as [Hm|Hm]; rewrite Hm; cbv beta iota; cbn [stage prepc]; (split; [reflexivity|]; split; [exact Qm|]; split; [right; left; reflexivity | discriminate]).
  - (* P3 *)
    exists (Utime db_lock), (if exists_ g db_lock then P5 else P4). split; [reflexivity|].
    change (apply_op (Utime db_lock) g) with g.
    destruct (exists_ g db_lock) eqn:E; cbn [stage prepc]; (split; [reflexivity|]; split; [exact HQ|]; split; [right; right; left; reflexivity|]).
    + intros _. reflexivity.
    + discriminate.
  - (* P4 *)
    exists (OpenC db_lock), (if parent_ok g db_lock then P5 else PFail EFileNotFound). split; [reflexivity|].
    change (parent_ok g db_lock) with (is_dir g [CDb]). unfold ready in Hg. rewrite Hg.
    split; [reflexivity|]. split; [|split; [right; right; right; reflexivity|]].
    + apply R_one; [apply DQ_ok | exact HQ | reflexivity].
    + intros _. cbn [apply_op]. change (parent_ok g db_lock) with (is_dir g [CDb]). rewrite Hg. cbn [andb].
      destruct (exists_ g db_lock) eqn:E; cbn [negb]; [exact E|]. unfold exists_. rewrite lookup_set_same. reflexivity.
Qed.

(* the locked section, from a state g that agrees with the serial reference x on this key's subtree and
   on the common part *)
Lemma crit_step g x :
  Q g (prep0 K f0) -> R (SC K K') (DC K K') g x -> ready x -> Q f0 x ->
  let a := prep K x in
  critical m g = critical m a
  /\ forallb (av (SW K')) (fst (critical m a)) = true
  /\ Q (run_ops (fst (critical m a)) g) (run_ops (fst (critical m a)) a)
  /\ R (SC K K') (DC K K') (run_ops (fst (critical m a)) g) (run_ops (fst (critical m a)) a).
Proof.
  intros HQ HC Hx HQx a.
  assert (HQa : Q g a).
  { apply (R_trans _ _ g (prep0 K f0) a HQ). apply (R_trans _ _ _ (prep0 K x) a).
    - apply Q_prep0; assumption.
    - apply R_one_r; [apply DQ_ok | apply R_refl | reflexivity]. }
  assert (HCa : R (SC K K') (DC K K') g a).
  { apply (R_trans _ _ g x a HC). unfold a, prep, prep0.
    assert (Hu : forall r, SC K K' (CDb :: CKey K :: r) = true) by (intros r; unfold SC; rewrite under_key; reflexivity).
    apply R_one_r; [apply DC_ok | | reflexivity].
    apply R_one_r; [apply DC_ok | | apply andb_true_iff; split; [exact (Hu [CPharmpy]) | reflexivity]].
    apply R_one_r; [apply DC_ok | apply R_refl | apply andb_true_iff; split; [exact (Hu []) | reflexivity]]. }
  pose proof (RW_join K K' g a HKK HQa HCa) as HW.
  assert (Hsim : sim (SW K') (DW K') (critical m)).
  { apply sim_critical; try reflexivity.
    intros r. fold K. unfold SW. cbn. apply N.eqb_neq in HKK. rewrite HKK. reflexivity. }
  destruct (Hsim g a HW) as [E Ha]. rewrite E in Ha. split; [exact E|]. split; [exact Ha|].
  pose proof (R_run (SW K') (DW K') _ g a HW Ha) as HW2.
  split; [apply (RW_Q K K' _ _ HKK HW2) | apply (RW_C K K' _ _ HW2)].
Qed.
End Writer.

(* ========================================================================================= *)
(* 7. a writer alone = the program of the model                                               *)
Lemma sim_crit_W m K' : m_key m <> K' -> sim (SW K') (DW K') (critical m).
Proof.
  intros HKK. apply sim_critical; try reflexivity.
  intros r. unfold SW. cbn. apply N.eqb_neq in HKK. rewrite HKK. reflexivity.
Qed.

Lemma run_one i f : run [i] f = run_ops (item_ops i f) f.
Proof. unfold run. cbn [trace]. rewrite app_nil_r. reflexivity. Qed.
Lemma run_cons i w f : run (i :: w) f = run w (run [i] f).
Proof. rewrite run_one. unfold run. cbn [trace]. rewrite run_ops_app. reflexivity. Qed.

Lemma serial_facts m K' f :
  J f -> ready f -> exists_ f (pending (m_key m)) = false -> m_key m <> K' ->
  snd (critical m (prep (m_key m) f)) = inr tt
  /\ run [WDbStore m] f = run_ops (fst (critical m (prep (m_key m) f))) (prep (m_key m) f)
  /\ J (run [WDbStore m] f) /\ ready (run [WDbStore m] f)
  /\ forallb (av (SW K')) (fst (critical m (prep (m_key m) f))) = true.
Proof.
  intros HJ Hr Hp HKK. destruct (db_store_succeeds_lemma f m HJ Hp) as [E1 [_ HJ2]].
  destruct (db_store_decomp m f Hr (kshape_of_shape _ f (proj1 HJ))) as [E2 E3].
  unfold item_res in E1. cbn [item_prog] in E1. rewrite E2 in E1. split; [exact E1|].
  rewrite run_one in *. unfold item_ops in *. cbn [item_prog] in *. split; [exact E3|]. split; [exact HJ2|].
  split; [apply ready_ops; exact Hr|].
  destruct (sim_crit_W m K' HKK _ _ (R_refl _ _ (prep (m_key m) f))) as [_ Ha]. exact Ha.
Qed.

Lemma prep_frame K f q : q <> key_dir K -> q <> meta_dir K -> q <> db_lock -> lookup (prep K f) q = lookup f q.
Proof.
  intros H1 H2 H3. unfold prep, prep0. rewrite !apply_op_frame; try reflexivity; cbn; congruence.
Qed.
Lemma prep_lock K f : ready f ->
  lookup (prep K f) db_lock = match lookup f db_lock with None => Some (File []) | x => x end.
Proof.
  intros Hr. pose proof (ready_prep0 K f Hr) as Hr2. unfold ready in Hr2.
  assert (E : lookup (prep0 K f) db_lock = lookup f db_lock).
  { unfold prep0. rewrite !apply_op_frame; try reflexivity; cbn; discriminate. }
  unfold prep. cbn [apply_op]. change (parent_ok (prep0 K f) db_lock) with (is_dir (prep0 K f) [CDb]). rewrite Hr2.
  unfold exists_. rewrite E. destruct (lookup f db_lock) as [n|] eqn:E2; cbn [andb negb].
  - rewrite E. reflexivity.
  - apply lookup_set_same.
Qed.

(* ========================================================================================= *)
(* 8. the invariant of the two-writer machine                                                  *)
Lemma SQ_other K K' r : K <> K' -> SQ K (CDb :: CKey K' :: r) = true.
Proof. intros H. unfold SQ. cbn. apply negb_true_iff. apply N.eqb_neq. congruence. Qed.
Lemma SW_SQ K' p : SW K' p = false -> SQ K' p = true.
Proof. unfold SW, SQ. intros H. apply orb_false_iff in H. destruct H as [-> _]. reflexivity. Qed.
Lemma SC_key K K' r : SC K K' (CDb :: CKey K :: r) = true.
Proof. unfold SC. rewrite under_key. reflexivity. Qed.
Lemma SC_key' K K' r : SC K K' (CDb :: CKey K' :: r) = true.
Proof. unfold SC. rewrite (under_key K'), orb_true_r. reflexivity. Qed.

Lemma one_prep S D (D_ok : forall d c, D d = true -> S (d ++ [c]) = false) K f g :
  S (key_dir K) = true -> S (meta_dir K) = true -> S db_lock = true -> R S D f g -> R S D f (prep K g).
Proof.
  intros H1 H2 H3 HR. unfold prep, prep0.
  apply R_one_r; [exact D_ok | | unfold inS; cbn [wtarget wsource]; rewrite H3; reflexivity].
  apply R_one_r; [exact D_ok | | unfold inS; cbn [wtarget wsource]; rewrite H2; reflexivity].
  apply R_one_r; [exact D_ok | exact HR | unfold inS; cbn [wtarget wsource]; rewrite H1; reflexivity].
Qed.

Definition Lk (f0 g : fs) : Prop :=
  lookup g db_lock = lookup f0 db_lock \/ (lookup f0 db_lock = None /\ lookup g db_lock = Some (File [])).
Definition haslock (p : pc) (g : fs) : Prop := p = P5 \/ p = PDone -> exists_ g db_lock = true.

Lemma pre_op_lock K o g :
  pre_op K o -> lookup (apply_op o g) db_lock = lookup g db_lock \/ o = OpenC db_lock.
Proof.
  intros [->|[->|[->| ->]]]; [left | left | left | right; reflexivity];
    try (apply apply_op_frame; cbn; discriminate).
Qed.
Lemma Lk_pre K o f0 g : pre_op K o -> Lk f0 g -> Lk f0 (apply_op o g).
Proof.
  intros Hp HL. destruct (pre_op_lock K o g Hp) as [E| ->]; [unfold Lk; rewrite E; exact HL|].
  cbn [apply_op]. destruct (parent_ok g db_lock && negb (exists_ g db_lock)) eqn:E; [|exact HL].
  apply andb_true_iff in E. destruct E as [_ E]. apply negb_true_iff in E. unfold exists_ in E.
  destruct (lookup g db_lock) eqn:E2; [discriminate|]. unfold Lk. rewrite lookup_set_same.
  destruct HL as [HL|[_ HL]]; [right; split; [rewrite <- HL; exact E2 | reflexivity] | rewrite E2 in HL; discriminate].
Qed.
Lemma exists_pre K o g : pre_op K o -> exists_ g db_lock = true -> exists_ (apply_op o g) db_lock = true.
Proof.
  intros Hp He. destruct (pre_op_lock K o g Hp) as [E| ->]; [unfold exists_ in *; rewrite E; exact He|].
  cbn [apply_op]. rewrite He, andb_false_r. exact He.
Qed.
Lemma prepc_not_done p : prepc p = true -> done p = false.
Proof. destruct p; try discriminate; reflexivity. Qed.

Definition full (K1 K2 : N) (g x : fs) : Prop :=
  R (SQ K1) (DQ K1) g x /\ R (SQ K2) (DQ K2) g x /\ R (SC K1 K2) (DC K1 K2) g x.

Definition view (m1 m2 : mdl) (f0 : fs) (p1 p2 : pc) (g : fs) : Prop :=
  let K1 := m_key m1 in let K2 := m_key m2 in
  if done p1 then
    if done p2 then full K1 K2 g (run [WDbStore m1; WDbStore m2] f0) \/ full K1 K2 g (run [WDbStore m2; WDbStore m1] f0)
    else prepc p2 = true /\ R (SQ K1) (DQ K1) g (run [WDbStore m1] f0) /\ R (SC K1 K2) (DC K1 K2) g (run [WDbStore m1] f0)
         /\ R (SQ K2) (DQ K2) g (stage m2 f0 p2)
  else
    if done p2 then
      prepc p1 = true /\ R (SQ K2) (DQ K2) g (run [WDbStore m2] f0) /\ R (SC K1 K2) (DC K1 K2) g (run [WDbStore m2] f0)
      /\ R (SQ K1) (DQ K1) g (stage m1 f0 p1)
    else prepc p1 = true /\ prepc p2 = true /\ R (SQ K1) (DQ K1) g (stage m1 f0 p1)
         /\ R (SQ K2) (DQ K2) g (stage m2 f0 p2) /\ R (SC K1 K2) (DC K1 K2) g f0.

Definition WInv (m1 m2 : mdl) (f0 : fs) (p1 p2 : pc) (g : fs) : Prop :=
  ready g /\ Lk f0 g /\ haslock p1 g /\ haslock p2 g /\ view m1 m2 f0 p1 p2 g.

Lemma WInv_swap m1 m2 f0 p1 p2 g : WInv m1 m2 f0 p1 p2 g -> WInv m2 m1 f0 p2 p1 g.
Proof.
  intros [H1 [H2 [H3 [H4 Hv]]]]. split; [exact H1|]. split; [exact H2|]. split; [exact H4|]. split; [exact H3|].
  unfold view in *. cbv zeta in *. destruct (done p1), (done p2).
  - destruct Hv as [[A [B C]]|[A [B C]]]; [right | left]; (split; [exact B | split; [exact A | apply RC_swap; exact C]]).
  - destruct Hv as [A [B [C E]]]. split; [exact A|]. split; [exact B|]. split; [apply RC_swap; exact C | exact E].
  - destruct Hv as [A [B [C E]]]. split; [exact A|]. split; [exact B|]. split; [apply RC_swap; exact C | exact E].
  - destruct Hv as [A [B [C [E F]]]]. split; [exact B|]. split; [exact A|]. split; [exact E|]. split; [exact C | apply RC_swap; exact F].
Qed.

Section Move.
Variables m1 m2 : mdl.
Let K1 := m_key m1.
Let K2 := m_key m2.
Hypothesis HK : K1 <> K2.
Variable f0 : fs.
Hypothesis HJ : J f0.
Hypothesis Hr0 : ready f0.
Hypothesis Hp1 : exists_ f0 (pending K1) = false.
Hypothesis Hp2 : exists_ f0 (pending K2) = false.

Let HK' : K2 <> K1 := fun E => HK (eq_sym E).

(* the facts about "writer 2 first" that writer 1 needs when it comes second *)
Lemma other_first :
  let x := run [WDbStore m2] f0 in
  J x /\ ready x /\ exists_ x (pending K1) = false /\ R (SQ K1) (DQ K1) f0 x.
Proof.
  intros x. destruct (serial_facts m2 K1 f0 HJ Hr0 Hp2 HK') as [_ [E [HJx [Hrx Ha]]]]. fold K2 in E, Ha.
  split; [exact HJx|]. split; [exact Hrx|]. unfold x. rewrite E. split.
  - unfold exists_. rewrite (avs_frame (SW K1) _ _ _ Ha) by (unfold SW; fold K1; cbn; rewrite N.eqb_refl; reflexivity).
    rewrite prep_frame; [exact Hp1 | | |]; unfold pending, key_dir, meta_dir, db_lock; congruence.
  - apply R_one_run_r; [apply DQ_ok | | apply (avs_inS (SW K1) (SQ K1) _ (SW_SQ K1) Ha)].
    apply one_prep; [apply DQ_ok | apply (SQ_other K1 K2 [] HK) | apply (SQ_other K1 K2 [CPharmpy] HK) | reflexivity | apply R_refl].
Qed.

Lemma move1 p1 p2 g ops p1' :
  WInv m1 m2 f0 p1 p2 g -> tstep m1 p1 g = (ops, p1') -> WInv m1 m2 f0 p1' p2 (run_ops ops g).
Proof.
  intros [Hrg [HLk [Hl1 [Hl2 Hv]]]] Hstep.
  destruct (done p1) eqn:Ed1.
  { destruct p1; try discriminate. cbn in Hstep. injection Hstep as <- <-. change (run_ops [] g) with g.
    split; [exact Hrg|]. split; [exact HLk|]. split; [exact Hl1|]. split; [exact Hl2 | exact Hv]. }
  unfold view in Hv. cbv zeta in Hv. fold K1 K2 in Hv. rewrite Ed1 in Hv.
  assert (Hpc : prepc p1 = true) by (destruct (done p2); [destruct Hv as [H _] | destruct Hv as [H _]]; exact H).
  assert (HQ1 : R (SQ K1) (DQ K1) g (stage m1 f0 p1)).
  { destruct (done p2); [destruct Hv as [_ [_ [_ H]]] | destruct Hv as [_ [_ [H _]]]]; exact H. }
  assert (Hks1 : kshape K1 f0) by (apply kshape_of_shape; exact (proj1 HJ)).
  assert (D5 : p1 = P5 \/ p1 <> P5) by (destruct p1; try (right; discriminate); left; reflexivity).
  destruct D5 as [->|Hn5].
  2:{ (* a step before the lock *)
      destruct (pre_step m1 f0 Hr0 Hks1 p1 g HQ1 Hrg Hpc Hn5) as [o [p' [Et [Hpc' [HQ' [Hpre Hlock']]]]]].
      rewrite Et in Hstep. injection Hstep as <- <-. change (run_ops [o] g) with (apply_op o g). fold K1 in Hpre, HQ'.
      split; [apply ready_op; exact Hrg|]. split; [apply (Lk_pre K1); assumption|].
      split; [intros [->| ->]; [apply Hlock'; reflexivity | discriminate Hpc']|].
      split; [intros H; apply (exists_pre K1); [exact Hpre | apply Hl2; exact H]|].
      unfold view. cbv zeta. fold K1 K2. rewrite (prepc_not_done _ Hpc').
      assert (I2 : inS (SQ K2) o = true).
      { apply (pre_op_inS (SQ K2) K1 o); [apply (SQ_other K2 K1 [] HK') | apply (SQ_other K2 K1 [CPharmpy] HK') | reflexivity | exact Hpre]. }
      assert (IC : inS (SC K1 K2) o = true).
      { apply (pre_op_inS (SC K1 K2) K1 o); [apply (SC_key K1 K2 []) | apply (SC_key K1 K2 [CPharmpy]) | reflexivity | exact Hpre]. }
      destruct (done p2).
      - destruct Hv as [_ [A [B _]]]. split; [exact Hpc'|]. split; [apply R_one; [apply DQ_ok | exact A | exact I2]|].
        split; [apply R_one; [apply DC_ok | exact B | exact IC] | exact HQ'].
      - destruct Hv as [_ [A [_ [B C]]]]. split; [exact Hpc'|]. split; [exact A|]. split; [exact HQ'|].
        split; [apply R_one; [apply DQ_ok | exact B | exact I2] | apply R_one; [apply DC_ok | exact C | exact IC]]. }
  (* the locked section *)
  cbn [tstep] in Hstep. cbn [stage] in HQ1. fold K1 in HQ1.
  assert (Hlockg : exists_ g db_lock = true) by (apply Hl1; left; reflexivity).
  assert (Wlock : SW K2 db_lock = true) by reflexivity.
  destruct (done p2) eqn:Ed2.
  - (* writer 2 has committed: this is the second locked section *)
    destruct Hv as [_ [A [B _]]]. destruct other_first as [HJx [Hrx [Hpx HQx]]].
    set (x := run [WDbStore m2] f0) in *.
    destruct (crit_step m1 K2 HK f0 Hr0 g x HQ1 B Hrx HQx) as [E [Ha [HQ' HC']]]. fold K1 in E, Ha, HQ', HC'.
    destruct (serial_facts m1 K2 x HJx Hrx Hpx HK) as [Eres [Erun _]]. fold K1 in Eres, Erun.
    assert (E21 : run [WDbStore m2; WDbStore m1] f0 = run_ops (fst (critical m1 (prep K1 x))) (prep K1 x)).
    { rewrite run_cons. exact Erun. }
    rewrite E in Hstep. destruct (critical m1 (prep K1 x)) as [d1 r] eqn:Ec. cbn [fst snd] in *. subst r.
    injection Hstep as <- <-.
    split; [apply ready_ops; exact Hrg|].
    split; [unfold Lk; rewrite (avs_frame (SW K2) d1 g db_lock Ha Wlock); exact HLk|].
    split; [intros _; unfold exists_; rewrite (avs_frame (SW K2) d1 g db_lock Ha Wlock); exact Hlockg|].
    split; [intros H; unfold exists_; rewrite (avs_frame (SW K2) d1 g db_lock Ha Wlock); apply Hl2; exact H|].
    unfold view. cbv zeta. fold K1 K2. rewrite Ed2. cbn [done]. right. rewrite E21. split; [exact HQ'|]. split; [|exact HC'].
    pose proof (avs_inS (SW K2) (SQ K2) d1 (SW_SQ K2) Ha) as I2.
    apply (R_trans _ _ _ x).
    + apply R_one_run; [apply DQ_ok | exact A | exact I2].
    + apply R_one_run_r; [apply DQ_ok | | exact I2].
      apply one_prep; [apply DQ_ok | apply (SQ_other K2 K1 [] HK') | apply (SQ_other K2 K1 [CPharmpy] HK') | reflexivity | apply R_refl].
  - (* the first locked section *)
    destruct Hv as [_ [Hpc2 [_ [A B]]]].
    destruct (crit_step m1 K2 HK f0 Hr0 g f0 HQ1 B Hr0 (R_refl _ _ f0)) as [E [Ha [HQ' HC']]]. fold K1 in E, Ha, HQ', HC'.
    destruct (serial_facts m1 K2 f0 HJ Hr0 Hp1 HK) as [Eres [Erun _]]. fold K1 in Eres, Erun.
    rewrite E in Hstep. destruct (critical m1 (prep K1 f0)) as [d1 r] eqn:Ec. cbn [fst snd] in *. subst r.
    injection Hstep as <- <-.
    split; [apply ready_ops; exact Hrg|].
    split; [unfold Lk; rewrite (avs_frame (SW K2) d1 g db_lock Ha Wlock); exact HLk|].
    split; [intros _; unfold exists_; rewrite (avs_frame (SW K2) d1 g db_lock Ha Wlock); exact Hlockg|].
    split; [intros H; unfold exists_; rewrite (avs_frame (SW K2) d1 g db_lock Ha Wlock); apply Hl2; exact H|].
    unfold view. cbv zeta. fold K1 K2. rewrite Ed2. cbn [done]. rewrite Erun.
    split; [exact Hpc2|]. split; [exact HQ'|]. split; [exact HC'|].
    apply R_one_run; [apply DQ_ok | exact A | apply (avs_inS (SW K2) (SQ K2) d1 (SW_SQ K2) Ha)].
Qed.

Definition lock0 (f : fs) : option node := match lookup f db_lock with None => Some (File []) | x => x end.

Lemma lock_21 : lookup (run [WDbStore m2; WDbStore m1] f0) db_lock = lock0 f0.
Proof.
  destruct other_first as [HJx [Hrx [Hpx _]]]. rewrite run_cons. set (x := run [WDbStore m2] f0) in *.
  destruct (serial_facts m1 K2 x HJx Hrx Hpx HK) as [_ [E [_ [_ Ha]]]]. rewrite E.
  rewrite (avs_frame (SW K2) _ _ db_lock Ha eq_refl), (prep_lock _ x Hrx).
  destruct (serial_facts m2 K1 f0 HJ Hr0 Hp2 HK') as [_ [E2 [_ [_ Ha2]]]]. unfold x. rewrite E2.
  rewrite (avs_frame (SW K1) _ _ db_lock Ha2 eq_refl), (prep_lock _ f0 Hr0).
  unfold lock0. destruct (lookup f0 db_lock); reflexivity.
Qed.
End Move.

(* ========================================================================================= *)
(* 9. every schedule                                                                          *)
Definition mu (p : pc) : nat := match p with P0 => 6 | P1 => 5 | P2 => 4 | P3 => 3 | P4 => 2 | P5 => 1 | _ => 0 end.

Lemma tstep_mu m p f : mu (snd (tstep m p f)) <= pred (mu p).
Proof.
  destruct p; cbn [tstep]; unfold mk_step; try (destruct (critical m f) as [ops [e|a]]);
    repeat match goal with |- context [if ?b then _ else _] => destruct b end; cbn [snd mu pred]; lia.
Qed.
Lemma running_mu p : running p = false -> mu p = 0.
Proof. destruct p; cbn; try discriminate; reflexivity. Qed.
Lemma mu_running p : mu p = 0 -> running p = false.
Proof. destruct p; cbn; try discriminate; reflexivity. Qed.
Lemma running_mu1 p : running p = true -> 1 <= mu p.
Proof. destruct p; cbn; try discriminate; lia. Qed.

Definition musum (s : cstate) : nat := mu (c_p1 s) + mu (c_p2 s).

Lemma cstep_mu m1 m2 b s : musum (cstep m1 m2 b s) <= pred (musum s).
Proof.
  destruct s as [p1 p2 g]. unfold cstep, musum. cbn [c_p1 c_p2 c_fs].
  pose proof (tstep_mu m1 p1 g) as T1. pose proof (tstep_mu m2 p2 g) as T2.
  destruct (running p1) eqn:R1, (running p2) eqn:R2, b; cbn [orb andb negb];
    try (apply running_mu in R1); try (apply running_mu in R2); try (apply running_mu1 in R1); try (apply running_mu1 in R2);
    (destruct (tstep m1 p1 g) as [o1 q1]; destruct (tstep m2 p2 g) as [o2 q2]; cbn [c_p1 c_p2 snd] in *; lia).
Qed.

Lemma crun_mu m1 m2 sched : forall s, musum (fold_left (fun s b => cstep m1 m2 b s) sched s) <= musum s - length sched.
Proof.
  induction sched as [|b l IH]; intros s; cbn [fold_left length]; [lia|].
  pose proof (IH (cstep m1 m2 b s)) as H. pose proof (cstep_mu m1 m2 b s) as H2. lia.
Qed.

(* twelve steps are enough for every schedule *)
Lemma schedule_completes m1 m2 f sched : 12 <= length sched ->
  running (c_p1 (crun m1 m2 sched f)) = false /\ running (c_p2 (crun m1 m2 sched f)) = false.
Proof.
  intros H. pose proof (crun_mu m1 m2 sched (mkC P0 P0 f)) as Hm. unfold crun. unfold musum in Hm at 2. cbn [c_p1 c_p2 mu] in Hm.
  unfold musum in Hm. split; apply mu_running; lia.
Qed.

Definition fs_equiv (f g : fs) : Prop := forall p, lookup f p = lookup g p.

Lemma full_lookup K1 K2 g x : full K1 K2 g x -> lookup g db_lock = lookup x db_lock -> fs_equiv g x.
Proof.
  intros [A [B C]] HL p.
  destruct (under K1 p) eqn:E1; [apply (proj1 A); apply SQ_under; exact E1|].
  destruct (under K2 p) eqn:E2; [apply (proj1 B); apply SQ_under; exact E2|].
  destruct (lockp p) eqn:E3; [apply path_eqb_eq in E3; subst p; exact HL|].
  apply (proj1 C). unfold SC. rewrite E1, E2, E3. reflexivity.
Qed.

Lemma lock_value f0 g : Lk f0 g -> exists_ g db_lock = true -> lookup g db_lock = lock0 f0.
Proof.
  unfold Lk, lock0, exists_. intros [H|[H1 H2]] He.
  - rewrite <- H. destruct (lookup g db_lock); [reflexivity | discriminate].
  - rewrite H1. exact H2.
Qed.

Theorem two_writers_serializable_lemma :
  forall (m1 m2 : mdl) (f0 : fs) (sched : list bool),
    m_key m1 <> m_key m2 -> J f0 -> ready f0 ->
    exists_ f0 (pending (m_key m1)) = false -> exists_ f0 (pending (m_key m2)) = false ->
    let s := crun m1 m2 sched f0 in
    running (c_p1 s) = false -> running (c_p2 s) = false ->
    c_p1 s = PDone /\ c_p2 s = PDone
    /\ (fs_equiv (c_fs s) (run [WDbStore m1; WDbStore m2] f0) \/ fs_equiv (c_fs s) (run [WDbStore m2; WDbStore m1] f0)).
Proof.
  intros m1 m2 f0 sched HK HJ Hr0 Hp1 Hp2.
  assert (HK' : m_key m2 <> m_key m1) by congruence.
  assert (Hinv : forall l s, WInv m1 m2 f0 (c_p1 s) (c_p2 s) (c_fs s) ->
                   let s' := fold_left (fun s b => cstep m1 m2 b s) l s in WInv m1 m2 f0 (c_p1 s') (c_p2 s') (c_fs s')).
  { induction l as [|b l IH]; intros s H; [exact H|]. cbn [fold_left]. apply IH. unfold cstep.
    destruct (if b then running (c_p1 s) || negb (running (c_p2 s)) else negb (running (c_p2 s)) && running (c_p1 s)).
    - destruct (tstep m1 (c_p1 s) (c_fs s)) as [ops p] eqn:E. cbn [c_p1 c_p2 c_fs].
      apply (move1 m1 m2 HK f0 HJ Hr0 Hp1 Hp2 _ _ _ _ _ H E).
    - destruct (tstep m2 (c_p2 s) (c_fs s)) as [ops p] eqn:E. cbn [c_p1 c_p2 c_fs]. apply WInv_swap.
      apply (move1 m2 m1 HK' f0 HJ Hr0 Hp2 Hp1 _ _ _ _ _ (WInv_swap _ _ _ _ _ _ H) E). }
  assert (H0 : WInv m1 m2 f0 P0 P0 f0).
  { split; [exact Hr0|]. split; [left; reflexivity|]. split; [intros [H|H]; discriminate|]. split; [intros [H|H]; discriminate|].
    unfold view. cbn. split; [reflexivity|]. split; [reflexivity|]. split; [apply R_refl|]. split; apply R_refl. }
  intros s R1 R2. pose proof (Hinv sched (mkC P0 P0 f0) H0) as H. fold (crun m1 m2 sched f0) in H. fold s in H. cbv zeta in H.
  destruct H as [_ [HLk [Hl1 [_ Hv]]]].
  assert (D1 : c_p1 s = PDone).
  { destruct (c_p1 s) eqn:E; try discriminate; try reflexivity. unfold view in Hv. cbn [done] in Hv. cbv zeta in Hv.
    destruct (done (c_p2 s)); destruct Hv as [Hv _]; discriminate. }
  assert (D2 : c_p2 s = PDone).
  { destruct (c_p2 s) eqn:E; try discriminate; try reflexivity. unfold view in Hv. rewrite D1 in Hv. cbn [done] in Hv. cbv zeta in Hv.
    destruct Hv as [Hv _]. discriminate. }
  split; [exact D1|]. split; [exact D2|]. unfold view in Hv. rewrite D1, D2 in Hv. cbn [done] in Hv. cbv zeta in Hv.
  assert (HL : lookup (c_fs s) db_lock = lock0 f0) by (apply lock_value; [exact HLk | apply Hl1; right; exact D1]).
  destruct Hv as [Hf|Hf]; [left | right]; apply (full_lookup _ _ _ _ Hf); rewrite HL; symmetry.
  - apply (lock_21 m2 m1 HK' f0 HJ Hr0 Hp2 Hp1).
  - apply (lock_21 m1 m2 HK f0 HJ Hr0 Hp1 Hp2).
Qed.

(* ========================================================================================= *)
(* 10. two writers of a file that is guarded by its own lock file (annotations, log)           *)
Definition Slk (lk : path) (p : path) : bool := path_eqb p lk.
Definition D0 (d : path) : bool := false.
Lemma D0_ok lk d c : D0 d = true -> Slk lk (d ++ [c]) = false.
Proof. discriminate. Qed.

(* `with self._write_lock(...): body` *)
Definition lwrite (lk : path) (b : M unit) : M unit := lock lk ;; b.

Inductive lpc := L0 | L1 | L2 | LDone | LFail (e : err).
(* Path.touch of the lock file is two system calls, the locked body one step (mutual exclusion: C15) *)
Definition lstep (lk : path) (b : M unit) (p : lpc) (f : fs) : list op * lpc :=
  match p with
  | L0 => ([Utime lk], if exists_ f lk then L2 else L1)
  | L1 => ([OpenC lk], if parent_ok f lk then L2 else LFail EFileNotFound)
  | L2 => let '(ops, r) := b f in (OpenL lk :: ops, match r with inr _ => LDone | inl e => LFail e end)
  | _ => ([], p)
  end.
Definition lrunning (p : lpc) : bool := match p with L0 | L1 | L2 => true | _ => false end.
Definition lfin (p : lpc) : bool := negb (lrunning p).
Definition lres (p : lpc) : option (err + unit) :=
  match p with LDone => Some (inr tt) | LFail e => Some (inl e) | _ => None end.

Record lstate := mkL { l_p1 : lpc; l_p2 : lpc; l_fs : fs }.
Definition lcstep (lk : path) (b1 b2 : M unit) (c : bool) (s : lstate) : lstate :=
  let first := if c then lrunning (l_p1 s) || negb (lrunning (l_p2 s)) else negb (lrunning (l_p2 s)) && lrunning (l_p1 s) in
  if first then let '(ops, p) := lstep lk b1 (l_p1 s) (l_fs s) in mkL p (l_p2 s) (run_ops ops (l_fs s))
  else let '(ops, p) := lstep lk b2 (l_p2 s) (l_fs s) in mkL (l_p1 s) p (run_ops ops (l_fs s)).
Definition lcrun (lk : path) (b1 b2 : M unit) (sched : list bool) (f : fs) : lstate :=
  fold_left (fun s c => lcstep lk b1 b2 c s) sched (mkL L0 L0 f).

(* the serial reference: the program of the model *)
Definition ser (lk : path) (b : M unit) (f : fs) : fs := run_ops (fst (lwrite lk b f)) f.
Definition resu (lk : path) (b : M unit) (f : fs) : err + unit := snd (lwrite lk b f).

Lemma parent_ok_mono o g p : parent_ok g p = true -> parent_ok (apply_op o g) p = true.
Proof. destruct p as [|c p]; [reflexivity|]. apply is_dir_mono. Qed.
Lemma parent_ok_mono_ops ops : forall g p, parent_ok g p = true -> parent_ok (run_ops ops g) p = true.
Proof. induction ops as [|o ops IH]; intros g p H; [exact H|]. rewrite run_ops_cons. apply IH. apply parent_ok_mono. exact H. Qed.

Lemma touch_any lk f : parent_ok f lk = true ->
  exists ops, touch lk f = (ops, inr tt) /\ run_ops ops f = apply_op (OpenC lk) f.
Proof.
  intros Hp. rewrite touch_eq. destruct (exists_ f lk) eqn:E.
  - exists [Utime lk]. split; [reflexivity|]. unfold run_ops. cbn [fold_left apply_op]. rewrite E, andb_false_r. reflexivity.
  - rewrite Hp. exists [Utime lk; OpenC lk]. split; reflexivity.
Qed.

Lemma lwrite_decomp lk b f : parent_ok f lk = true ->
  resu lk b f = snd (b (apply_op (OpenC lk) f))
  /\ ser lk b f = run_ops (fst (b (apply_op (OpenC lk) f))) (apply_op (OpenC lk) f).
Proof.
  intros Hp. destruct (touch_any lk f Hp) as [ops [E F]].
  assert (EL : lock lk f = (ops ++ [OpenL lk], inr tt)) by (rewrite lock_eq, E; reflexivity).
  assert (FL : run_ops (ops ++ [OpenL lk]) f = apply_op (OpenC lk) f) by (rewrite run_ops_app, F; reflexivity).
  unfold resu, ser, lwrite. destruct (b (apply_op (OpenC lk) f)) as [ops2 r2] eqn:Eb.
  assert (Eb' : b (run_ops (ops ++ [OpenL lk]) f) = (ops2, r2)) by (rewrite FL; exact Eb).
  rewrite (bind_run _ _ _ _ tt _ _ EL Eb'). cbn [fst snd]. split; [reflexivity|]. rewrite run_ops_app, FL. reflexivity.
Qed.

Definition lockv (lk : path) (f : fs) : option node := match lookup f lk with None => Some (File []) | x => x end.

Lemma openc_lock lk f : parent_ok f lk = true -> lookup (apply_op (OpenC lk) f) lk = lockv lk f.
Proof.
  intros Hp. cbn [apply_op]. rewrite Hp. unfold exists_, lockv. destruct (lookup f lk) eqn:E; cbn [andb negb].
  - exact E.
  - apply lookup_set_same.
Qed.

Section Locked.
Variable lk : path.
Variables b1 b2 : M unit.
Variable f0 : fs.
Hypothesis Hpar0 : parent_ok f0 lk = true.

Let Rl := R (Slk lk) D0.
Let Slk_lk : Slk lk lk = true := path_eqb_refl lk.

Lemma inS_openc : inS (Slk lk) (OpenC lk) = true.
Proof. unfold inS. cbn [wtarget wsource]. rewrite Slk_lk. reflexivity. Qed.

Lemma ser_lock b f : sim (Slk lk) D0 b -> parent_ok f lk = true -> lookup (ser lk b f) lk = lockv lk f.
Proof.
  intros Hs Hp. destruct (lwrite_decomp lk b f Hp) as [_ E]. rewrite E.
  destruct (Hs _ _ (R_refl _ _ (apply_op (OpenC lk) f))) as [_ Ha].
  rewrite (avs_frame (Slk lk) _ _ lk Ha Slk_lk). apply openc_lock. exact Hp.
Qed.
Lemma ser_parent b f : parent_ok f lk = true -> parent_ok (ser lk b f) lk = true.
Proof. intros H. unfold ser. apply parent_ok_mono_ops. exact H. Qed.
Lemma lockv_idem f v : lookup f lk = lockv lk v -> lockv lk f = lockv lk v.
Proof. unfold lockv. intros ->. destruct (lookup v lk); reflexivity. Qed.

Definition Lkl (g : fs) : Prop := lookup g lk = lookup f0 lk \/ (lookup f0 lk = None /\ lookup g lk = Some (File [])).
Definition lhas (p : lpc) (g : fs) : Prop := p = L2 \/ lfin p = true -> exists_ g lk = true.

Definition lview (c1 c2 : M unit) (p1 p2 : lpc) (g : fs) : Prop :=
  if lfin p1 then
    if lfin p2 then
      (Rl g (ser lk c2 (ser lk c1 f0)) /\ lres p1 = Some (resu lk c1 f0) /\ lres p2 = Some (resu lk c2 (ser lk c1 f0)))
      \/ (Rl g (ser lk c1 (ser lk c2 f0)) /\ lres p2 = Some (resu lk c2 f0) /\ lres p1 = Some (resu lk c1 (ser lk c2 f0)))
    else Rl g (ser lk c1 f0) /\ lres p1 = Some (resu lk c1 f0)
  else if lfin p2 then Rl g (ser lk c2 f0) /\ lres p2 = Some (resu lk c2 f0)
  else Rl g f0.

Definition LInv (c1 c2 : M unit) (p1 p2 : lpc) (g : fs) : Prop :=
  parent_ok g lk = true /\ Lkl g /\ lhas p1 g /\ lhas p2 g /\ lview c1 c2 p1 p2 g.

Lemma LInv_swap c1 c2 p1 p2 g : LInv c1 c2 p1 p2 g -> LInv c2 c1 p2 p1 g.
Proof.
  intros [H1 [H2 [H3 [H4 Hv]]]]. split; [exact H1|]. split; [exact H2|]. split; [exact H4|]. split; [exact H3|].
  unfold lview in *. destruct (lfin p1), (lfin p2); try exact Hv. destruct Hv as [Hv|Hv]; [right | left]; exact Hv.
Qed.

Lemma lres_of r : lres (match r with inr _ => LDone | inl e => LFail e end) = Some r.
Proof. destruct r as [e|[]]; reflexivity. Qed.

(* the locked body from a state related to the serial reference x *)
Lemma body_step c g x :
  sim (Slk lk) D0 c -> Rl g x -> parent_ok x lk = true ->
  c g = c (apply_op (OpenC lk) x)
  /\ forallb (av (Slk lk)) (fst (c g)) = true
  /\ Rl (run_ops (fst (c g)) g) (ser lk c x) /\ snd (c g) = resu lk c x.
Proof.
  intros Hs HR Hp. assert (HR' : Rl g (apply_op (OpenC lk) x)) by (apply R_one_r; [apply D0_ok | exact HR | exact inS_openc]).
  destruct (Hs g _ HR') as [E Ha]. destruct (lwrite_decomp lk c x Hp) as [E1 E2].
  split; [exact E|]. split; [exact Ha|]. rewrite E1, E2, <- E. split; [|reflexivity].
  apply R_run; assumption.
Qed.

Lemma lmove1 c1 c2 p1 p2 g ops p1' :
  sim (Slk lk) D0 c1 -> sim (Slk lk) D0 c2 ->
  LInv c1 c2 p1 p2 g -> lstep lk c1 p1 g = (ops, p1') -> LInv c1 c2 p1' p2 (run_ops ops g).
Proof.
  intros Hs1 Hs2 [Hpg [HLk [Hl1 [Hl2 Hv]]]] Hstep. destruct p1; cbn [lstep] in Hstep.
  - (* L0 *)
    injection Hstep as <- <-. change (run_ops [Utime lk] g) with g.
    split; [exact Hpg|]. split; [exact HLk|]. split; [|split; [exact Hl2|]].
    + destruct (exists_ g lk) eqn:E; [intros _; exact E | intros [H|H]; discriminate].
    + unfold lview in *. destruct (exists_ g lk); exact Hv.
  - (* L1 *)
    rewrite Hpg in Hstep. injection Hstep as <- <-. change (run_ops [OpenC lk] g) with (apply_op (OpenC lk) g).
    assert (Hex : exists_ (apply_op (OpenC lk) g) lk = true).
    { unfold exists_. rewrite (openc_lock lk g Hpg). unfold lockv. destruct (lookup g lk); reflexivity. }
    split; [apply parent_ok_mono; exact Hpg|]. split; [|split; [intros _; exact Hex | split; [intros _; exact Hex|]]].
    + unfold Lkl in *. rewrite (openc_lock lk g Hpg). unfold lockv. destruct (lookup g lk) eqn:E; [exact HLk|].
      destruct HLk as [H|[_ H]]; [right; split; [symmetry; exact H | reflexivity] | discriminate].
    + unfold lview in *. cbn [lfin lrunning negb] in *. destruct (lfin p2).
      * destruct Hv as [A B]. split; [apply R_one; [apply D0_ok | exact A | exact inS_openc] | exact B].
      * apply R_one; [apply D0_ok | exact Hv | exact inS_openc].
  - (* L2: the locked body *)
    assert (Hlg : exists_ g lk = true) by (apply Hl1; left; reflexivity).
    unfold lview in Hv. cbn [lfin lrunning negb] in Hv.
    assert (Hgen : forall x, Rl g x -> parent_ok x lk = true ->
              parent_ok (run_ops ops g) lk = true /\ Lkl (run_ops ops g) /\ lhas p1' (run_ops ops g) /\ lhas p2 (run_ops ops g)
              /\ Rl (run_ops ops g) (ser lk c1 x) /\ lres p1' = Some (resu lk c1 x) /\ lfin p1' = true).
    { intros x HR Hpx. destruct (body_step c1 g x Hs1 HR Hpx) as [_ [Ha [HR2 Er]]].
      destruct (c1 g) as [o r] eqn:Ec. cbn [fst snd] in *. injection Hstep as <- <-.
      change (run_ops (OpenL lk :: o) g) with (run_ops o g).
      assert (Hfr : lookup (run_ops o g) lk = lookup g lk) by (apply (avs_frame (Slk lk) o g lk Ha Slk_lk)).
      split; [apply parent_ok_mono_ops; exact Hpg|]. split; [unfold Lkl; rewrite Hfr; exact HLk|].
      split; [intros _; unfold exists_; rewrite Hfr; exact Hlg|].
      split; [intros H; unfold exists_; rewrite Hfr; apply Hl2; exact H|].
      split; [exact HR2|]. split; [rewrite lres_of, Er; reflexivity | destruct r; reflexivity]. }
    destruct (lfin p2) eqn:E2.
    + destruct Hv as [A B]. destruct (Hgen _ A (ser_parent c2 f0 Hpar0)) as [G1 [G2 [G3 [G4 [G5 [G6 G7]]]]]].
      split; [exact G1|]. split; [exact G2|]. split; [exact G3|]. split; [exact G4|].
      unfold lview. rewrite G7, E2. right. split; [exact G5|]. split; [exact B | exact G6].
    + destruct (Hgen _ Hv Hpar0) as [G1 [G2 [G3 [G4 [G5 [G6 G7]]]]]].
      split; [exact G1|]. split; [exact G2|]. split; [exact G3|]. split; [exact G4|].
      unfold lview. rewrite G7, E2. split; [exact G5 | exact G6].
  - injection Hstep as <- <-. change (run_ops [] g) with g.
    split; [exact Hpg|]. split; [exact HLk|]. split; [exact Hl1|]. split; [exact Hl2 | exact Hv].
  - injection Hstep as <- <-. change (run_ops [] g) with g.
    split; [exact Hpg|]. split; [exact HLk|]. split; [exact Hl1|]. split; [exact Hl2 | exact Hv].
Qed.

Lemma lock_end g : Lkl g -> exists_ g lk = true -> lookup g lk = lockv lk f0.
Proof.
  unfold Lkl, lockv, exists_. intros [H|[H1 H2]] He.
  - rewrite <- H. destruct (lookup g lk); [reflexivity | discriminate].
  - rewrite H1. exact H2.
Qed.

Lemma Rl_equiv g x : Rl g x -> lookup g lk = lookup x lk -> fs_equiv g x.
Proof.
  intros [H _] HL p. destruct (path_eqb p lk) eqn:E; [apply path_eqb_eq in E; subst p; exact HL | apply H; exact E].
Qed.

Theorem locked_writers_lemma sched :
  sim (Slk lk) D0 b1 -> sim (Slk lk) D0 b2 ->
  let s := lcrun lk b1 b2 sched f0 in
  lrunning (l_p1 s) = false -> lrunning (l_p2 s) = false ->
  (fs_equiv (l_fs s) (ser lk b2 (ser lk b1 f0))
   /\ lres (l_p1 s) = Some (resu lk b1 f0) /\ lres (l_p2 s) = Some (resu lk b2 (ser lk b1 f0)))
  \/ (fs_equiv (l_fs s) (ser lk b1 (ser lk b2 f0))
      /\ lres (l_p2 s) = Some (resu lk b2 f0) /\ lres (l_p1 s) = Some (resu lk b1 (ser lk b2 f0))).
Proof.
  intros Hs1 Hs2.
  assert (Hinv : forall l s, LInv b1 b2 (l_p1 s) (l_p2 s) (l_fs s) ->
                   let s' := fold_left (fun s c => lcstep lk b1 b2 c s) l s in LInv b1 b2 (l_p1 s') (l_p2 s') (l_fs s')).
  { induction l as [|c l IH]; intros s H; [exact H|]. cbn [fold_left]. apply IH. unfold lcstep.
    destruct (if c then lrunning (l_p1 s) || negb (lrunning (l_p2 s)) else negb (lrunning (l_p2 s)) && lrunning (l_p1 s)).
    - destruct (lstep lk b1 (l_p1 s) (l_fs s)) as [ops p] eqn:E. cbn [l_p1 l_p2 l_fs].
      apply (lmove1 b1 b2 _ _ _ _ _ Hs1 Hs2 H E).
    - destruct (lstep lk b2 (l_p2 s) (l_fs s)) as [ops p] eqn:E. cbn [l_p1 l_p2 l_fs]. apply LInv_swap.
      apply (lmove1 b2 b1 _ _ _ _ _ Hs2 Hs1 (LInv_swap _ _ _ _ _ H) E). }
  assert (H0 : LInv b1 b2 L0 L0 f0).
  { split; [exact Hpar0|]. split; [left; reflexivity|]. split; [intros [H|H]; discriminate|]. split; [intros [H|H]; discriminate|].
    apply R_refl. }
  intros s R1 R2. pose proof (Hinv sched (mkL L0 L0 f0) H0) as H. fold (lcrun lk b1 b2 sched f0) in H. fold s in H. cbv zeta in H.
  destruct H as [_ [HLk [Hl1 [_ Hv]]]]. unfold lview in Hv. unfold lfin in Hv, Hl1. rewrite R1, R2 in Hv. cbn [negb] in Hv.
  assert (HL : lookup (l_fs s) lk = lockv lk f0).
  { apply lock_end; [exact HLk | apply Hl1; right; unfold lfin; rewrite R1; reflexivity]. }
  destruct Hv as [[A [B C]]|[A [B C]]]; [left | right]; (split; [|split; assumption]); apply (Rl_equiv _ _ A); rewrite HL; symmetry.
  - rewrite (ser_lock b2 _ Hs2 (ser_parent b1 f0 Hpar0)). apply lockv_idem. apply ser_lock; assumption.
  - rewrite (ser_lock b1 _ Hs1 (ser_parent b2 f0 Hpar0)). apply lockv_idem. apply ser_lock; assumption.
Qed.
End Locked.

Definition lmu (p : lpc) : nat := match p with L0 => 3 | L1 => 2 | L2 => 1 | _ => 0 end.
Lemma lstep_mu lk b p f : lmu (snd (lstep lk b p f)) <= pred (lmu p).
Proof.
  destruct p; cbn [lstep]; try (destruct (b f) as [ops [e|a]]);
    repeat match goal with |- context [if ?c then _ else _] => destruct c end; cbn [snd lmu pred]; lia.
Qed.
Lemma lrunning_mu p : lrunning p = false -> lmu p = 0.
Proof. destruct p; cbn; try discriminate; reflexivity. Qed.
Lemma lmu_running p : lmu p = 0 -> lrunning p = false.
Proof. destruct p; cbn; try discriminate; reflexivity. Qed.
Lemma lrunning_mu1 p : lrunning p = true -> 1 <= lmu p.
Proof. destruct p; cbn; try discriminate; lia. Qed.
Definition lmusum (s : lstate) : nat := lmu (l_p1 s) + lmu (l_p2 s).
Lemma lcstep_mu lk b1 b2 c s : lmusum (lcstep lk b1 b2 c s) <= pred (lmusum s).
Proof.
  destruct s as [p1 p2 g]. unfold lcstep, lmusum. cbn [l_p1 l_p2 l_fs].
  pose proof (lstep_mu lk b1 p1 g) as T1. pose proof (lstep_mu lk b2 p2 g) as T2.
  destruct (lrunning p1) eqn:R1, (lrunning p2) eqn:R2, c; cbn [orb andb negb];
    try (apply lrunning_mu in R1); try (apply lrunning_mu in R2); try (apply lrunning_mu1 in R1); try (apply lrunning_mu1 in R2);
    (destruct (lstep lk b1 p1 g) as [o1 q1]; destruct (lstep lk b2 p2 g) as [o2 q2]; cbn [l_p1 l_p2 snd] in *; lia).
Qed.
Lemma lcrun_mu lk b1 b2 sched : forall s, lmusum (fold_left (fun s c => lcstep lk b1 b2 c s) sched s) <= lmusum s - length sched.
Proof.
  induction sched as [|c l IH]; intros s; cbn [fold_left length]; [lia|].
  pose proof (IH (lcstep lk b1 b2 c s)) as H. pose proof (lcstep_mu lk b1 b2 c s) as H2. lia.
Qed.
Lemma locked_schedule_completes lk b1 b2 f sched : 6 <= length sched ->
  lrunning (l_p1 (lcrun lk b1 b2 sched f)) = false /\ lrunning (l_p2 (lcrun lk b1 b2 sched f)) = false.
Proof.
  intros H. pose proof (lcrun_mu lk b1 b2 sched (mkL L0 L0 f)) as Hm. unfold lcrun. unfold lmusum in Hm at 2. cbn [l_p1 l_p2 lmu] in Hm.
  unfold lmusum in Hm. split; apply lmu_running; lia.
Qed.

(* the two instances of the context *)
Definition annot_body (name a : str) : M unit :=
  c <- read_file annot_path ;; write_file annot_tmp (annot_store c name a) ;; rename_file annot_tmp annot_path.
Definition log_body (ctxpath date sev msg : str) : M unit := append_file log_path (log_line ctxpath date sev msg).

Lemma sim_annot_body name a : sim (Slk annot_lock) D0 (annot_body name a).
Proof.
  unfold annot_body. apply sim_bind; [apply sim_read_file; reflexivity | intros c].
  apply sim_bind; [apply sim_write_file; reflexivity | intros _]. apply sim_rename_file; reflexivity.
Qed.
Lemma sim_log_body p d s msg : sim (Slk log_lock) D0 (log_body p d s msg).
Proof. unfold log_body. apply sim_append_file. reflexivity. Qed.

Lemma ser_annot name a f : ser annot_lock (annot_body name a) f = run [WAnnot name a] f.
Proof. rewrite run_one. reflexivity. Qed.
Lemma ser_log p d s msg f : ser log_lock (log_body p d s msg) f = run [WLog p d s msg] f.
Proof. rewrite run_one. reflexivity. Qed.

(* ---- the annotations file of ANY context directory (subcontexts at every depth) -------------- *)
Definition annot_body_at (cp : path) (name a : str) : M unit :=
  c <- read_file (annot_path_at cp) ;; write_file (annot_tmp_at cp) (annot_store c name a) ;;
  rename_file (annot_tmp_at cp) (annot_path_at cp).

Lemma store_annotation_at_lwrite cp name a :
  store_annotation_at cp name a = lwrite (annot_lock_at cp) (annot_body_at cp name a).
Proof. reflexivity. Qed.

Lemma removelast_snoc (cp : path) c : removelast (cp ++ [c]) = cp.
Proof. apply removelast_last. Qed.
Lemma snoc_neq (cp : path) c d : c <> d -> path_eqb (cp ++ [c]) (cp ++ [d]) = false.
Proof. intros H. apply path_eqb_neq. intros E. apply app_inv_head in E. congruence. Qed.
Lemma snoc_longer (cp : path) d : path_eqb cp (cp ++ [d]) = false.
Proof.
  apply path_eqb_neq. intros E. apply (f_equal (@length comp)) in E. rewrite app_length in E. cbn in E. lia.
Qed.
Lemma clr_sibling cp c : c <> CAnnotLock -> clr (Slk (annot_lock_at cp)) (cp ++ [c]) = true.
Proof.
  intros H. unfold clr, Slk, annot_lock_at. rewrite removelast_snoc, (snoc_neq cp c CAnnotLock H), snoc_longer. reflexivity.
Qed.

Lemma sim_annot_body_at cp name a : sim (Slk (annot_lock_at cp)) D0 (annot_body_at cp name a).
Proof.
  assert (H1 : clr (Slk (annot_lock_at cp)) (annot_path_at cp) = true) by (apply clr_sibling; discriminate).
  assert (H2 : clr (Slk (annot_lock_at cp)) (annot_tmp_at cp) = true) by (apply clr_sibling; discriminate).
  unfold annot_body_at. apply sim_bind; [apply sim_read_file; exact H1 | intros c].
  apply sim_bind; [apply sim_write_file; exact H2 | intros _]. apply sim_rename_file; assumption.
Qed.

Lemma parent_ok_snoc f (cp : path) c : parent_ok f (cp ++ [c]) = is_dir f cp.
Proof. unfold parent_ok. destruct (cp ++ [c]) eqn:E; [destruct cp; discriminate|]. rewrite <- E, removelast_snoc. reflexivity. Qed.

(* the state a program leaves / its outcome, as in [run] / [item_res] for workload items *)
Definition runp (m : M unit) (f : fs) : fs := run_ops (fst (m f)) f.
Definition resp (m : M unit) (f : fs) : err + unit := snd (m f).
