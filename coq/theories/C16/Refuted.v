(* PV.C16.Refuted — counter-models: each guard conjunct that exists because the CODE fails, with a
   concrete witness evaluated on the model (the same witnesses are replayed on the real code by the
   check: known_findings.d/C16.json). *)
From Coq Require Import List Bool NArith Arith.
From PV Require Import C16.Model C16.Concurrent.
Import ListNotations.

Definition sP : str := [112]%N.  (* "p" *)
Definition sI : str := [105]%N.  (* "i" *)
Definition mP := mkMdl 1 1 1 sP [80;32;100]%N None.      (* key 1, dataset 1, datainfo 1, description "P d" *)
Definition mI := mkMdl 2 1 1 sI [73]%N None.             (* another key, SAME dataset and datainfo *)
Definition mD := mkMdl 3 2 1 [100]%N [68]%N None.        (* another dataset with the same datainfo *)
Definition mT := mkMdl 4 1 2 [116]%N [84]%N None.        (* same dataset, DIFFERENT datainfo *)
Definition mC := mkMdl 1 1 1 [99]%N [67]%N None.         (* same key as mP under another name *)
Definition w1 : list witem := [WInit; WStore mP].

(* C16-INDEX-CRASH (fixed by b547698: index entry created last, empty index directory = not indexed).
   Regression: at EVERY crash point of w1 (complete or torn after 0..3 units) storing mI — a model that
   shares the dataset — succeeds; formerly FileNotFoundError / StopIteration at crash points 20..24. *)
Definition is_ok (r : err + unit) : bool := match r with inr _ => true | inl _ => false end.
Example index_crash_fixed :
  forallb (fun k => is_ok (item_res (WDbStore mI) (crash_w [] w1 k None))
                    && forallb (fun j => is_ok (item_res (WDbStore mI) (crash_w [] w1 k (Some j)))) [0;1;2;3])
          (seq 0 38) = true.
Proof. vm_compute. reflexivity. Qed.

(* ... and the formerly silent variant: after the crash in the window, a model with another dataset, then
   mI: mI is read back with ITS dataset (1), from its own data file. *)
Example wrong_dataset_fixed :
  results [WStore mD; WStore mI] (crash_w [] w1 22 None) = [inr tt; inr tt]
  /\ snd (db_retrieve_model 2 (run [WStore mD; WStore mI] (crash_w [] w1 22 None))) = inr (2, 1, 3)%N
  /\ snd (db_retrieve_model 3 (run [WStore mD; WStore mI] (crash_w [] w1 22 None))) = inr (3, 2, 2)%N.
Proof. vm_compute. auto. Qed.

(* C16-PENDING-RETRANSACT.  mP is stored and committed (36 operations); the same model is stored again
   under another name; the process dies right after the PENDING marker of the second transaction was
   created (39 operations).  The key is committed, was visible, and no reader can open it any more. *)
Theorem pending_retransact_refuted :
  exists (w : list witem) (k0 k : nat) (K : N),
    k0 <= k
    /\ visible (crash_w [] w k0 None) K = true
    /\ committed_in (firstn k (trace w [])) K = true
    /\ exists_ (crash_w [] w k None) (pending K) = true
    /\ visible (crash_w [] w k None) K = false.
Proof. exists [WInit; WStore mP; WStore mC], 36, 40, 1%N. vm_compute. auto 6. Qed.

(* C16-ANNOT-NEWLINE (fixed by 81deceb: backslash, LF and CR are escaped).  Regression: formerly
   "l1\nl2" was read back as "l1" and "x\ry" as "x". *)
Example annotation_newline_fixed :
  annot_retrieve (annot_store [] [109;49]%N [108;49;10;108;50]%N) [109;49]%N = AFound [108;49;10;108;50]%N
  /\ annot_retrieve (annot_store [] [109;49]%N [120;13;121;92;110]%N) [109;49]%N = AFound [120;13;121;92;110]%N
  /\ annot_store [] [109;49]%N [108;49;10;108;50]%N = [109;49;32;108;49;92;110;108;50;10]%N.
Proof. vm_compute. auto. Qed.

(* C16-ANNOT-NAME-SPACE (open).  a name with a space is not found again, and its text shows up under the first word *)
Theorem annotation_refuted_name :
  exists (file name a : str),
    name_ok name = false /\ no_nl a = true
    /\ annot_retrieve (annot_store file name a) name = AMissing
    /\ annot_retrieve (annot_store file name a) [109]%N = AFound [53;32;122]%N.
Proof. exists [], [109;32;53]%N, [122]%N. vm_compute. auto. Qed.

(* C16-ANNOT-TORN (fixed by ffb4c75: annotations.tmp + os.replace).  Regression: the write for the second
   model (operation 52, now on annotations.tmp) interrupted after 0, 4 or 9 units leaves the annotation of
   the FIRST model intact; formerly it was lost or cut. *)
Example torn_annotation_fixed :
  nth_error (trace [WInit; WStore mP; WStore mI] []) 52
  = Some (OpenW annot_tmp [112;32;80;32;100;10;105;32;73;10]%N)
  /\ forallb (fun j => match option_map (fun c => annot_retrieve c sP)
                                        (read_node (lookup (crash_w [] [WInit; WStore mP; WStore mI] 52 (Some j)) annot_path)) with
                       | Some (AFound a) => str_eqb a [80;32;100]%N | _ => false end) [0;4;9] = true.
Proof. vm_compute. auto. Qed.

(* C16-LOG-NA (fixed by 90b40e7: dtype=str, keep_default_na=False).  Regression: 'NA', '', '1', 'True' are
   read back verbatim; formerly NaN / numbers / booleans. *)
Definition cx : str := [99;116;120]%N. Definition dt : str := [100]%N. Definition inf : str := [105]%N.
Example log_na_fixed :
  read_log (log_file [(cx, dt, inf, [104;105]%N); (cx, dt, inf, [78;65]%N); (cx, dt, inf, []); (cx, dt, inf, [49]%N)])
  = LCells [CStr [104;105]%N; CStr [78;65]%N; CStr []; CStr [49]%N]
  /\ log_guard [[78;65]%N; []; [49]%N] = true.
Proof. vm_compute. auto. Qed.

(* C16-LOG-NUL (open).  a NUL character cuts the message *)
Theorem log_refuted_nul :
  exists (rows : list (str * str * str * str)),
    log_guard (map (fun r => snd r) rows) = false
    /\ read_log (log_file rows) = LCells [CStr [120]%N].
Proof. exists [(cx, dt, inf, [120;0;121]%N)]. vm_compute. auto. Qed.

(* C16-LOG-TORN.  An interrupted append leaves an unterminated quoted field: the whole log, including
   the message logged successfully before, becomes unreadable (ParserError). *)
Theorem torn_log_refuted :
  exists (w : list witem) (k j : nat),
    results (firstn 2 w) [] = [inr tt; inr tt]
    /\ option_map read_log (read_node (lookup (crash_w [] w k None) log_path))
       = Some (LCells [CStr [104;101;108;108;111]%N])
    /\ option_map read_log (read_node (lookup (crash_w [] w k (Some j)) log_path)) = Some LParserError.
Proof.
  exists [WInit; WLog cx dt inf [104;101;108;108;111]%N; WLog cx dt inf [115;101;99]%N], 14, 10.
  vm_compute. auto.
Qed.

(* C16-DATAINFO-LOST.  No crash at all: mT has the dataset of mP but another DataInfo.  Both stores
   succeed; mT's model file is written with link 0 (its original dataset path, outside the database) and
   its DataInfo (id 2) is stored nowhere. *)
Theorem datainfo_lost_refuted :
  exists (w : list witem) (m : mdl),
    results w [] = [inr tt; inr tt; inr tt]
    /\ lookup (run w []) (model_file (m_key m)) = Some (File [T_MODEL; m_key m; m_dh m; 0%N])
    /\ existsb (fun e => match snd e with File [t; di; _] => N.eqb t T_DI && N.eqb di (m_di m) | _ => false end)
               (run w []) = false.
Proof. exists [WInit; WStore mP; WStore mT], mT. vm_compute. auto. Qed.

(* C16-NAME-REBIND.  No crash: a second model (key 2) is stored under a name that already belongs to key 1.
   store_key leaves the old link alone, store_annotation replaces the description: the name now
   resolves to the FIRST model with the SECOND description, although both stores succeeded. *)
Definition mX := mkMdl 2 1 1 sP [88]%N None.     (* another key under the name of mP, description "X" *)
Theorem name_rebind_refuted :
  exists (w : list witem) (name : str) (m : mdl),
    results w [] = [inr tt; inr tt; inr tt]
    /\ In (WStore m) w /\ m_name m = name
    /\ exists K h n r, snd (ctx_retrieve name (run w [])) = inr (K, h, n, r, m_desc m) /\ K <> m_key m.
Proof.
  exists [WInit; WStore mP; WStore mX], sP, mX. split; [vm_compute; reflexivity|].
  split; [right; right; left; reflexivity|]. split; [reflexivity|].
  exists 1%N, 1%N, 1%N, None. split; [vm_compute; reflexivity | discriminate].
Qed.

(* C16-RESULTS-TORN (open).  Context.store_results rewrites results.json in place: results 1 are stored
   successfully; the process dies while results 2 are being written (operation 10 cut after 1 unit); after the
   restart retrieve_results fails (JSONDecodeError) — the results stored earlier are gone. *)
Theorem torn_results_refuted :
  exists (w : list witem) (k j : nat) (c : option str),
    results (firstn 2 w) [] = [inr tt; inr tt]
    /\ snd (retrieve_results c (crash_w [] w k None)) = inr 1%N
    /\ snd (retrieve_results c (crash_w [] w k (Some j))) = inl ECorrupt.
Proof. exists [WInit; WResults None 1%N; WResults None 2%N], 10, 1, None. vm_compute. auto. Qed.

(* C16-INIT-RACE (open).  The context directory is created outside every lock by a check followed by a mkdir
   without exist_ok (LocalDirectoryContext._init_path): two processes opening the same new context at the
   same time both see "not a directory"; the second mkdir raises FileExistsError — although each of them
   alone, in either order, succeeds. *)
Theorem context_init_race_refuted :
  exists sched : list bool,
    (let '(a, b, _) := irun sched [] in (a, b)) = (IDone, IFail EFileExists)
    /\ (let '(a, b, _) := irun [true; true; false; false] [] in (a, b)) = (IDone, IDone)
    /\ (let '(a, b, _) := irun [false; false; true; true] [] in (a, b)) = (IDone, IDone).
Proof. exists [true; false; true; false]. vm_compute. auto. Qed.

(* C16-RESULTS-RACE (open).  Context.store_results takes no lock (store_annotation and store_message do:
   locked_writers_serializable): its two writes are two steps, and a second store_results of the same context
   that runs between them leaves results.json of the second and results.csv of the first call — the file
   system of neither serial order, although every single write succeeds. *)
Theorem results_writers_refuted :
  let f0 := run [WInit] [] in
  let wj (id : N) := write_file (results_json []) [T_TRES; id] in
  let wc (id : N) := write_file (results_csv []) [T_TCSV; id] in
  let step (m : M unit) (f : fs) := run_ops (fst (m f)) f in
  let g := step (wc 1%N) (step (wc 2%N) (step (wj 2%N) (step (wj 1%N) f0))) in
  store_results None 1%N = (wj 1%N ;; wc 1%N) /\ store_results None 2%N = (wj 2%N ;; wc 2%N)
  /\ snd (wj 1%N f0) = inr tt /\ snd (wj 2%N (step (wj 1%N) f0)) = inr tt
  /\ snd (wc 2%N (step (wj 2%N) (step (wj 1%N) f0))) = inr tt
  /\ snd (wc 1%N (step (wc 2%N) (step (wj 2%N) (step (wj 1%N) f0)))) = inr tt
  /\ lookup g (results_json []) = Some (File [T_TRES; 2%N]) /\ lookup g (results_csv []) = Some (File [T_TCSV; 1%N])
  /\ fs_eqb g (run [WResults None 1%N; WResults None 2%N] f0) = false
  /\ fs_eqb g (run [WResults None 2%N; WResults None 1%N] f0) = false.
Proof. cbv zeta. split; [reflexivity|]. split; [reflexivity|]. vm_compute. auto 10. Qed.
