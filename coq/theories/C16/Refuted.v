(* PV.C16.Refuted — counter-models: each guard conjunct that exists because the CODE fails, with a
   concrete witness evaluated on the model (the same witnesses are replayed on the real code by the
   check: known_findings.d/C16.json). *)
From Coq Require Import List Bool NArith Arith.
From PV Require Import C16.Model.
Import ListNotations.

Definition sP : str := [112]%N.  (* "p" *)
Definition sI : str := [105]%N.  (* "i" *)
Definition mP := mkMdl 1 1 1 sP [80;32;100]%N None.      (* key 1, dataset 1, datainfo 1, description "P d" *)
Definition mI := mkMdl 2 1 1 sI [73]%N None.             (* another key, SAME dataset and datainfo *)
Definition mD := mkMdl 3 2 1 [100]%N [68]%N None.        (* another dataset with the same datainfo *)
Definition mT := mkMdl 4 1 2 [116]%N [84]%N None.        (* same dataset, DIFFERENT datainfo *)
Definition mC := mkMdl 1 1 1 [99]%N [67]%N None.         (* same key as mP under another name *)
Definition w1 : list witem := [WInit; WStore mP].

(* C16-INDEX-CRASH.  Crash right after the index file .datasets/.hash/<h>/data1.csv was created
   (operation 23 = the csv write did not happen): the dataset store is inconsistent, mI's key has no
   PENDING marker, and yet storing mI — a model sharing that dataset — raises FileNotFoundError. *)
Theorem shared_dataset_refuted :
  exists (w : list witem) (k : nat) (m : mdl),
    ds_ok (crash_w [] w k None) = false
    /\ exists_ (crash_w [] w k None) (pending (m_key m)) = false
    /\ item_res (WStore m) (crash_w [] w k None) = inl EFileNotFound.
Proof. exists w1, 23, mI. vm_compute. auto. Qed.

(* ... crash right after h_dir.mkdir (operation 20): StopIteration from next(h_dir.iterdir()) *)
Theorem index_mkdir_refuted :
  exists (w : list witem) (k : nat) (m : mdl),
    ds_ok (crash_w [] w k None) = false
    /\ exists_ (crash_w [] w k None) (pending (m_key m)) = false
    /\ item_res (WStore m) (crash_w [] w k None) = inl EStopIteration.
Proof. exists w1, 20, mI. vm_compute. auto. Qed.

(* ... and the silent variant: after the same crash, storing a model with ANOTHER dataset (mD) reuses
   data1.csv; storing mI then succeeds, commits, is visible — and a reader gets dataset 2 for a model
   that was stored with dataset 1. *)
Theorem wrong_dataset_refuted :
  exists (w : list witem) (k : nat) (w' : list witem) (m : mdl),
    ds_ok (crash_w [] w k None) = false
    /\ results w' (crash_w [] w k None) = [inr tt; inr tt]
    /\ visible (run w' (crash_w [] w k None)) (m_key m) = true
    /\ exists h n, snd (db_retrieve_model (m_key m) (run w' (crash_w [] w k None))) = inr (m_key m, h, n)
                   /\ h <> m_dh m.
Proof.
  exists w1, 23, [WStore mD; WStore mI], mI. repeat split; try (vm_compute; reflexivity).
  exists 2%N, 1%N. split; [vm_compute; reflexivity | discriminate].
Qed.

(* C16-PENDING-RETRANSACT.  mP is stored and committed (35 operations); the same model is stored again
   under another name; the process dies right after the PENDING marker of the second transaction was
   created (39 operations).  The key is committed, was visible, and no reader can open it any more. *)
Theorem pending_retransact_refuted :
  exists (w : list witem) (k0 k : nat) (K : N),
    k0 <= k
    /\ visible (crash_w [] w k0 None) K = true
    /\ committed_in (firstn k (trace w [])) K = true
    /\ exists_ (crash_w [] w k None) (pending K) = true
    /\ visible (crash_w [] w k None) K = false.
Proof. exists [WInit; WStore mP; WStore mC], 35, 39, 1%N. vm_compute. auto 6. Qed.

(* C16-ANNOT-NEWLINE.  "l1\nl2" is read back as "l1"; so is "x\ry" as "x". *)
Theorem annotation_refuted_newline :
  exists (file name a : str),
    ends_nlb (translate file) = true /\ name_ok name = true /\ no_nl a = false
    /\ annot_retrieve (annot_store file name a) name <> AFound a.
Proof.
  exists [], [109;49]%N, [108;49;10;108;50]%N. repeat split; try (vm_compute; reflexivity).
  vm_compute. discriminate.
Qed.
Theorem annotation_refuted_cr :
  exists (file name a : str),
    ends_nlb (translate file) = true /\ name_ok name = true /\ no_nl a = false
    /\ annot_retrieve (annot_store file name a) name = AFound [120]%N /\ a <> [120]%N.
Proof.
  exists [], [109;49]%N, [120;13;121]%N. repeat split; try (vm_compute; reflexivity). discriminate.
Qed.
(* a name with a space is not found again, and its text shows up under the first word *)
Theorem annotation_refuted_name :
  exists (file name a : str),
    name_ok name = false /\ no_nl a = true
    /\ annot_retrieve (annot_store file name a) name = AMissing
    /\ annot_retrieve (annot_store file name a) [109]%N = AFound [53;32;122]%N.
Proof. exists [], [109;32;53]%N, [122]%N. vm_compute. auto. Qed.

(* C16-ANNOT-TORN.  The annotations file is rewritten in place: when the rewrite for the second model is
   interrupted (operation 51 torn), the annotation of the FIRST model, stored successfully before, is
   gone (j = 0) or cut ("P" instead of "P d", j = 3). *)
Theorem torn_annotation_refuted :
  exists (w : list witem) (k : nat) (name : str),
    results (firstn 2 w) [] = [inr tt; inr tt]
    /\ option_map (fun c => annot_retrieve c name) (read_node (lookup (crash_w [] w k None) annot_path))
       = Some (AFound [80;32;100]%N)
    /\ option_map (fun c => annot_retrieve c name) (read_node (lookup (crash_w [] w k (Some 0)) annot_path))
       = Some AMissing
    /\ option_map (fun c => annot_retrieve c name) (read_node (lookup (crash_w [] w k (Some 4)) annot_path))
       = Some (AFound [80]%N).
Proof. exists [WInit; WStore mP; WStore mI], 51, sP. vm_compute. auto. Qed.

(* C16-LOG-NA.  The message "NA" is read back as NaN. *)
Definition cx : str := [99;116;120]%N. Definition dt : str := [100]%N. Definition inf : str := [105]%N.
Theorem log_refuted_na :
  exists (rows : list (str * str * str * str)),
    log_guard (map (fun r => snd r) rows) = false
    /\ read_log (log_file rows) = LCells [CStr [104;105]%N; CNaN].
Proof. exists [(cx, dt, inf, [104;105]%N); (cx, dt, inf, [78;65]%N)]. vm_compute. auto. Qed.
(* a NUL character cuts the message *)
Theorem log_refuted_nul :
  exists (rows : list (str * str * str * str)),
    log_guard (map (fun r => snd r) rows) = false
    /\ read_log (log_file rows) = LCells [CStr [120]%N].
Proof. exists [(cx, dt, inf, [120;0;121]%N)]. vm_compute. auto. Qed.

(* C16-LOG-TORN.  An interrupted append leaves an unterminated quoted field: the whole log, including
   the message logged successfully before, becomes unreadable (ParserError). *)
Theorem torn_log_refuted :
  exists (w : list witem) (k j : nat),
    results (firstn 2 w) [] = [inr tt; inr tt]
    /\ option_map read_log (read_node (lookup (crash_w [] w k None) log_path))
       = Some (LCells [CStr [104;101;108;108;111]%N])
    /\ option_map read_log (read_node (lookup (crash_w [] w k (Some j)) log_path)) = Some LParserError.
Proof.
  exists [WInit; WLog cx dt inf [104;101;108;108;111]%N; WLog cx dt inf [115;101;99]%N], 14, 10.
  vm_compute. auto.
Qed.

(* C16-DATAINFO-LOST.  No crash at all: mT has the dataset of mP but another DataInfo.  Both stores
   succeed; mT's model file is written with link 0 (its original dataset path, outside the database) and
   its DataInfo (id 2) is stored nowhere. *)
Theorem datainfo_lost_refuted :
  exists (w : list witem) (m : mdl),
    results w [] = [inr tt; inr tt; inr tt]
    /\ lookup (run w []) (model_file (m_key m)) = Some (File [T_MODEL; m_key m; m_dh m; 0%N])
    /\ existsb (fun e => match snd e with File [t; di; _] => N.eqb t T_DI && N.eqb di (m_di m) | _ => false end)
               (run w []) = false.
Proof. exists [WInit; WStore mP; WStore mT], mT. vm_compute. auto. Qed.

(* C16-NAME-REBIND.  No crash: a second model (key 2) is stored under a name that already belongs to key 1.
   store_key leaves the old link alone, store_annotation replaces the description: the name now
   resolves to the FIRST model with the SECOND description, although both stores succeeded. *)
Definition mX := mkMdl 2 1 1 sP [88]%N None.     (* another key under the name of mP, description "X" *)
Theorem name_rebind_refuted :
  exists (w : list witem) (name : str) (m : mdl),
    results w [] = [inr tt; inr tt; inr tt]
    /\ In (WStore m) w /\ m_name m = name
    /\ exists K h n r, snd (ctx_retrieve name (run w [])) = inr (K, h, n, r, m_desc m) /\ K <> m_key m.
Proof.
  exists [WInit; WStore mP; WStore mX], sP, mX. split; [vm_compute; reflexivity|].
  split; [right; right; left; reflexivity|]. split; [reflexivity|].
  exists 1%N, 1%N, 1%N, None. split; [vm_compute; reflexivity | discriminate].
Qed.
