(* PV.C16.ProofsCodec — lemmas about the annotations-file codec and the log CSV codec. *)
From Coq Require Import List Bool NArith Arith Lia.
From PV Require Import C16.Model C16.Proofs.
Import ListNotations.
Local Open Scope nat_scope.

(* ========================================================================================= *)
(* 1. lines                                                                                   *)
Notation no_lf s := (~ In LF s).
Notation no_cr s := (~ In CR s).
(* a line with its terminator and no other line feed *)
Definition term_line (l : str) : Prop := exists b, l = b ++ [LF] /\ no_lf b.

Lemma split_lines_nil_iff s : split_lines s = [] <-> s = [].
Proof.
  destruct s as [|c tl]; cbn; [tauto|]. split; [|discriminate].
  destruct (N.eqb c LF); [discriminate|]. destruct (split_lines tl); discriminate.
Qed.

Lemma concat_split_lines s : concat (split_lines s) = s.
Proof.
  induction s as [|c tl IH]; cbn; [reflexivity|].
  destruct (N.eqb c LF); cbn; [rewrite IH; reflexivity|].
  destruct (split_lines tl) as [|l ls] eqn:E; cbn in *.
  - apply split_lines_nil_iff in E. subst. reflexivity.
  - rewrite IH. reflexivity.
Qed.

(* a terminated line in front of anything is split off *)
Lemma split_lines_line b rest : no_lf b -> split_lines (b ++ LF :: rest) = (b ++ [LF]) :: split_lines rest.
Proof.
  induction b as [|c b IH]; intros H; cbn.
  - reflexivity.
  - assert (Hc : N.eqb c LF = false).
    { apply N.eqb_neq. intros ->. apply H. left. reflexivity. }
    rewrite Hc, IH; [reflexivity|]. intros Hin. apply H. right. exact Hin.
Qed.

Lemma split_lines_concat ls : Forall term_line ls -> split_lines (concat ls) = ls.
Proof.
  induction 1 as [|l ls [b [-> Hb]] _ IH]; cbn; [reflexivity|].
  rewrite <- app_assoc. cbn. rewrite split_lines_line by exact Hb. rewrite IH. reflexivity.
Qed.

Lemma ends_nlb_cons c tl : tl <> [] -> ends_nlb (c :: tl) = ends_nlb tl.
Proof. destruct tl; [congruence | reflexivity]. Qed.

Lemma split_lines_term s : ends_nlb s = true -> Forall term_line (split_lines s).
Proof.
  induction s as [|c tl IH]; intros H; cbn; [constructor|].
  destruct (N.eqb c LF) eqn:Ec.
  - apply N.eqb_eq in Ec. subst c. constructor.
    + exists []. split; [reflexivity | intros []].
    + apply IH. destruct tl; [reflexivity | exact H].
  - destruct tl as [|d tl'].
    + cbn in H. congruence.
    + rewrite ends_nlb_cons in H by discriminate. specialize (IH H).
      destruct (split_lines (d :: tl')) as [|l ls] eqn:E.
      * apply split_lines_nil_iff in E. discriminate.
      * inversion IH as [|? ? [b [-> Hb]] Hls]; subst. constructor; [|exact Hls].
        exists (c :: b). split; [reflexivity|]. intros [Hc | Hin]; [|exact (Hb Hin)].
        subst c. rewrite N.eqb_refl in Ec. discriminate.
Qed.

Lemma app_line_not_nil (s b : str) : s ++ b ++ [LF] <> [].
Proof. intros E. apply app_eq_nil in E. destruct E as [_ E]. apply app_eq_nil in E. destruct E; discriminate. Qed.

Lemma ends_nlb_app_line s b : ends_nlb (s ++ b ++ [LF]) = true.
Proof.
  induction s as [|c s IH]; cbn [app].
  - induction b as [|d b IHb]; [reflexivity|].
    cbn [app]. rewrite ends_nlb_cons; [exact IHb | apply (app_line_not_nil [] b)].
  - rewrite ends_nlb_cons; [exact IH | apply app_line_not_nil].
Qed.

Lemma concat_term_shape ls : Forall term_line ls -> ls = [] \/ exists s b, concat ls = s ++ b ++ [LF].
Proof.
  induction 1 as [|l ls [b [-> Hb]] _ IH]; [left; reflexivity|]. right. cbn.
  destruct IH as [-> | [s' [b' E]]].
  - exists [], b. cbn. rewrite app_nil_r. reflexivity.
  - exists ((b ++ [LF]) ++ s'), b'. rewrite E, <- !app_assoc. reflexivity.
Qed.

Lemma ends_nlb_concat ls : Forall term_line ls -> ends_nlb (concat ls) = true.
Proof.
  intros H. destruct (concat_term_shape ls H) as [-> | [s [b ->]]]; [reflexivity | apply ends_nlb_app_line].
Qed.

(* ========================================================================================= *)
(* 2. newline translation                                                                     *)
Lemma translate_no_cr_aux n : forall s, length s <= n -> no_cr (translate s).
Proof.
  induction n as [|n IH]; intros s H.
  - destruct s; [intros [] | cbn in H; lia].
  - destruct s as [|c tl]; [intros []|]. cbn in H. cbn [translate].
    destruct (N.eqb c CR) eqn:E.
    + destruct tl as [|d tl'].
      * intros [X|[]]. discriminate.
      * cbn in H. destruct (N.eqb d LF).
        -- intros [X|X]; [discriminate | revert X; apply IH; lia].
        -- intros [X|X]; [discriminate | revert X; apply IH; cbn; lia].
    + intros [X|X]; [subst c; rewrite N.eqb_refl in E; discriminate | revert X; apply IH; lia].
Qed.
Lemma translate_no_cr s : no_cr (translate s).
Proof. apply (translate_no_cr_aux (length s)). lia. Qed.

Lemma translate_id s : no_cr s -> translate s = s.
Proof.
  induction s as [|c tl IH]; intros H; [reflexivity|]. cbn [translate].
  assert (E : N.eqb c CR = false).
  { apply N.eqb_neq. intros ->. apply H. left. reflexivity. }
  rewrite E, IH; [reflexivity|]. intros X. apply H. right. exact X.
Qed.

Lemma lines_no_cr s : no_cr s -> Forall (fun l => no_cr l) (split_lines s).
Proof.
  intros H. apply Forall_forall. intros l Hl Hc. apply H.
  rewrite <- (concat_split_lines s). apply in_concat. exists l. split; [exact Hl | exact Hc].
Qed.

Lemma no_cr_concat ls : Forall (fun l => no_cr l) ls -> no_cr (concat ls).
Proof.
  intros H Hin. apply in_concat in Hin. destruct Hin as [l [Hl Hc]].
  rewrite Forall_forall in H. exact (H l Hl Hc).
Qed.

(* ========================================================================================= *)
(* 3. the annotation lines                                                                    *)
Lemma negb_existsb_false {A} (p : A -> bool) s :
  negb (existsb p s) = true -> forall c, In c s -> p c = false.
Proof.
  intros H c Hc. apply negb_true_iff in H. destruct (p c) eqn:E; [|reflexivity].
  assert (existsb p s = true) by (apply existsb_exists; eauto). congruence.
Qed.

Lemma no_nl_spec a : no_nl a = true -> no_lf a /\ no_cr a.
Proof.
  intros H. split; intros Hin; apply (negb_existsb_false _ _ H) in Hin; cbn in Hin; discriminate.
Qed.
Lemma name_ok_spec n : name_ok n = true -> no_lf n /\ no_cr n /\ ~ In SP n.
Proof.
  intros H. repeat split; intros Hin; apply (negb_existsb_false _ _ H) in Hin; cbn in Hin; discriminate.
Qed.

Lemma split_sp_line name rest : ~ In SP name -> split_sp (name ++ SP :: rest) = (name, Some rest).
Proof.
  induction name as [|c name IH]; intros H; cbn.
  - reflexivity.
  - assert (E : N.eqb c SP = false).
    { apply N.eqb_neq. intros ->. apply H. left. reflexivity. }
    rewrite E, IH; [reflexivity|]. intros X. apply H. right. exact X.
Qed.

Definition key_of (l : str) : str := fst (split_sp l).
Definition repl (name a : str) (l : str) : str := if str_eqb (key_of l) name then annot_line name a else l.

Lemma annot_replace_spec L name a :
  annot_replace L name a = (map (repl name a) L, existsb (fun l => str_eqb (key_of l) name) L).
Proof.
  induction L as [|l tl IH]; cbn; [reflexivity|]. rewrite IH. unfold repl, key_of.
  destruct (str_eqb (fst (split_sp l)) name); reflexivity.
Qed.

Lemma str_eqb_refl s : str_eqb s s = true.
Proof. apply str_eqb_eq. reflexivity. Qed.
Lemma str_eqb_neq a b : a <> b -> str_eqb a b = false.
Proof. intros H. destruct (str_eqb a b) eqn:E; [apply str_eqb_eq in E; contradiction | reflexivity]. Qed.

(* escaping: no line break survives, and unescape inverts it — for EVERY text *)
Lemma escape_no_nl a : no_lf (escape a) /\ no_cr (escape a).
Proof.
  induction a as [|c a [IH1 IH2]]; [split; intros []|]. cbn [escape flat_map]. fold (escape a). unfold esc1.
  destruct (N.eqb c BS) eqn:E1; [split; intros [X|[X|X]]; try discriminate; auto|].
  destruct (N.eqb c LF) eqn:E2; [split; intros [X|[X|X]]; try discriminate; auto|].
  destruct (N.eqb c CR) eqn:E3; [split; intros [X|[X|X]]; try discriminate; auto|].
  split; intros [X|X]; auto; subst c; [rewrite N.eqb_refl in E2 | rewrite N.eqb_refl in E3]; discriminate.
Qed.

Lemma unescape_escape a : unescape (escape a) = a.
Proof.
  induction a as [|c a IH]; [reflexivity|]. cbn [escape flat_map]. fold (escape a). unfold esc1.
  destruct (N.eqb c BS) eqn:E1.
  { apply N.eqb_eq in E1. subst c. cbn. rewrite IH. reflexivity. }
  destruct (N.eqb c LF) eqn:E2.
  { apply N.eqb_eq in E2. subst c. cbn. rewrite IH. reflexivity. }
  destruct (N.eqb c CR) eqn:E3.
  { apply N.eqb_eq in E3. subst c. cbn. rewrite IH. reflexivity. }
  cbn [app unescape]. rewrite E1, IH. reflexivity.
Qed.

Lemma key_of_annot_line name a : ~ In SP name -> split_sp (annot_line name a) = (name, Some (escape a ++ [LF])).
Proof. intros H. unfold annot_line. cbn [app]. apply split_sp_line. exact H. Qed.

Lemma annot_find_hit name a tl : ~ In SP name -> annot_find (annot_line name a :: tl) name = AFound a.
Proof.
  intros H. cbn [annot_find]. rewrite key_of_annot_line by exact H. rewrite str_eqb_refl.
  rewrite removelast_last, unescape_escape. reflexivity.
Qed.

Lemma annot_find_skip l tl n : str_eqb (key_of l) n = false -> annot_find (l :: tl) n = annot_find tl n.
Proof. unfold key_of. intros H. cbn [annot_find]. destruct (split_sp l) as [a0 r]. cbn in H. rewrite H. reflexivity. Qed.

Lemma annot_find_app X Y n :
  annot_find (X ++ Y) n = match annot_find X n with AMissing => annot_find Y n | r => r end.
Proof.
  induction X as [|l X IH]; cbn [app annot_find]; [reflexivity|].
  destruct (split_sp l) as [a0 r]. destruct (str_eqb a0 n); [destruct r; reflexivity | exact IH].
Qed.

(* after the rewrite, the first line whose key is [name] carries the new text *)
Lemma annot_find_replaced L name a :
  ~ In SP name -> existsb (fun l => str_eqb (key_of l) name) L = true ->
  annot_find (map (repl name a) L) name = AFound a.
Proof.
  intros Hn. induction L as [|l tl IH]; cbn [existsb map]; [discriminate|].
  unfold repl at 1. destruct (str_eqb (key_of l) name) eqn:E.
  - intros _. apply annot_find_hit. exact Hn.
  - cbn [orb]. intros H. rewrite annot_find_skip by exact E. apply IH. exact H.
Qed.

Lemma map_repl_nomatch L name a :
  existsb (fun l => str_eqb (key_of l) name) L = false -> map (repl name a) L = L /\ annot_find L name = AMissing.
Proof.
  induction L as [|l tl IH]; cbn [existsb map]; [split; reflexivity|].
  intros H. apply orb_false_iff in H. destruct H as [E H]. destruct (IH H) as [H1 H2].
  unfold repl at 1. rewrite E, H1, annot_find_skip by exact E. split; [reflexivity | exact H2].
Qed.

Lemma annot_find_other L name a n :
  ~ In SP name -> n <> name -> annot_find (map (repl name a) L) n = annot_find L n.
Proof.
  intros Hn Hne. induction L as [|l tl IH]; [reflexivity|]. cbn [map]. unfold repl at 1.
  destruct (str_eqb (key_of l) name) eqn:E.
  - apply str_eqb_eq in E.
    rewrite (annot_find_skip l) by (rewrite E; apply str_eqb_neq; congruence).
    cbn [annot_find]. rewrite key_of_annot_line by exact Hn.
    rewrite (str_eqb_neq name n) by congruence. exact IH.
  - cbn [annot_find]. destruct (split_sp l) as [a0 r]. destruct (str_eqb a0 n); [reflexivity | exact IH].
Qed.

Lemma term_line_annot name a : no_lf name -> ~ In SP name -> term_line (annot_line name a).
Proof.
  intros H1 H2. pose proof (proj1 (escape_no_nl a)) as H3. exists (name ++ [SP] ++ escape a). split.
  - unfold annot_line. rewrite <- !app_assoc. reflexivity.
  - intros Hin. apply in_app_or in Hin. destruct Hin as [X|X]; [exact (H1 X)|].
    cbn in X. destruct X as [X|X]; [discriminate | exact (H3 X)].
Qed.

Lemma no_cr_annot name a : no_cr name -> no_cr (annot_line name a).
Proof.
  intros H1 Hin. pose proof (proj2 (escape_no_nl a)) as H2. unfold annot_line in Hin. apply in_app_or in Hin. destruct Hin as [X|X]; [exact (H1 X)|].
  cbn in X. destruct X as [X|X]; [discriminate|]. apply in_app_or in X.
  destruct X as [X|[X|[]]]; [exact (H2 X) | discriminate].
Qed.

Lemma Forall_map_repl (P : str -> Prop) L name a :
  Forall P L -> P (annot_line name a) -> Forall P (map (repl name a) L).
Proof.
  intros H Hl. induction H as [|l tl Hp _ IH]; cbn; constructor; [|exact IH].
  unfold repl. destruct (str_eqb (key_of l) name); assumption.
Qed.

(* the lines of the file after store_annotation *)
Definition new_lines (file name a : str) : list str :=
  let L := split_lines (translate file) in
  if existsb (fun l => str_eqb (key_of l) name) L then map (repl name a) L
  else map (repl name a) L ++ [annot_line name a].

Lemma annot_store_lines file name a : annot_store file name a = concat (new_lines file name a).
Proof.
  unfold annot_store, new_lines. rewrite annot_replace_spec.
  destruct (existsb (fun l => str_eqb (key_of l) name) (split_lines (translate file))); reflexivity.
Qed.

Lemma new_lines_wf file name a :
  ends_nlb (translate file) = true -> name_ok name = true ->
  Forall term_line (new_lines file name a) /\ Forall (fun l => no_cr l) (new_lines file name a).
Proof.
  intros He Hn. destruct (name_ok_spec name Hn) as [Hn1 [Hn2 Hn3]].
  pose proof (term_line_annot name a Hn1 Hn3) as Ht. pose proof (no_cr_annot name a Hn2) as Hc.
  pose proof (split_lines_term _ He) as HL. pose proof (lines_no_cr _ (translate_no_cr file)) as HC.
  unfold new_lines. destruct (existsb _ _); split;
    repeat first [apply Forall_app; split | apply Forall_map_repl | constructor]; assumption.
Qed.

Lemma reread_new_lines file name a :
  ends_nlb (translate file) = true -> name_ok name = true ->
  split_lines (translate (annot_store file name a)) = new_lines file name a.
Proof.
  intros He Hn. destruct (new_lines_wf file name a He Hn) as [H1 H2].
  rewrite annot_store_lines, translate_id by (apply no_cr_concat; exact H2).
  apply split_lines_concat. exact H1.
Qed.

Lemma annotation_roundtrip_lemma file name a :
  ends_nlb (translate file) = true -> name_ok name = true ->
  annot_retrieve (annot_store file name a) name = AFound a.
Proof.
  intros He Hn. unfold annot_retrieve. rewrite reread_new_lines by assumption.
  destruct (name_ok_spec name Hn) as [_ [_ Hsp]]. unfold new_lines.
  destruct (existsb _ _) eqn:E.
  - apply annot_find_replaced; assumption.
  - destruct (map_repl_nomatch _ name a E) as [H1 H2]. rewrite H1, annot_find_app, H2.
    apply annot_find_hit. exact Hsp.
Qed.

Lemma annotation_wf_preserved_lemma file name a :
  ends_nlb (translate file) = true -> name_ok name = true ->
  ends_nlb (translate (annot_store file name a)) = true.
Proof.
  intros He Hn. destruct (new_lines_wf file name a He Hn) as [H1 H2].
  rewrite annot_store_lines, translate_id by (apply no_cr_concat; exact H2).
  apply ends_nlb_concat. exact H1.
Qed.

Lemma annotation_others_lemma file name a n :
  ends_nlb (translate file) = true -> name_ok name = true -> n <> name ->
  annot_retrieve (annot_store file name a) n = annot_retrieve file n.
Proof.
  intros He Hn Hne. unfold annot_retrieve. rewrite reread_new_lines by assumption.
  destruct (name_ok_spec name Hn) as [_ [_ Hsp]]. unfold new_lines.
  destruct (existsb _ _) eqn:E.
  - apply annot_find_other; assumption.
  - rewrite annot_find_app, annot_find_other by assumption.
    destruct (annot_find (split_lines (translate file)) n); try reflexivity.
    cbn [annot_find]. rewrite key_of_annot_line by exact Hsp.
    rewrite (str_eqb_neq name n) by congruence. reflexivity.
Qed.

(* ========================================================================================= *)
(* 4. the log CSV: the tokenizer reads back exactly the fields that were written               *)
Definition push_all (s : str) (a : cacc) : cacc := mkAcc (rev s ++ a_cur a) (a_row a) (a_rows a).

Lemma push_all_nil a : push_all [] a = a.
Proof. destruct a. reflexivity. Qed.
Lemma push_all_cons c s a : push_all (c :: s) a = push_all s (push c a).
Proof. unfold push_all, push. cbn. rewrite <- app_assoc. reflexivity. Qed.

Lemma plain_field_spec s :
  plain_field s = true ->
  forall c, In c s -> N.eqb c COMMA = false /\ N.eqb c DQ = false /\ N.eqb c LF = false /\ N.eqb c CR = false.
Proof.
  intros H c Hc. apply (negb_existsb_false _ _ H) in Hc.
  apply orb_false_iff in Hc. destruct Hc as [Hc H4]. apply orb_false_iff in Hc. destruct Hc as [Hc H3].
  apply orb_false_iff in Hc. tauto.
Qed.

(* inside an unquoted field: plain characters are pushed, the comma ends the field *)
Lemma run_plain_infield s rest a :
  plain_field s = true ->
  csv_run (s ++ COMMA :: rest) InField a = csv_run rest StartField (end_field (push_all s a)).
Proof.
  revert a. induction s as [|c s IH]; intros a H.
  - rewrite push_all_nil. reflexivity.
  - destruct (plain_field_spec _ H c (or_introl eq_refl)) as [H1 [H2 [H3 H4]]].
    cbn [app csv_run csv_step]. rewrite H3, H4, H1. rewrite push_all_cons. apply IH.
    unfold plain_field in *. cbn in H. apply negb_true_iff in H. apply orb_false_iff in H.
    apply negb_true_iff. tauto.
Qed.

(* at the start of a record or field *)
Lemma run_plain_start s rest a st :
  st = StartRecord \/ st = StartField ->
  plain_field s = true ->
  csv_run (s ++ COMMA :: rest) st a = csv_run rest StartField (end_field (push_all s a)).
Proof.
  intros Hst H. destruct s as [|c s].
  - rewrite push_all_nil. destruct Hst as [-> | ->]; reflexivity.
  - destruct (plain_field_spec _ H c (or_introl eq_refl)) as [H1 [H2 [H3 H4]]].
    assert (Hs : plain_field s = true).
    { unfold plain_field in *. cbn in H. apply negb_true_iff in H. apply orb_false_iff in H.
      apply negb_true_iff. tauto. }
    rewrite push_all_cons. rewrite <- (run_plain_infield s rest (push c a) Hs).
    destruct Hst as [-> | ->]; cbn [app csv_run csv_step]; unfold start_field_step;
      rewrite ?H3, ?H4, ?H2, ?H1; reflexivity.
Qed.

Definition dbl (c : N) : list N := if N.eqb c DQ then [DQ; DQ] else [c].

Lemma run_quoted_body m rest a :
  csv_run (flat_map dbl m ++ rest) InQuoted a = csv_run rest InQuoted (push_all m a).
Proof.
  revert a. induction m as [|c m IH]; intros a.
  - rewrite push_all_nil. reflexivity.
  - cbn [flat_map]. rewrite <- app_assoc, push_all_cons. unfold dbl at 1.
    destruct (N.eqb c DQ) eqn:E.
    + apply N.eqb_eq in E. subst c. cbn [app csv_run csv_step]. rewrite N.eqb_refl. apply IH.
    + cbn [app csv_run csv_step]. rewrite E. apply IH.
Qed.

Lemma mangle_eq m : mangle m = DQ :: flat_map dbl m ++ [DQ].
Proof. reflexivity. Qed.

(* the quoted message field followed by the line terminator *)
Lemma run_quoted_field m rest a :
  csv_run (mangle m ++ LF :: rest) StartField a = csv_run rest StartRecord (end_line (end_field (push_all m a))).
Proof.
  rewrite mangle_eq. cbn [app csv_run csv_step]. unfold start_field_step.
  replace (N.eqb DQ LF) with false by reflexivity. replace (N.eqb DQ CR) with false by reflexivity.
  rewrite N.eqb_refl. rewrite <- app_assoc, run_quoted_body.
  cbn [app csv_run csv_step]. rewrite N.eqb_refl. cbn [csv_run csv_step].
  replace (N.eqb LF DQ) with false by reflexivity. replace (N.eqb LF COMMA) with false by reflexivity.
  rewrite N.eqb_refl. reflexivity.
Qed.

Definition row_fields (r : str * str * str * str) : list str := let '(p, d, s, m) := r in [p; d; s; m].
Definition row_plain (r : str * str * str * str) : bool :=
  let '(p, d, s, _) := r in plain_field p && plain_field d && plain_field s.

Lemma run_line p d s m rest R :
  plain_field p = true -> plain_field d = true -> plain_field s = true ->
  csv_run (log_line p d s m ++ rest) StartRecord (mkAcc [] [] R)
  = csv_run rest StartRecord (mkAcc [] [] ([p; d; s; m] :: R)).
Proof.
  intros Hp Hd Hs. unfold log_line. rewrite <- !app_assoc. cbn [app].
  rewrite run_plain_start by (auto). rewrite run_plain_start by (auto). rewrite run_plain_start by (auto).
  rewrite run_quoted_field. unfold end_line, end_field, push_all. cbn.
  rewrite !app_nil_r, !rev_involutive. reflexivity.
Qed.

Lemma run_lines rows : forall R,
  forallb row_plain rows = true ->
  csv_run (concat (map (fun r => let '(p, d, s, m) := r in log_line p d s m) rows)) StartRecord (mkAcc [] [] R)
  = Some (rev R ++ map row_fields rows).
Proof.
  induction rows as [|[[[p d] s] m] rows IH]; intros R H.
  - cbn. rewrite app_nil_r. reflexivity.
  - cbn [forallb row_plain] in H. apply andb_true_iff in H. destruct H as [H Hr].
    apply andb_true_iff in H. destruct H as [H H3]. apply andb_true_iff in H. destruct H as [H1 H2].
    cbn [map concat]. rewrite run_line by assumption. rewrite IH by exact Hr.
    cbn [rev map row_fields]. rewrite <- app_assoc. reflexivity.
Qed.

Lemma run_header rest :
  csv_run (log_header ++ rest) StartRecord (mkAcc [] [] []) = csv_run rest StartRecord (mkAcc [] [] [header_row]).
Proof. vm_compute. reflexivity. Qed.

Lemma log_csv_roundtrip_lemma rows :
  forallb row_plain rows = true ->
  csv_parse (log_file rows) = Some (header_row :: map row_fields rows).
Proof.
  intros H. unfold csv_parse, log_file. rewrite run_header. rewrite run_lines by exact H. reflexivity.
Qed.

(* ---- the typed layer of retrieve_log -------------------------------------------------------- *)
Lemma cstr_id s : no_nul s = true -> cstr s = s.
Proof.
  induction s as [|c s IH]; intros H; [reflexivity|].
  unfold no_nul in H. cbn [existsb] in H. apply negb_true_iff in H. apply orb_false_iff in H. destruct H as [H1 H2].
  destruct c as [|q]; [discriminate|]. cbn. f_equal. apply IH. unfold no_nul. rewrite H2. reflexivity.
Qed.

Definition msg_of (r : str * str * str * str) : str := let '(_, _, _, m) := r in m.

Lemma log_roundtrip_lemma rows :
  forallb row_plain rows = true -> log_guard (map msg_of rows) = true ->
  read_log (log_file rows) = LCells (map (fun r => CStr (msg_of r)) rows).
Proof.
  intros Hp Hg. unfold read_log. rewrite log_csv_roundtrip_lemma by exact Hp.
  replace (list_eqb str_eqb header_row header_row) with true by reflexivity. cbn [negb].
  assert (H4 : existsb (fun r => Nat.ltb 4 (length r)) (map row_fields rows) = false).
  { clear. induction rows as [|[[[p d] s] m] rows IH]; [reflexivity|]. cbn. exact IH. }
  rewrite H4. f_equal. unfold log_guard in Hg. clear Hp H4.
  induction rows as [|[[[p d] s] m] rows IH]; [reflexivity|].
  cbn [map forallb msg_of] in *. apply andb_true_iff in Hg. destruct Hg as [Hm Hg].
  rewrite IH by exact Hg. cbn. rewrite cstr_id by exact Hm. reflexivity.
Qed.
