(* PV.Base.Stmts — statement lists (Assignment | CompartmentalSystem) and their reference
   semantics: sequential execution.  Shared by C10, C07 and others. *)
From Coq Require Import QArith List Bool PArith Arith Lia.
From PV Require Import Base.PyData Base.Expr Base.Interp.
Import ListNotations.

(* A statement is an Assignment or a CompartmentalSystem; of the latter only what the queries
   look at is kept: the amounts it defines and its rhs_symbols. *)
Inductive stmt :=
| Assign (s : id) (e : expr)
| Ode (amts : list id) (rhs : list id).

Definition defs (st : stmt) : list id := match st with Assign s _ => [s] | Ode a _ => a end.
Definition rhs (st : stmt) : list id := match st with Assign _ e => free_syms e | Ode _ r => r end.
Definition is_assign_of (s : id) (st : stmt) : bool :=
  match st with Assign x _ => Pos.eqb x s | Ode _ _ => false end.

Definition dummy : stmt := Ode [] [].
Definition nths (l : list stmt) (i : nat) : stmt := nth i l dummy.

(* ---- reference semantics: sequential execution -------------------------------------------- *)
Section Exec.
  Variable fi : finterp.
  (* the ODE solver as an oracle: value of amount [a] given the values of the system's rhs symbols *)
  Variable ode : id -> list (option Q) -> option Q.

  Definition upd_list (r : env) (amts : list id) (vals : id -> option Q) : env :=
    fun x => if memp x amts then vals x else r x.

  Definition exec1 (r : env) (st : stmt) : env :=
    match st with
    | Assign s e => upd r s (eval r fi e)
    | Ode amts rh => upd_list r amts (fun a => ode a (map r rh))
    end.

  Fixpoint exec (r : env) (l : list stmt) : env :=
    match l with
    | [] => r
    | st :: tl => exec (exec1 r st) tl
    end.
End Exec.


(* ---- concrete oracle and comparisons used by correspondence checks ------------------------ *)
Fixpoint osum (l : list (option Q)) : option Q :=
  match l with
  | [] => Some 0%Q
  | None :: _ => None
  | Some x :: tl => match osum tl with Some y => Some (Qred (x + y)) | None => None end
  end.
(* a fixed ODE "solution": amount a = a + sum of the values of the rhs symbols *)
Definition std_ode (a : id) (vals : list (option Q)) : option Q :=
  match osum vals with Some s => Some (Qred (s + inject_Z (Zpos a))) | None => None end.

Definition run (m : list (id * Q)) (l : list stmt) : env := exec std_fi std_ode (env_of m) l.

Local Open Scope nat_scope.
(* verdict codes for comparing two values at one point: 0 agree, 1 disagree, 2 undefined somewhere *)
Definition cmp_oq (a b : option Q) : nat :=
  match a, b with
  | Some x, Some y => if Qeq_bool x y then 0 else 1
  | _, _ => 2
  end.

(* two expressions agree when they are equal at every point where both are defined and both are
   defined at [need] points at least; result: 0 agree, 1 disagree, 2 inconclusive *)
Definition count_eq (k : nat) (l : list nat) : nat := length (filter (Nat.eqb k) l).
Definition summarize (need : nat) (vs : list nat) : nat :=
  if 0 <? count_eq 1 vs then 1 else if need <=? count_eq 0 vs then 0 else 2.

Definition expr_agree (need : nat) (envs : list env) (a b : expr) : nat :=
  summarize need (map (fun r => cmp_oq (eval r std_fi a) (eval r std_fi b)) envs).

Definition stmt_agree (need : nat) (envs : list env) (a b : stmt) : nat :=
  match a, b with
  | Assign s e, Assign s' e' => if Pos.eqb s s' then expr_agree need envs e e' else 1
  | Ode am rh, Ode am' rh' => if setp_eqb am am' && setp_eqb rh rh' then 0 else 1
  | _, _ => 1
  end.

Fixpoint stmts_agree (need : nat) (envs : list env) (a b : list stmt) : nat :=
  match a, b with
  | [], [] => 0
  | x :: a', y :: b' =>
      match stmt_agree need envs x y with
      | 0 => stmts_agree need envs a' b'
      | 1 => 1
      | _ => match stmts_agree need envs a' b' with 1 => 1 | _ => 2 end
      end
  | _, _ => 1
  end.
