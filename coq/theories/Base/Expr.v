(* PV.Base.Expr — the symbolic expression IR shared by all models.

   A sympy/symengine expression tree, after conversion by harness/lib/sym2coq.py.
   Piecewise is a right-nested chain (PwCons c e rest; PwNil = "no branch matched", undefined),
   so ordinary mutual structural induction works.  Evaluation is exact over Q and option-valued
   (None = undefined: unknown symbol, division by zero, no matching piece, a function outside the
   domain of the chosen interpretation).  Functions are uninterpreted: [eval] takes an
   interpretation [fi]; every theorem is quantified over all interpretations. *)
From Coq Require Import QArith List Bool PArith Lia.
Import ListNotations.
Local Open Scope Q_scope.

Definition id := positive.

Inductive relop := OLt | OLe | OEq | ONe | OGt | OGe.

Inductive expr :=
| Num (q : Q)
| Sym (s : id)
| Fn1 (f : id) (a : expr)
| Fn2 (f : id) (a b : expr)
| Add (a b : expr)
| Mul (a b : expr)
| Neg (a : expr)
| Div (a b : expr)
| PwNil
| PwCons (c : cond) (e : expr) (rest : expr)
with cond :=
| CTrue
| CFalse
| CRel (o : relop) (a b : expr)
| CAnd (a b : cond)
| COr (a b : cond)
| CNot (a : cond).

Scheme expr_mut := Induction for expr Sort Prop
with cond_mut := Induction for cond Sort Prop.
Combined Scheme expr_cond_mut from expr_mut, cond_mut.

Definition env := id -> option Q.
Record finterp := { fi1 : id -> Q -> option Q; fi2 : id -> Q -> Q -> option Q }.

Definition obind {A B} (x : option A) (f : A -> option B) : option B :=
  match x with Some a => f a | None => None end.

Definition relb (o : relop) (x y : Q) : bool :=
  match o with
  | OLt => negb (Qle_bool y x) | OLe => Qle_bool x y | OEq => Qeq_bool x y
  | ONe => negb (Qeq_bool x y) | OGt => negb (Qle_bool x y) | OGe => Qle_bool y x end.

Fixpoint eval (r : env) (fi : finterp) (e : expr) : option Q :=
  match e with
  | Num q => Some q
  | Sym s => r s
  | Fn1 f a => obind (eval r fi a) (fi1 fi f)
  | Fn2 f a b => obind (eval r fi a) (fun x => obind (eval r fi b) (fun y => fi2 fi f x y))
  | Add a b => obind (eval r fi a) (fun x => obind (eval r fi b) (fun y => Some (Qred (x + y))))
  | Mul a b => obind (eval r fi a) (fun x => obind (eval r fi b) (fun y => Some (Qred (x * y))))
  | Neg a => obind (eval r fi a) (fun x => Some (- x))
  | Div a b => obind (eval r fi a) (fun x => obind (eval r fi b) (fun y =>
                 if Qeq_bool y 0 then None else Some (Qred (x / y))))
  | PwNil => None
  | PwCons c e rest => obind (evalc r fi c) (fun b => if b then eval r fi e else eval r fi rest)
  end
with evalc (r : env) (fi : finterp) (c : cond) : option bool :=
  match c with
  | CTrue => Some true
  | CFalse => Some false
  | CRel o a b => obind (eval r fi a) (fun x => obind (eval r fi b) (fun y => Some (relb o x y)))
  | CAnd a b => obind (evalc r fi a) (fun x => obind (evalc r fi b) (fun y => Some (andb x y)))
  | COr a b => obind (evalc r fi a) (fun x => obind (evalc r fi b) (fun y => Some (orb x y)))
  | CNot a => obind (evalc r fi a) (fun x => Some (negb x))
  end.

(* single-symbol substitution: what Expr.subs({sym: rhs}) does for a Symbol key *)
Fixpoint subs (s : id) (t : expr) (e : expr) : expr :=
  match e with
  | Num q => Num q
  | Sym x => if Pos.eqb x s then t else Sym x
  | Fn1 f a => Fn1 f (subs s t a)
  | Fn2 f a b => Fn2 f (subs s t a) (subs s t b)
  | Add a b => Add (subs s t a) (subs s t b)
  | Mul a b => Mul (subs s t a) (subs s t b)
  | Neg a => Neg (subs s t a)
  | Div a b => Div (subs s t a) (subs s t b)
  | PwNil => PwNil
  | PwCons c e rest => PwCons (subsc s t c) (subs s t e) (subs s t rest)
  end
with subsc (s : id) (t : expr) (c : cond) : cond :=
  match c with
  | CTrue => CTrue
  | CFalse => CFalse
  | CRel o a b => CRel o (subs s t a) (subs s t b)
  | CAnd a b => CAnd (subsc s t a) (subsc s t b)
  | COr a b => COr (subsc s t a) (subsc s t b)
  | CNot a => CNot (subsc s t a)
  end.

(* parallel substitution by a finite map (association list, first match wins) *)
Fixpoint alookup {A} (m : list (id * A)) (x : id) : option A :=
  match m with
  | [] => None
  | (k, v) :: tl => if Pos.eqb k x then Some v else alookup tl x
  end.

Fixpoint subs_map (m : list (id * expr)) (e : expr) : expr :=
  match e with
  | Num q => Num q
  | Sym x => match alookup m x with Some t => t | None => Sym x end
  | Fn1 f a => Fn1 f (subs_map m a)
  | Fn2 f a b => Fn2 f (subs_map m a) (subs_map m b)
  | Add a b => Add (subs_map m a) (subs_map m b)
  | Mul a b => Mul (subs_map m a) (subs_map m b)
  | Neg a => Neg (subs_map m a)
  | Div a b => Div (subs_map m a) (subs_map m b)
  | PwNil => PwNil
  | PwCons c e rest => PwCons (subsc_map m c) (subs_map m e) (subs_map m rest)
  end
with subsc_map (m : list (id * expr)) (c : cond) : cond :=
  match c with
  | CTrue => CTrue
  | CFalse => CFalse
  | CRel o a b => CRel o (subs_map m a) (subs_map m b)
  | CAnd a b => CAnd (subsc_map m a) (subsc_map m b)
  | COr a b => COr (subsc_map m a) (subsc_map m b)
  | CNot a => CNot (subsc_map m a)
  end.

Fixpoint free_syms (e : expr) : list id :=
  match e with
  | Num _ => []
  | Sym x => [x]
  | Fn1 _ a => free_syms a
  | Fn2 _ a b => free_syms a ++ free_syms b
  | Add a b => free_syms a ++ free_syms b
  | Mul a b => free_syms a ++ free_syms b
  | Neg a => free_syms a
  | Div a b => free_syms a ++ free_syms b
  | PwNil => []
  | PwCons c e rest => free_symsc c ++ free_syms e ++ free_syms rest
  end
with free_symsc (c : cond) : list id :=
  match c with
  | CTrue => []
  | CFalse => []
  | CRel _ a b => free_syms a ++ free_syms b
  | CAnd a b => free_symsc a ++ free_symsc b
  | COr a b => free_symsc a ++ free_symsc b
  | CNot a => free_symsc a
  end.

Definition upd (r : env) (s : id) (v : option Q) : env :=
  fun x => if Pos.eqb x s then v else r x.

Definition agree_on (l : list id) (r r' : env) : Prop := forall x, In x l -> r x = r' x.

(* ---------- lemmas ---------- *)

Lemma subs_lemma r fi s t :
  (forall e, eval r fi (subs s t e) = eval (upd r s (eval r fi t)) fi e) /\
  (forall c, evalc r fi (subsc s t c) = evalc (upd r s (eval r fi t)) fi c).
Proof.
  apply expr_cond_mut; intros; cbn [subs subsc eval evalc];
    try reflexivity;
    repeat match goal with H : _ = _ |- _ => rewrite H; clear H end; try reflexivity.
  unfold upd. destruct (Pos.eqb s0 s); reflexivity.
Qed.

Lemma subs_eval r fi s t e : eval r fi (subs s t e) = eval (upd r s (eval r fi t)) fi e.
Proof. apply subs_lemma. Qed.

Lemma agree_on_app l1 l2 r r' : agree_on (l1 ++ l2) r r' <-> agree_on l1 r r' /\ agree_on l2 r r'.
Proof.
  unfold agree_on; split.
  - intros H; split; intros x Hx; apply H, in_or_app; auto.
  - intros [H1 H2] x Hx; apply in_app_or in Hx; destruct Hx; auto.
Qed.

Lemma coincidence fi r r' :
  (forall e, agree_on (free_syms e) r r' -> eval r fi e = eval r' fi e) /\
  (forall c, agree_on (free_symsc c) r r' -> evalc r fi c = evalc r' fi c).
Proof.
  apply expr_cond_mut; intros; cbn [eval evalc free_syms free_symsc] in *;
    repeat match goal with
           | H : agree_on (_ ++ _) _ _ |- _ => apply agree_on_app in H; destruct H
           end;
    repeat match goal with
           | IH : agree_on ?l r r' -> _ = _, H : agree_on ?l r r' |- _ => rewrite (IH H); clear IH
           end; try reflexivity.
  apply H; left; reflexivity.
Qed.

Lemma eval_coincidence fi r r' e : agree_on (free_syms e) r r' -> eval r fi e = eval r' fi e.
Proof. apply coincidence. Qed.

(* substitution by a map: evaluation lemma *)
Definition upd_map (r : env) (fi : finterp) (m : list (id * expr)) : env :=
  fun x => match alookup m x with Some t => eval r fi t | None => r x end.

Lemma subs_map_lemma r fi m :
  (forall e, eval r fi (subs_map m e) = eval (upd_map r fi m) fi e) /\
  (forall c, evalc r fi (subsc_map m c) = evalc (upd_map r fi m) fi c).
Proof.
  apply expr_cond_mut; intros; cbn [subs_map subsc_map eval evalc];
    try reflexivity;
    repeat match goal with H : _ = _ |- _ => rewrite H; clear H end; try reflexivity.
  unfold upd_map. destruct (alookup m s); reflexivity.
Qed.

(* free symbols of a substituted expression *)
Lemma free_syms_subs s t :
  (forall e x, In x (free_syms (subs s t e)) -> (In x (free_syms e) /\ x <> s) \/ (In s (free_syms e) /\ In x (free_syms t))) /\
  (forall c x, In x (free_symsc (subsc s t c)) -> (In x (free_symsc c) /\ x <> s) \/ (In s (free_symsc c) /\ In x (free_syms t))).
Proof.
  apply expr_cond_mut; intros; cbn [subs subsc free_syms free_symsc] in *;
    try (exfalso; assumption);
    repeat match goal with
           | H : In _ (_ ++ _) |- _ => apply in_app_or in H; destruct H
           end;
    try match goal with
        | IH : forall x, In x (free_syms (subs s t ?a)) -> _, H : In _ (free_syms (subs s t ?a)) |- _ =>
            destruct (IH _ H) as [[? ?]|[? ?]]; [left; split; [|assumption] | right; split; [|assumption]];
            repeat (apply in_or_app; (left; assumption) || right); try assumption;
            try (apply in_or_app; left; assumption)
        | IH : forall x, In x (free_symsc (subsc s t ?a)) -> _, H : In _ (free_symsc (subsc s t ?a)) |- _ =>
            destruct (IH _ H) as [[? ?]|[? ?]]; [left; split; [|assumption] | right; split; [|assumption]];
            repeat (apply in_or_app; (left; assumption) || right); try assumption;
            try (apply in_or_app; left; assumption)
        end.
  - (* Sym *)
    destruct (Pos.eqb s0 s) eqn:E.
    + apply Pos.eqb_eq in E; subst. right; split; [left; reflexivity | assumption].
    + cbn in H. destruct H as [H|[]]; subst. left; split; [left; reflexivity|].
      intro; subst. rewrite Pos.eqb_refl in E; discriminate.
Qed.
