(* PV.Base.Interp — the concrete, identity-respecting exact interpretation of function symbols
   used ONLY by the correspondence checks (theorems quantify over every interpretation).
   exp ↦ 2^n on integers, log ↦ log2 on powers of two, sqrt on rational squares, integer powers;
   anything outside these exact domains is undefined (None) and the sample point is skipped.
   Function ids are fixed here and mirrored in harness/lib/sym2coq.py (FUNC_IDS). *)
From Coq Require Import QArith ZArith List Bool PArith Lia Qabs Qround.
From PV Require Import Base.Expr.
Local Open Scope Q_scope.

Definition F_EXP : id := 1%positive.
Definition F_LOG : id := 2%positive.
Definition F_SQRT : id := 3%positive.
Definition F_ABS : id := 4%positive.
Definition F_POW : id := 5%positive.     (* Fn2 *)
Definition F_FLOOR : id := 6%positive.   (* truncation toward -inf *)
Definition F_SIGN : id := 7%positive.
Definition F_MOD : id := 8%positive.     (* Fn2 *)
Definition F_SIN : id := 9%positive.
Definition F_COS : id := 10%positive.
Definition F_TAN : id := 11%positive.
Definition F_ASIN : id := 12%positive.
Definition F_ACOS : id := 13%positive.
Definition F_ATAN : id := 14%positive.
Definition F_INT : id := 15%positive.    (* truncation toward zero *)
Definition F_GAMMA : id := 16%positive.
Definition F_MAX : id := 17%positive.    (* Fn2 *)
Definition F_MIN : id := 18%positive.    (* Fn2 *)
Definition F_CEIL : id := 19%positive.

Definition q_is_int (x : Q) : option Z :=
  let y := Qred x in if Pos.eqb (Qden y) 1 then Some (Qnum y) else None.

Definition pos_log2_exact (p : positive) : option Z :=
  let k := Z.log2 (Zpos p) in if Z.eqb (Z.pow 2 k) (Zpos p) then Some k else None.

Definition q_log2 (x : Q) : option Q :=
  let y := Qred x in
  match Qnum y with
  | Zpos n =>
      if Pos.eqb (Qden y) 1 then option_map (fun k => inject_Z k) (pos_log2_exact n)
      else if Pos.eqb n 1 then option_map (fun k => inject_Z (- k)) (pos_log2_exact (Qden y))
      else None
  | _ => None
  end.

Definition z_sqrt_exact (z : Z) : option Z :=
  if Z.ltb z 0 then None else let s := Z.sqrt z in if Z.eqb (s * s) z then Some s else None.

Definition q_sqrt (x : Q) : option Q :=
  let y := Qred x in
  match z_sqrt_exact (Qnum y), z_sqrt_exact (Zpos (Qden y)) with
  | Some a, Some (Zpos b) => Some (a # b)
  | _, _ => None
  end.

Definition q_pow_int (x : Q) (n : Z) : option Q :=
  if Z.ltb (Z.abs n) 64 then
    if andb (Qeq_bool x 0) (Z.ltb n 0) then None else Some (Qred (Qpower x n))
  else None.

Definition q_pow (x y : Q) : option Q :=
  match q_is_int y with
  | Some n => q_pow_int x n
  | None =>
      let y' := Qred y in
      if Qeq_bool y' (1 # 2) then q_sqrt x
      else if Qeq_bool y' (- (1 # 2)) then
             match q_sqrt x with Some s => if Qeq_bool s 0 then None else Some (Qred (/ s)) | None => None end
      else None
  end.

Definition q_floor (x : Q) : Q := inject_Z (Qfloor x).
Definition q_ceil (x : Q) : Q := inject_Z (Qceiling x).
Definition q_trunc (x : Q) : Q := if Qle_bool 0 x then q_floor x else q_ceil x.
Definition q_sign (x : Q) : Q := if Qeq_bool x 0 then 0 else if Qle_bool 0 x then 1 else (-1 # 1).
Definition q_cube (x : Q) : Q := Qred (x * x * x).

Definition std_fi1 (f : id) (x : Q) : option Q :=
  if Pos.eqb f F_EXP then match q_is_int x with Some n => q_pow_int 2 n | None => None end
  else if Pos.eqb f F_LOG then q_log2 x
  else if Pos.eqb f F_SQRT then q_sqrt x
  else if Pos.eqb f F_ABS then Some (Qabs x)
  else if Pos.eqb f F_FLOOR then Some (q_floor x)
  else if Pos.eqb f F_CEIL then Some (q_ceil x)
  else if Pos.eqb f F_INT then Some (q_trunc x)
  else if Pos.eqb f F_SIGN then Some (q_sign x)
  else if Pos.eqb f F_SIN then Some (q_cube x)
  else if Pos.eqb f F_TAN then Some (Qred (2 * q_cube x))
  else if Pos.eqb f F_ASIN then Some (Qred (3 * q_cube x))
  else if Pos.eqb f F_ATAN then Some (Qred (5 * q_cube x))
  else if Pos.eqb f F_COS then Some (Qred (x * x + 1))
  else None.

Definition std_fi2 (f : id) (x y : Q) : option Q :=
  if Pos.eqb f F_POW then q_pow x y
  else if Pos.eqb f F_MOD then
         if Qeq_bool y 0 then None else Some (Qred (x - y * q_floor (x / y)))
  else if Pos.eqb f F_MAX then Some (if Qle_bool x y then y else x)
  else if Pos.eqb f F_MIN then Some (if Qle_bool x y then x else y)
  else None.

Definition std_fi : finterp := {| fi1 := std_fi1; fi2 := std_fi2 |}.

(* environments given as association lists *)
Definition env_of (m : list (id * Q)) : env := fun x => alookup m x.

Definition oq_eqb (a b : option Q) : bool :=
  match a, b with
  | Some x, Some y => Qeq_bool x y
  | None, None => true
  | _, _ => false
  end.
