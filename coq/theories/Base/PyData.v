(* PV.Base.PyData — small Python data idioms on lists: sets of identifiers / indices as lists,
   canonical (sorted, duplicate free) form for comparing sets inside Coq. *)
From Coq Require Import List Bool PArith Arith Lia.
Import ListNotations.

Definition memp (x : positive) (l : list positive) : bool := existsb (Pos.eqb x) l.
Definition memn (x : nat) (l : list nat) : bool := existsb (Nat.eqb x) l.

Lemma memp_In x l : memp x l = true <-> In x l.
Proof.
  unfold memp. rewrite existsb_exists. split.
  - intros [y [Hy E]]. apply Pos.eqb_eq in E. subst. exact Hy.
  - intros H. exists x. split; [exact H | apply Pos.eqb_refl].
Qed.

Lemma memn_In x l : memn x l = true <-> In x l.
Proof.
  unfold memn. rewrite existsb_exists. split.
  - intros [y [Hy E]]. apply Nat.eqb_eq in E. subst. exact Hy.
  - intros H. exists x. split; [exact H | apply Nat.eqb_refl].
Qed.

Definition diffp (a b : list positive) : list positive := filter (fun x => negb (memp x b)) a.
Definition unionp (a b : list positive) : list positive := a ++ filter (fun x => negb (memp x a)) b.
Definition interp_nonempty (a b : list positive) : bool := existsb (fun x => memp x b) a.

Lemma In_diffp x a b : In x (diffp a b) <-> In x a /\ ~ In x b.
Proof.
  unfold diffp. rewrite filter_In, negb_true_iff. split; intros [H1 H2]; split; auto.
  - intro H. apply memp_In in H. congruence.
  - destruct (memp x b) eqn:E; [apply memp_In in E; contradiction | reflexivity].
Qed.

Lemma In_unionp x a b : In x (unionp a b) <-> In x a \/ In x b.
Proof.
  unfold unionp. rewrite in_app_iff, filter_In, negb_true_iff. split.
  - intros [H|[H _]]; auto.
  - intros [H|H]; auto. destruct (memp x a) eqn:E; [left; apply memp_In; exact E | right; auto].
Qed.

Lemma interp_nonempty_spec a b : interp_nonempty a b = true <-> exists x, In x a /\ In x b.
Proof.
  unfold interp_nonempty. rewrite existsb_exists. split; intros [x [H1 H2]]; exists x; split; auto;
    apply memp_In; exact H2.
Qed.

(* canonical form of a set of positives: insertion sort without duplicates *)
Fixpoint insp (x : positive) (l : list positive) : list positive :=
  match l with
  | [] => [x]
  | y :: tl => match Pos.compare x y with
               | Lt => x :: l
               | Eq => l
               | Gt => y :: insp x tl
               end
  end.
Definition normp (l : list positive) : list positive := fold_right insp [] l.

Fixpoint insn (x : nat) (l : list nat) : list nat :=
  match l with
  | [] => [x]
  | y :: tl => match Nat.compare x y with
               | Lt => x :: l
               | Eq => l
               | Gt => y :: insn x tl
               end
  end.
Definition normn (l : list nat) : list nat := fold_right insn [] l.

Lemma In_insp x y l : In y (insp x l) <-> y = x \/ In y l.
Proof.
  induction l as [|z tl IH]; cbn [insp].
  - cbn. intuition.
  - destruct (Pos.compare_spec x z) as [E|E|E]; cbn [In]; try rewrite IH; subst; intuition.
Qed.

Lemma In_normp y l : In y (normp l) <-> In y l.
Proof.
  induction l as [|x tl IH]; cbn [normp fold_right]; [tauto|].
  fold (normp tl). rewrite In_insp, IH. cbn. intuition.
Qed.

Fixpoint list_eqb {A} (eqb : A -> A -> bool) (a b : list A) : bool :=
  match a, b with
  | [], [] => true
  | x :: a', y :: b' => eqb x y && list_eqb eqb a' b'
  | _, _ => false
  end.

Definition setp_eqb (a b : list positive) : bool := list_eqb Pos.eqb (normp a) (normp b).
Definition setn_eqb (a b : list nat) : bool := list_eqb Nat.eqb (normn a) (normn b).

(* indices of the failing cases of a list of boolean verdicts — what every cases_k.v prints *)
Fixpoint failing_from {A} (check : A -> bool) (i : nat) (l : list A) : list nat :=
  match l with
  | [] => []
  | c :: tl => if check c then failing_from check (S i) tl else i :: failing_from check (S i) tl
  end.
Definition failing {A} (check : A -> bool) (l : list A) : list nat := failing_from check 0 l.
