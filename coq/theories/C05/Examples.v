(* PV.C05.Examples — non-vacuity: concrete non-trivial instances of every hypothesis / guard. *)
From Coq Require Import QArith ZArith NArith List Bool PArith Arith Permutation.
From PV Require Import Base.PyData Base.Expr Base.Interp C05.Model C05.ToCs C05.Access C05.Proofs C05.Refuted.
Import ListNotations.
Local Open Scope nat_scope.

Definition sAD : id := 10%positive. Definition sKA : id := 11%positive. Definition sR0 : id := 12%positive.
Definition sVM : id := 13%positive. Definition sKM : id := 14%positive. Definition sAE : id := 15%positive.
Definition n_DEPOT : name := [68; 69; 80; 79; 84]%N.
Definition n_AA : name := [65; 65]%N.
Definition depot : comp := mkComp n_DEPOT (Sym sAD) [Bolus (Sym sAMT) 1] (Num 0) (Sym sALAG) (Num 1).
Definition central0 : comp := mkComp n_CENTRAL (Sym sAC) [] (Num 0) (Num 0) (Num 1).
Definition extra : comp := mkComp n_AA (Sym sAE) [] (Sym sR0) (Num 0) (Num 1).

(* DEPOT(dose, lag) -KA-> CENTRAL <-> PERI, CENTRAL -> output with a Michaelis-Menten rate,
   AA (zero-order input R0) -> CENTRAL is upstream of the dose; then the dose is moved, a lag time set *)
Definition ex_ops : list op :=
  [OAddCompartment peri; OAddCompartment extra; OAddCompartment depot; OAddCompartment central0;
   OAddFlow n_DEPOT (TName n_CENTRAL) (Sym sKA);
   OAddFlow n_CENTRAL (TName n_PERI) (Sym sK12); OAddFlow n_PERI (TName n_CENTRAL) (Sym sK21);
   OAddFlow n_CENTRAL TOut (Div (Sym sVM) (Add (Sym sKM) (Sym sAC)));
   OAddFlow n_AA (TName n_CENTRAL) (Sym sK);
   OSetLag n_DEPOT (Num 0); OAddDose n_CENTRAL (DOne (Infusion (Sym sAMT) 2 (Some (Sym sR0)) None))].
Definition ex_g : graph := build ex_ops.
Definition ex_env : env :=
  env_of [(sK, 2%Q); (sK12, 3%Q); (sK21, 5%Q); (sKA, 7%Q); (sVM, 4%Q); (sKM, 1%Q); (sR0, 11%Q);
          (sAC, 1%Q); (sAP, 13%Q); (sAD, 17%Q); (sAE, 19%Q); (sAMT, 100%Q)].

Example ex_wf : wf_graph ex_g = true.
Proof. vm_compute. reflexivity. Qed.

(* the order is not the insertion order: BFS from the first dosing compartment, then the upstream part *)
Example ex_order : map c_name (order ex_g) = [n_DEPOT; n_CENTRAL; n_PERI; n_AA] /\
                   map c_name (comps ex_g) = [n_PERI; n_AA; n_DEPOT; n_CENTRAL].
Proof. split; vm_compute; reflexivity. Qed.

Example ex_dosing : option_map (map c_name) (dosing_compartments ex_g) = Some [n_DEPOT; n_CENTRAL] /\
                    option_map c_name (central_compartment ex_g) = Some n_CENTRAL.
Proof. split; vm_compute; reflexivity. Qed.

(* hypotheses of mass_balance hold on a 4-compartment system with a nonlinear rate and an input *)
Example ex_mass_balance_hyps :
  rates_defined_b ex_g ex_env std_fi = true /\ comps_defined_b ex_g ex_env std_fi = true.
Proof. split; vm_compute; reflexivity. Qed.

Example ex_mass_balance_values :
  eval ex_env std_fi (total_rhs ex_g) = Some 9%Q /\ eval ex_env std_fi (total_input ex_g) = Some 11%Q /\
  eval ex_env std_fi (total_output ex_g) = Some 2%Q.
Proof. repeat split; vm_compute; reflexivity. Qed.

(* eqs_entrywise / matrix_def: the CENTRAL row (index 1) *)
Example ex_row :
  eval ex_env std_fi (eq_rhs_on ex_g (order ex_g) 1) = Some (7 * 17 + (- (3 + 2)) * 1 + 5 * 13 + 2 * 19)%Q.
Proof. vm_compute. reflexivity. Qed.

(* dict_roundtrip and == on a system with doses *)
Example ex_roundtrip :
  from_dict (to_dict (ex_g, Sym sT)) = Some (ex_g, Sym sT) /\ cs_eq (ex_g, Sym sT) (ex_g, Sym sT) = true /\
  dosing_compartments ex_g <> None.
Proof. repeat split; vm_compute; try reflexivity. discriminate. Qed.

(* the hypotheses of mass_balance also hold on the self-flow system (no guard needed any more); the
   dose-less system really has no dosing compartments *)
Example ex_guards :
  rates_defined_b (build selfloop_ops) selfloop_env std_fi = true /\
  comps_defined_b (build selfloop_ops) selfloop_env std_fi = true /\
  dosing_compartments (build nodose_ops) = None /\
  names_unique (comps ex_g) = true.
Proof. repeat split; vm_compute; reflexivity. Qed.

(* relabelling moves a compartment to the end of the node order: after set_lag_time on DEPOT and
   add_dose on CENTRAL the node order is PERI, AA, DEPOT, CENTRAL -> (DEPOT moved) -> (CENTRAL moved) *)
Example ex_relabel_order :
  map c_name (comps (build (firstn 9 ex_ops))) = [n_PERI; n_AA; n_DEPOT; n_CENTRAL] /\
  map c_name (comps (build (firstn 10 ex_ops))) = [n_PERI; n_AA; n_CENTRAL; n_DEPOT] /\
  map c_name (comps ex_g) = [n_PERI; n_AA; n_DEPOT; n_CENTRAL].
Proof. repeat split; vm_compute; reflexivity. Qed.

(* bfs from DEPOT reaches CENTRAL then PERI (closed under successors; AA is upstream) *)
Example ex_bfs : map c_name (bfs ex_g (nthc (order ex_g) 0)) = [n_DEPOT; n_CENTRAL; n_PERI] /\
                 memc (nthc (order ex_g) 0) (comps ex_g) = true.
Proof. split; vm_compute; reflexivity. Qed.

(* diag_total_outflow: CENTRAL is a compartment of the graph and has two outgoing edges *)
Example ex_diag : memc (nthc (order ex_g) 1) (comps ex_g) = true /\
                  length (adj_of ex_g (Cmt (nthc (order ex_g) 1))) = 2 /\
                  eval ex_env std_fi (diag_entry ex_g (order ex_g) 1) = Some (- (5))%Q.
Proof. repeat split; vm_compute; reflexivity. Qed.

(* subs: K := 2*KA replaces the rate AA -> CENTRAL, the structure is unchanged *)
Definition ex_m : list (id * expr) := [(sK, Mul (Num 2) (Sym sKA)); (sR0, Sym sVM)].
Example ex_subs :
  names_unique (comps ex_g) = true /\
  get_flow (subs_graph ex_m ex_g) (node_subs ex_m (Cmt (nthc (order ex_g) 3))) (node_subs ex_m (Cmt (nthc (order ex_g) 1)))
  = Mul (Num 2) (Sym sKA) /\
  c_input (comp_subs ex_m (nthc (order ex_g) 3)) = Sym sVM /\
  map c_name (comps (subs_graph ex_m ex_g)) = map c_name (comps ex_g).
Proof. repeat split; vm_compute; reflexivity. Qed.

(* update_ops_preserve_flows: set_lag_time on DEPOT in the example graph before its last two edits *)
Example ex_update_op :
  let g := build (firstn 9 ex_ops) in
  option_map (fun p => (c_name (fst p), c_lag (snd p))) (updated_comp g (OSetLag n_DEPOT (Sym sALAG))) = Some (n_DEPOT, Sym sALAG) /\
  names_unique (comps g) = true /\ length (nodes g) = 5.
Proof. repeat split; vm_compute; reflexivity. Qed.

(* move_dose_preserves_flows: a move that really relabels two compartments *)
Example ex_move_dose :
  let g := build (firstn 9 ex_ops) in
  snd (apply_op g (OMoveDose n_DEPOT n_CENTRAL None)) = None /\
  option_map c_name (find_compartment g n_DEPOT) = Some n_DEPOT /\
  option_map (map c_name) (dosing_compartments (fst (apply_op g (OMoveDose n_DEPOT n_CENTRAL None)))) = Some [n_CENTRAL].
Proof. repeat split; vm_compute; reflexivity. Qed.

(* odes_roundtrip_partial is not vacuous: 12492 systems, among them a full 3-cycle with outputs and inputs *)
Example ex_shapes :
  length all_shapes = 12 + 192 + 3 * 4096 /\
  In (mkShape 2 [(0, 1); (1, 0)] [1] [0] [0]) all_shapes /\
  g_default_idv (fun nm => match nm with [67%N] => Sym 100%positive | [66%N] => Sym 101%positive | _ => Num 0 end)
                (shape_graph (mkShape 2 [(0, 1); (1, 0)] [1] [0] [0])) = true.
Proof.
  split; [vm_compute; reflexivity|]. split; [|vm_compute; reflexivity].
  assert (H : existsb (fun s => Nat.eqb (s_n s) 2 && list_eqb (fun a b => Nat.eqb (fst a) (fst b) && Nat.eqb (snd a) (snd b)) (s_edges s) [(0, 1); (1, 0)]
                               && list_eqb Nat.eqb (s_outs s) [1] && list_eqb Nat.eqb (s_inps s) [0] && list_eqb Nat.eqb (s_doses s) [0]) all_shapes = true)
    by (vm_compute; reflexivity).
  apply existsb_exists in H. destruct H as [s [Hin Hs]].
  repeat (apply andb_prop in Hs; destruct Hs as [Hs ?]).
  destruct s as [n e o i d]. cbn [s_n s_edges s_outs s_inps s_doses] in *.
  apply Nat.eqb_eq in Hs. apply (list_eqb_spec Nat.eqb Nat.eqb_eq) in H, H0, H1. subst.
  assert (He : e = [(0, 1); (1, 0)]).
  { revert H2. apply list_eqb_spec. intros [a b] [c d']. cbn [fst snd]. rewrite andb_true_iff, !Nat.eqb_eq.
    split; [intros [-> ->]; reflexivity | intros E; injection E as -> ->; split; reflexivity]. }
  subst. exact Hin.
Qed.

(* odes_matching_loop / odes_partner_unique on the 3-cycle with outputs and inputs: hypotheses hold, the loop
   result has the three flows and the remaining equations are (output term, input term) *)
Example ex_matching_loop :
  let g := shape_graph (mkShape 3 [(0, 1); (1, 2); (2, 0)] [0; 2] [1] [0]) in
  wf_graph g = true /\ linear_distinct g = true /\ length (order g) = 3 /\
  length (filter (fun tr : triple => t_pos (snd tr)) (triples (terms_of g))) = 3 /\
  map (@length term) (fold_left (nstep (terms_of g)) (triples (terms_of g)) (terms_of g)) = [1; 1; 1].
Proof. repeat split; vm_compute; reflexivity. Qed.

(* odes_rest_equations on the 3-cycle with outputs and inputs: compartment 0 keeps only its output term,
   compartment 1 only its input term *)
Example ex_rest_equations :
  let g := shape_graph (mkShape 3 [(0, 1); (1, 2); (2, 0)] [0; 2] [1] [0]) in
  linear_distinct g = true /\ length (order g) = 3 /\
  map (fun a => (map t_pos (out_term g a), map t_pos (input_terms g a))) [0; 1; 2]
  = [([false], []); ([], [true]); ([false], [])] /\
  map (fun l => map t_pos l) (fold_left (nstep (terms_of g)) (triples (terms_of g)) (terms_of g)) = [[false]; [true]; [false]].
Proof. repeat split; vm_compute; reflexivity. Qed.

(* flow accessors on the example system: CENTRAL (order index 1) has 2 outflows (PERI, output), 3 inflows
   (PERI, AA, DEPOT in node order), one bidirectional partner, 3 connected compartments; 4 compartments *)
Example ex_access :
  let c := Cmt (nthc (order ex_g) 1) in
  let nm := fun n => match n with Cmt x => Some (c_name x) | Out => None end in
  memc (nthc (order ex_g) 1) (comps ex_g) = true /\
  map (fun e => nm (fst e)) (outflows ex_g c) = [Some n_PERI; None] /\
  map (fun e => nm (fst e)) (inflows ex_g c) = [Some n_PERI; Some n_AA; Some n_DEPOT] /\
  map nm (bidirectionals ex_g c) = [Some n_PERI] /\ n_connected ex_g c = 3 /\ cs_len ex_g = 4.
Proof. repeat split; vm_compute; reflexivity. Qed.
