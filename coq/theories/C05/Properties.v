(* PV.C05.Properties — the property theorems of C05 and nothing else.
   Vocabulary (defined in C05/Proofs.v):
     WF g              the graph invariant of every builder: output is the first node and has no
                       successor, node keys distinct, adjacency keys distinct and nodes of the graph
                       ([wf_graph g = true <-> WF g], theorem [wf_graph_iff]);
     ev r fi e q       "e is defined in environment r under interpretation fi and its value is Qeq to q"
                       ([eval] reduces intermediate results with Qred, hence Qeq and not eq);
     qsum l            the sum of a list of rationals. *)
From Coq Require Import QArith List Bool PArith Arith Permutation.
From PV Require Import Base.PyData Base.Expr C05.Model C05.ToCs C05.Access C05.Proofs.
Import ListNotations.
Local Open Scope nat_scope.

(* ---- the builder ------------------------------------------------------------------------------------ *)
Theorem wf_graph_iff : forall g, wf_graph g = true <-> WF g.
Proof. exact wf_graph_WF. Qed.

(* Every operation of CompartmentalSystemBuilder (add/remove compartment, add/remove flow, move / set /
   add / remove dose, set lag time / bioavailability / input, re-wrapping a system, flows between
   compartment objects not yet in the graph), whether it succeeds or raises, keeps the graph well formed. *)
Theorem builder_op_wf : forall g o, WF g -> WF (fst (apply_op g o)).
Proof. exact apply_op_WF. Qed.

(* ... hence every system that can be built by any history of operations is well formed. *)
Theorem builder_wf : forall ops, WF (build ops).
Proof. exact build_WF. Qed.

(* ---- one consistent compartment order ------------------------------------------------------------------ *)
(* _order_compartments returns every compartment of the graph exactly once — for every well-formed
   graph: any topology (cycles, disconnected parts, compartments upstream of the dose), any doses,
   with or without a dosing / central compartment. *)
Theorem order_perm : forall g, WF g -> Permutation (order g) (comps g).
Proof. exact order_perm_lemma. Qed.

Theorem order_perm_built : forall ops, Permutation (order (build ops)) (comps (build ops)).
Proof. exact order_perm_built_lemma. Qed.

(* names, amounts, zero-order inputs, the left-hand sides of eqs, the rows and the columns of the
   matrix and the right-hand sides of eqs are all indexed by that one order *)
Theorem order_shared : forall g,
  compartment_names g = map c_name (order g) /\
  amounts g = map c_amount (order g) /\
  zero_order_inputs g = map c_input (order g) /\
  eqs_lhs g = map c_amount (order g) /\
  length (eqs_rhs g) = length (order g) /\
  length (compartmental_matrix g) = length (order g) /\
  (forall row, In row (compartmental_matrix g) -> length row = length (order g)) /\
  (forall i j, i < length (order g) -> j < length (order g) ->
     nth j (nth i (compartmental_matrix g) []) (Num 0%Q) = matrix_entry g (order g) i j) /\
  (forall i, i < length (order g) -> nth i (eqs_rhs g) (Num 0%Q) = eq_rhs_on g (order g) i).
Proof. exact order_shared_lemma. Qed.

(* The breadth-first search of the model never runs out of fuel: its result is closed under
   "successor other than output" (so `order` really starts with everything reachable from the first
   dosing compartment, in BFS order with name-sorted neighbours). *)
Theorem bfs_closed : forall g src,
  WF g -> In src (comps g) ->
  forall p c, In p (bfs g src) -> In c (nbrs g p) -> In c (bfs g src).
Proof. exact bfs_closed_lemma. Qed.

(* ---- eqs = M.A + u, entry by entry ------------------------------------------------------------------------ *)
(* For every graph, every list of compartments taken as the order, every environment and function
   interpretation in which the entries are defined: the i-th right-hand side evaluates to
   sum_j M_ij * A_j + u_i. *)
Theorem eqs_entrywise : forall g ns r fi i (mv av : nat -> Q) (u : Q),
  (forall j, j < length ns -> ev r fi (matrix_entry g ns i j) (mv j)) ->
  (forall j, j < length ns -> ev r fi (c_amount (nthc ns j)) (av j)) ->
  ev r fi (c_input (nthc ns i)) u ->
  ev r fi (eq_rhs_on g ns i) (qsum (map (fun j => mv j * av j) (seq 0 (length ns))) + u)%Q.
Proof. exact eqs_entrywise_lemma. Qed.

(* ---- the matrix --------------------------------------------------------------------------------------------- *)
(* off the diagonal: entry (row, col) is the rate of the flow from compartment col to compartment row
   (0 when there is no such flow) *)
Theorem matrix_def_offdiag : forall g ns row col,
  row <> col -> matrix_entry g ns row col = get_flow g (Cmt (nthc ns col)) (Cmt (nthc ns row)).
Proof. exact matrix_offdiag_lemma. Qed.

(* on the diagonal (index comparison, as in the code after fix 34eef54): minus (the sum over the OTHER
   positions j' of rate(j -> j') plus the rate to output); kv j' = value of rate(j -> j') *)
Theorem matrix_def_diag : forall g ns j r fi (kv : nat -> Q) (ko : Q),
  (forall j', j' < length ns -> j' <> j -> ev r fi (get_flow g (Cmt (nthc ns j)) (Cmt (nthc ns j'))) (kv j')) ->
  ev r fi (get_flow g (Cmt (nthc ns j)) Out) ko ->
  ev r fi (matrix_entry g ns j j)
     (- (qsum (map (fun j' => if Nat.eqb j j' then 0%Q else kv j') (seq 0 (length ns))) + ko))%Q.
Proof. exact matrix_diag_lemma. Qed.

(* ... and that is exactly the outflow: for a well-formed graph the diagonal entry of compartment
   number i (in the real order) is minus the sum of the rates of the edges leaving it in the graph
   to the OTHER compartments and to output — no flow is lost or counted twice by the ordering, and
   a flow from the compartment to itself does not count. *)
Theorem diag_total_outflow : forall g r fi i,
  WF g -> rates_defined g r fi -> i < length (order g) ->
  let c := nthc (order g) i in
  ev r fi (diag_entry g (order g) i)
     (- qsum (map (fun e => oval (eval r fi (snd e)))
                  (filter (fun e => negb (node_eqb (fst e) (Cmt c))) (adj_of g (Cmt c)))))%Q.
Proof. exact diag_total_outflow_lemma. Qed.

(* The net rate of change of each amount is inflows from the other compartments minus outflows to the
   other compartments and to output, plus input — for EVERY graph (self flows included):
   kv j i = rate of the flow from compartment j to compartment i, ko i = rate to output. *)
Theorem node_balance : forall g ns r fi i (kv : nat -> nat -> Q) (ko av uv : nat -> Q),
  let n := length ns in
  i < n ->
  (forall i j, i < n -> j < n -> i <> j -> ev r fi (get_flow g (Cmt (nthc ns j)) (Cmt (nthc ns i))) (kv j i)) ->
  (forall j, j < n -> ev r fi (get_flow g (Cmt (nthc ns j)) Out) (ko j)) ->
  (forall j, j < n -> ev r fi (c_amount (nthc ns j)) (av j)) ->
  (forall j, j < n -> ev r fi (c_input (nthc ns j)) (uv j)) ->
  ev r fi (eq_rhs_on g ns i)
     (qsum (map (fun j => if Nat.eqb j i then 0 else kv j i * av j) (seq 0 n))
      - (qsum (map (fun j => if Nat.eqb j i then 0 else kv i j) (seq 0 n)) + ko i) * av i + uv i)%Q.
Proof. exact node_balance_lemma. Qed.

(* ---- mass balance ---------------------------------------------------------------------------------------------- *)
(* For every graph and every list of compartments taken as the order: the sum of all right-hand sides
   is the inputs minus the output flows times amounts (valuation form; only flows between DIFFERENT
   positions need to be defined). *)
Theorem mass_balance_general : forall g ns r fi (kv : nat -> nat -> Q) (ko av uv : nat -> Q),
  let n := length ns in
  (forall i j, i < n -> j < n -> i <> j -> ev r fi (get_flow g (Cmt (nthc ns j)) (Cmt (nthc ns i))) (kv j i)) ->
  (forall j, j < n -> ev r fi (get_flow g (Cmt (nthc ns j)) Out) (ko j)) ->
  (forall j, j < n -> ev r fi (c_amount (nthc ns j)) (av j)) ->
  (forall j, j < n -> ev r fi (c_input (nthc ns j)) (uv j)) ->
  ev r fi (total_rhs_on g ns) (qsum (map uv (seq 0 n)) - qsum (map (fun j => ko j * av j) (seq 0 n)))%Q.
Proof. exact mass_balance_general. Qed.

(* Mass balance, full strength (no guard since fix 34eef54): total amount changes only through the
   zero-order inputs and the flows to output — every graph (cycles, self flows, disconnected parts),
   every environment and interpretation in which the rates, amounts and inputs are defined. *)
Theorem mass_balance : forall g r fi,
  rates_defined g r fi -> comps_defined g r fi ->
  exists t i o, eval r fi (total_rhs g) = Some t /\ eval r fi (total_input g) = Some i /\
                eval r fi (total_output g) = Some o /\ (t == i - o)%Q.
Proof. exact mass_balance_closed_lemma. Qed.

(* ---- serialisation ------------------------------------------------------------------------------------------------ *)
(* from_dict (to_dict s) is s itself — same node order, same adjacency order, same compartments
   (doses, input, lag time, bioavailability), same rates, same t — for every well-formed graph. *)
Theorem dict_roundtrip : forall g t, WF g -> from_dict (to_dict (g, t)) = Some (g, t).
Proof. exact dict_roundtrip_lemma. Qed.

Theorem dict_roundtrip_built : forall ops t, from_dict (to_dict (build ops, t)) = Some (build ops, t).
Proof. exact dict_roundtrip_built_lemma. Qed.

(* ... and `from_dict(to_dict(cs)) == cs` is True for EVERY well-formed system, with or without dose or
   central compartment (no guard since fix 876afb2: == no longer raises). *)
Theorem dict_roundtrip_eq : forall g t,
  WF g -> exists s', from_dict (to_dict (g, t)) = Some s' /\ cs_eq s' (g, t) = true.
Proof. exact dict_roundtrip_eq_lemma. Qed.

(* == is reflexive on every well-formed system *)
Theorem cs_eq_refl : forall g t, WF g -> cs_eq (g, t) (g, t) = true.
Proof. exact cs_eq_refl_lemma. Qed.

(* ---- substitution ---------------------------------------------------------------------------------------------------- *)
(* subs keeps nodes and edges and substitutes every expression: each flow of the substituted system
   is the substituted flow of the original one (compartment names are unique, so relabelled nodes
   cannot collide) ... *)
Theorem subs_preserves_flows : forall m g u v,
  WF g -> names_unique (comps g) = true -> In u (nodes g) -> In v (nodes g) ->
  get_flow (subs_graph m g) (node_subs m u) (node_subs m v) = subs_map m (get_flow g u v).
Proof. exact subs_preserves_flows_lemma. Qed.

(* ... hence it evaluates, in every environment, like the original flow in the substituted environment *)
Theorem subs_flow_eval : forall m g u v r fi,
  WF g -> names_unique (comps g) = true -> In u (nodes g) -> In v (nodes g) ->
  eval r fi (get_flow (subs_graph m g) (node_subs m u) (node_subs m v)) = eval (upd_map r fi m) fi (get_flow g u v).
Proof. exact subs_flow_eval_lemma. Qed.

Theorem subs_nodes : forall m g, nodes (subs_graph m g) = map (node_subs m) (nodes g).
Proof. exact subs_nodes_lemma. Qed.

(* name, number / kind / admid of doses unchanged; input, lag time, bioavailability substituted *)
Theorem subs_compartment : forall m c r fi,
  c_name (comp_subs m c) = c_name c /\
  eval r fi (c_input (comp_subs m c)) = eval (upd_map r fi m) fi (c_input c) /\
  eval r fi (c_lag (comp_subs m c)) = eval (upd_map r fi m) fi (c_lag c) /\
  eval r fi (c_bio (comp_subs m c)) = eval (upd_map r fi m) fi (c_bio c) /\
  map dose_admid (c_doses (comp_subs m c)) = map dose_admid (doses_prop c) /\
  map is_infusion (c_doses (comp_subs m c)) = map is_infusion (doses_prop c).
Proof. exact comp_subs_fields. Qed.

(* ---- builder operations change only what they name ------------------------------------------------------------------ *)
(* One step of networkx' in-place relabelling old -> new (new not yet a node) keeps every flow:
   the flow between the renamed images of u and v is the flow between u and v — self flows and
   flows in both directions between old and its neighbours included. [ren old new] renames old. *)
Theorem relabel_preserves_edges : forall g old new,
  WF g -> In old (nodes g) -> ~ In new (nodes g) ->
  forall u v, In u (nodes g) -> In v (nodes g) ->
  get_flow (relabel1 g old new) (ren old new u) (ren old new v) = get_flow g u v.
Proof. exact relabel1_flows. Qed.

(* set_lag_time, set_bioavailability, set_input, set_dose, add_dose, remove_dose replace one
   compartment c by an updated copy c' with the same name and amount, and keep every flow. *)
Theorem update_ops_preserve_flows : forall g o c c' u v,
  WF g -> names_unique (comps g) = true -> updated_comp g o = Some (c, c') ->
  In u (nodes g) -> In v (nodes g) ->
  c_name c' = c_name c /\ c_amount c' = c_amount c /\
  get_flow (fst (apply_op g o)) (ren (Cmt c) (Cmt c') u) (ren (Cmt c) (Cmt c') v) = get_flow g u v.
Proof. exact update_ops_preserve_flows. Qed.

(* In-place relabelling removes the old node from its place and puts the new one at the END of the
   node order (this is what makes to_dict depend on the editing history, see Refuted.dict_order_refuted,
   and what can change which compartment is "central" when several have an output flow). *)
Theorem relabel_moves_to_end : forall g old new,
  WF g -> In old (nodes g) -> ~ In new (nodes g) ->
  nodes (relabel1 g old new) = without old (nodes g) ++ [new].
Proof. exact relabel1_nodes_lemma. Qed.

(* node order after replacing compartment c by an updated copy c' of the same name: unchanged when
   nothing changed (c' == c), otherwise c' is last *)
Theorem update_node_order : forall g c c',
  WF g -> names_unique (comps g) = true -> In (Cmt c) (nodes g) -> c_name c' = c_name c ->
  nodes (relabel g [(Cmt c, Cmt c')]) = (if comp_eqb c' c then nodes g else without (Cmt c) (nodes g) ++ [Cmt c']).
Proof. exact relabel_same_name_unique. Qed.

(* Two compartments relabelled by one call (what move_dose does): every flow is kept, whichever of the two
   comes first in the node order.  [ren2 s s' d d'] renames s to s' and d to d'. *)
Theorem relabel_two_preserves_edges : forall g s s' d d' u v,
  WF g -> In s (nodes g) -> In d (nodes g) -> s <> d -> s <> Out -> d <> Out -> s' <> Out -> d' <> Out ->
  (s' = s \/ ~ In s' (nodes g)) -> (d' = d \/ ~ In d' (nodes g)) -> s' <> d' ->
  In u (nodes g) -> In v (nodes g) ->
  get_flow (relabel g [(s, s'); (d, d')]) (ren2 s s' d d' u) (ren2 s s' d d' v) = get_flow g u v.
Proof. exact relabel_two_flows. Qed.

(* move_dose (all doses, or the doses of one admid; source = destination included): source and destination
   are replaced by copies that differ only in their doses (same name, amount, input, lag time,
   bioavailability), every other node is literally unchanged, and every flow of the system is kept.
   Together with update_ops_preserve_flows this covers set_dose / add_dose / remove_dose / move_dose. *)
Theorem move_dose_preserves_flows : forall g sn dn admid src dst g',
  WF g -> names_unique (comps g) = true ->
  find_compartment g sn = Some src -> find_compartment g dn = Some dst ->
  apply_op g (OMoveDose sn dn admid) = (g', None) ->
  exists src' dst',
    (c_name src' = c_name src /\ c_amount src' = c_amount src /\ c_input src' = c_input src /\
     c_lag src' = c_lag src /\ c_bio src' = c_bio src) /\
    (c_name dst' = c_name dst /\ c_amount dst' = c_amount dst /\ c_input dst' = c_input dst /\
     c_lag dst' = c_lag dst /\ c_bio dst' = c_bio dst) /\
    (forall n, In n (nodes g) -> n <> Cmt src -> n <> Cmt dst -> ren2 (Cmt src) (Cmt src') (Cmt dst) (Cmt dst') n = n) /\
    (forall u v, In u (nodes g) -> In v (nodes g) ->
       get_flow g' (ren2 (Cmt src) (Cmt src') (Cmt dst) (Cmt dst') u) (ren2 (Cmt src) (Cmt src') (Cmt dst) (Cmt dst') v)
       = get_flow g u v).
Proof. exact move_dose_preserves_flows_lemma. Qed.

(* ---- to_compartmental_system (model C05/ToCs.v) ------------------------------------------------------------------- *)
(* Round trip through the differential equations, PARTIAL (bounded): for every system on at most three
   compartments — every set of flows between them, every set of output flows, every set of zero-order
   inputs, no dose / one dose / two doses — whose rates and inputs are pairwise distinct symbols, the system
   rebuilt by to_compartmental_system from the expanded equations has the same names, amounts, flows between
   compartments, flows to output and inputs ([same_flows]); doses, lag times and bioavailabilities are not
   in the equations and are not recovered.  12492 systems, closed by vm_compute.  Missing for the full
   statement [linear_distinct g -> same_flows g (rebuilt g)]: arbitrary size and arbitrary distinct rate
   expressions (checked on the implementation by oracle tag 20 and on the model by tag 9). *)
Theorem odes_roundtrip_partial : forall s,
  In s all_shapes ->
  let g := shape_graph s in
  WF g /\ linear_distinct g = true /\ same_flows g (rebuilt g) (order g) = true.
Proof. exact odes_roundtrip_bounded_lemma. Qed.

(* when the amounts of the system are the functions of the default independent variable that
   Compartment.create makes, to_compartmental_system builds exactly [rebuilt g] *)
Theorem rebuilt_default_idv : forall amt_t g, g_default_idv amt_t g = true -> rebuilt_with amt_t g = rebuilt g.
Proof. exact rebuilt_with_default. Qed.

(* to_compartmental_system for systems of ANY size — the term-matching loop.  For every well-formed
   [linear_distinct] system g (any number of compartments, any topology): (1) after the loop over equations,
   amounts and terms, the builder graph [g1 g] holds exactly the flows of g between the compartments: every
   +k*A_j of equation i was matched with the -k*A_j of equation j and of no other equation, and entered once as
   the flow j -> i with rate k (no accumulation); (2) no flow to output exists yet; (3) the function's result is
   the final pass (remaining negative terms -> flow to output, remaining positive terms -> input) applied to
   [g1 g] and to the remaining equations, which are computed by a fold that is independent of the graph.
   NOT proved for all sizes (only for the 12 492 systems of odes_roundtrip_partial, and checked by tags 9/20):
   that the remaining equations are exactly (output term, input term) and that the final pass then yields
   [same_flows g (rebuilt g)]. *)
Theorem odes_matching_loop : forall g,
  WF g -> linear_distinct g = true ->
  let cmts := map default_comp (order g) in
  let n := length (order g) in
  (forall a b, a < n -> b < n ->
     get_flow (g1 g) (Cmt (nthc cmts a)) (Cmt (nthc cmts b)) = get_flow g (Cmt (nthc (order g) a)) (Cmt (nthc (order g) b))) /\
  (forall a, get_flow (g1 g) (Cmt (nthc cmts a)) Out = Num 0%Q) /\
  rebuilt g = (let ne := fold_left (nstep (terms_of g)) (triples (terms_of g)) (terms_of g) in
               fold_left (final_eq cmts (amounts g)) (combine (seq 0 (length ne)) ne) (g1 g)).
Proof. exact matching_loop_flows_lemma. Qed.

(* the partner search: a positive term k*A_j of equation i (the flow j -> i) finds -k*A_j in equation j and in
   no other equation, for every well-formed system of any size *)
Theorem odes_partner_unique : forall g i j k,
  WF g -> linear_distinct g = true -> i < length (order g) -> j < length (order g) -> i <> j ->
  adj_lookup (adj_of g (Cmt (nthc (order g) j))) (Cmt (nthc (order g) i)) = Some k ->
  find_from (terms_of g) (mkT true k (Some j)) = Some j.
Proof. exact find_inflow_lemma. Qed.

(* the loop of the model is two independent folds over the flattened (equation, amount, term) triples *)
Theorem odes_loop_split : forall cmts eqs g0 ne0,
  fold_left (step_eq cmts eqs) (seq 0 (length eqs)) (g0, ne0)
  = (fold_left (gstep cmts eqs) (triples eqs) g0, fold_left (nstep eqs) (triples eqs) ne0).
Proof. exact main_loop_split. Qed.

(* Round 3 — the second loop invariant of to_compartmental_system, for systems of ANY size: for every
   well-formed [linear_distinct] g and every compartment number a, what remains of equation a after the
   term-matching loop (the [nstep] fold of odes_matching_loop) is duplicate-free and contains exactly the term of
   the flow a -> output (if any) and the zero-order input term of a (if any): every +k*A_j of an inflow and every
   -k*A_a of a flow to another compartment has been cancelled (rows are duplicate-free because rates are pairwise
   distinct, so first-occurrence removal is a filter).  The final pass (these terms -> flow to output / set_input,
   hence [same_flows g (rebuilt g)]) is still proved only for the systems of odes_roundtrip_partial. *)
Theorem odes_rest_equations : forall g a,
  WF g -> linear_distinct g = true -> a < length (order g) ->
  let ne := fold_left (nstep (terms_of g)) (triples (terms_of g)) (terms_of g) in
  length ne = length (order g) /\ NoDup (nth_leq ne a) /\
  (forall x, In x (nth_leq ne a) <-> In x (out_term g a ++ input_terms g a)).
Proof. exact rest_equations_lemma. Qed.

(* ---- Round 4: flow accessors (model C05/Access.v) ----------------------------------------------------------------------- *)
(* For every well-formed graph (hence every system the builder can make) and every node u of it:
   get_compartment_outflows(u) is exactly the stored adjacency of u (successors in insertion order, each with
   the rate get_flow returns for it) *)
Theorem outflows_spec : forall g u, WF g -> In u (nodes g) ->
  outflows g u = adj_of g u /\ (forall v r, In (v, r) (outflows g u) -> get_flow g u v = r).
Proof. exact outflows_lemma. Qed.

(* get_compartment_inflows(v) lists exactly the nodes that have an edge to v, each with the rate of that edge
   (v may be output) *)
Theorem inflows_spec : forall g v u r, WF g ->
  (In (u, r) (inflows g v) <-> In u (nodes g) /\ adj_lookup (adj_of g u) v = Some r).
Proof. exact inflows_lemma. Qed.

(* the two accessors describe the same set of flows: (v, r) is an outflow of u iff (u, r) is an inflow of v *)
Theorem out_in_duality : forall g u v r, WF g -> In u (nodes g) ->
  (In (v, r) (outflows g u) <-> In (u, r) (inflows g v)).
Proof. exact out_in_duality_lemma. Qed.

(* get_bidirectionals(c): exactly the nodes with a flow to c and a flow from c *)
Theorem bidirectionals_spec : forall g c u, WF g ->
  (In u (bidirectionals g c) <-> In u (nodes g) /\ has_edge g u c = true /\ has_edge g c u = true).
Proof. exact bidirectionals_lemma. Qed.

(* len(cs) is the number of compartments *)
Theorem cs_len_spec : forall g, WF g -> cs_len g = length (comps g).
Proof. exact cs_len_lemma. Qed.
